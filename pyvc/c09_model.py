"""pyvc.c09_model -- value models used by the C09 check (wire-format round trips).

Nothing here is a copy of repository code.  The module provides *library / language* models only:

  * codecs: how a python-side value (scalar, Optional, attrs record, tagged scalar) is stored as a z3 term inside a
    container of symbolic size and read back (`Scalar`, `Opt`, `Rec`, `Tagged`);
  * `ODict`: CPython's insertion-ordered `dict` with a symbolic number of entries
        n, karr[0..n) pairwise distinct keys in insertion order, dom[k] <=> k is a key, pos[k] = index of k, val[k];
    `d[k] = v`, `k in d`, `d[k]`, `len`, `bool`, iteration, `.items()/.keys()/.values()`, `**d` into a constructor;
  * `collections.UserDict` (base class of trial._MetricDict): `data` attribute + the mixin methods;
  * `spec_eq`: the equality the property talks about (the attrs `eq` actually declared, read from the class body on
    every run; fields documented as not transmitted are passed in by name; NaN is equal to NaN);
  * `msg_eq_fields`: field-wise equality of two proto messages (repeated fields: same length, same elements).

Everything registers itself through the extension hooks of `pyvc.models` (previous hooks are kept and chained).
"""
import z3

from . import engine as E
from . import models as M
from . import protomodel as pm
from . import xreal
from . import attrs_model as A
from .engine import Obj, Builtin, Bound, FuncVal, Unsupported, PyRaise
from .protomodel import Msg, SymList, Str, MsgSchema
from .source import ClassInfo

TRUST = [
    'CPython dict semantics as modelled by pyvc/c09_model.py:ODict (insertion order, assignment to an existing key keeps '
    'its position, equality ignores order)',
    'collections.UserDict semantics: `data` holds the entries; UserDict(**kw) performs self[k] = v for every keyword in order',
]

IT = [None]          # the interpreter of the path being explored (set by every entry function)


def cur():
    return IT[0]


# =========================================================================================== codecs
class Scalar:
    def __init__(self, kind):
        self.kind = kind
        self.sort = pm.scalar_sort(kind)

    def term(self, v):
        return pm._lift(v, self.sort)

    def wrap(self, t):
        return t

    def eq(self, a, b, excluded=()):
        return a == b


class Opt:
    """Optional[T] as none | some(T)."""
    _cache = {}

    def __init__(self, inner):
        self.inner = inner
        key = str(inner.sort)
        if key not in Opt._cache:
            dt = z3.Datatype('Opt_' + key)
            dt.declare('none')
            dt.declare('some', ('v', inner.sort))
            Opt._cache[key] = dt.create()
        self.sort = Opt._cache[key]

    def term(self, v):
        if v is None:
            return self.sort.none
        return self.sort.some(self.inner.term(v))

    def wrap(self, t):
        it = cur()
        if it.truth(self.sort.is_none(t)):
            return None
        return self.inner.wrap(self.sort.v(t))

    def eq(self, a, b, excluded=()):
        s = self.sort
        return z3.And(s.is_none(a) == s.is_none(b),
                      z3.Implies(s.is_some(a), self.inner.eq(s.v(a), s.v(b), excluded)))


class Rec:
    """an attrs class as a z3 record; `fields` = [(attribute name, codec)]; cls_fn() -> ClassInfo (re-read every run)."""

    def __init__(self, name, cls_fn, fields):
        self.name, self.cls_fn, self.fields = name, cls_fn, fields
        dt = z3.Datatype('Rec_' + name)
        dt.declare('mk', *[('r_' + a.lstrip('_'), c.sort) for a, c in fields])
        self.sort = dt.create()
        self.acc = {a: self.sort.accessor(0, i) for i, (a, c) in enumerate(fields)}

    def check_fields(self):
        spec = A.class_spec(self.cls_fn())
        have = [f.name for f in spec.fields]
        if have != [a for a, _ in self.fields]:
            raise Unsupported('class %s has fields %s in the current tree, the record model expects %s'
                              % (self.name, have, [a for a, _ in self.fields]))

    def term(self, o):
        if abstract_term(o) is not None:
            return abstract_term(o)
        if not isinstance(o, Obj):
            raise Unsupported('%r stored where a %s is expected' % (o, self.name))
        return self.sort.mk(*[c.term(o.attrs[a]) for a, c in self.fields])

    def wrap(self, t):
        return Obj(self.cls_fn(), {a: c.wrap(self.acc[a](t)) for a, c in self.fields})

    def eq(self, a, b, excluded=()):
        spec = A.class_spec(self.cls_fn())
        conj = []
        for at, c in self.fields:
            f = spec.field(at)
            if f is None or f.eq is False or (self.name, at.lstrip('_')) in excluded:
                continue
            conj.append(c.eq(self.acc[at](a), self.acc[at](b), excluded))
        return z3.And(*conj) if conj else z3.BoolVal(True)


PVal = z3.Datatype('PVal')
PVal.declare('B', ('b', z3.BoolSort()))
PVal.declare('I', ('i', z3.IntSort()))
PVal.declare('F', ('x', xreal.XReal))
PVal.declare('S', ('s', Str))
PVal = PVal.create()


def pval_num(t):
    """XReal value of a numeric tagged scalar."""
    return z3.If(PVal.is_B(t), xreal.fin(z3.If(PVal.b(t), z3.RealVal(1), z3.RealVal(0))),
                 z3.If(PVal.is_I(t), xreal.fin(z3.ToReal(PVal.i(t))), PVal.x(t)))


class Tagged:
    """str | int | float | bool  (ParameterValueTypes)."""
    sort = PVal

    def term(self, v):
        if isinstance(v, bool):
            return PVal.B(z3.BoolVal(v))
        if isinstance(v, int):
            return PVal.I(z3.IntVal(v))
        if isinstance(v, float):
            return PVal.F(xreal.lit(v))
        if isinstance(v, str):
            return PVal.S(pm.str_lit(v))
        s = v.sort()
        if s == z3.BoolSort():
            return PVal.B(v)
        if s == z3.IntSort():
            return PVal.I(v)
        if s == xreal.XReal:
            return PVal.F(v)
        if s == Str:
            return PVal.S(v)
        if s == PVal:
            return v
        raise Unsupported('tagged scalar of sort %s' % s)

    def wrap(self, t):
        it = cur()
        if it.truth(PVal.is_B(t)):
            return PVal.b(t)
        if it.truth(PVal.is_I(t)):
            return PVal.i(t)
        if it.truth(PVal.is_F(t)):
            return PVal.x(t)
        return PVal.s(t)

    def eq(self, a, b, excluded=()):
        """Python == across the tags (numbers compare by value, bool is the number 0/1, NaN equal to NaN)."""
        return z3.If(z3.Or(PVal.is_S(a), PVal.is_S(b)), a == b, pval_num(a) == pval_num(b))


# =========================================================================================== ordered dict of symbolic size
class ODict:
    """insertion-ordered dict with a symbolic number of entries.  Well-formedness (`wf()`) is the data-structure
    invariant of CPython's dict: it is *assumed* for symbolic inputs and *re-established as a checked loop-invariant
    clause* (`odict_wf` in the loop contracts) wherever a dict is havoced."""

    def __init__(self, kc, vc, n=None, karr=None, dom=None, pos=None, val=None):
        self.kc, self.vc = kc, vc
        ks, vs = kc.sort, vc.sort
        self.n = n if n is not None else z3.IntVal(0)
        self.karr = karr if karr is not None else z3.K(z3.IntSort(), pm._default_term(ks))
        self.dom = dom if dom is not None else z3.K(ks, z3.BoolVal(False))
        self.pos = pos if pos is not None else z3.K(ks, z3.IntVal(-1))
        self.val = val if val is not None else z3.K(ks, _default_of(vs))

    @classmethod
    def fresh(cls, run, name, kc, vc, wf=True):
        ks, vs = kc.sort, vc.sort
        d = cls(kc, vc, run.fresh(name + '_n', z3.IntSort()), run.fresh(name + '_keys', z3.ArraySort(z3.IntSort(), ks)),
                run.fresh(name + '_dom', z3.ArraySort(ks, z3.BoolSort())), run.fresh(name + '_pos', z3.ArraySort(ks, z3.IntSort())),
                run.fresh(name + '_val', z3.ArraySort(ks, vs)))
        run.assume(d.n >= 0)
        if wf:
            for ax in d.wf():
                run.axiom(ax)
        return d

    def wf(self):
        i = z3.Int('i!od')
        s = z3.Const('s!od', self.kc.sort)
        return [
            z3.ForAll([i], z3.Implies(z3.And(i >= 0, i < self.n), z3.And(self.dom[self.karr[i]], self.pos[self.karr[i]] == i))),
            z3.ForAll([s], z3.Implies(self.dom[s], z3.And(self.pos[s] >= 0, self.pos[s] < self.n, self.karr[self.pos[s]] == s))),
        ]

    def copy(self):
        return ODict(self.kc, self.vc, self.n, self.karr, self.dom, self.pos, self.val)

    def key(self, k):
        return self.kc.term(k)

    def set(self, k, v):
        """d[k] = v (no fork: the position bookkeeping is conditional on membership)."""
        kt, vt = self.key(k), self.vc.term(v)
        present = self.dom[kt]
        n0 = self.n
        self.karr = z3.If(present, self.karr, z3.Store(self.karr, n0, kt))
        self.pos = z3.If(present, self.pos, z3.Store(self.pos, kt, n0))
        self.n = z3.If(present, n0, n0 + 1)
        self.dom = z3.Store(self.dom, kt, z3.BoolVal(True))
        self.val = z3.Store(self.val, kt, vt)

    def get(self, it, k):
        kt = self.key(k)
        if not it.truth(self.dom[kt]):
            raise PyRaise(it.make_exc('KeyError', [k]))
        return self.vc.wrap(self.val[kt])

    def value_at(self, i):
        return self.val[self.karr[i]]

    # python-level protocol used by Interp.e_Call for `f(**d)`: one marker entry carrying the whole dict
    def items(self):
        return [('**', self)]

    def __repr__(self):
        return '<odict %s -> %s>' % (self.kc.sort, self.vc.sort)


def _default_of(sort):
    try:
        return pm._default_term(sort)
    except Exception:
        return z3.Const('default_' + str(sort), sort)


class PairList(SymList):
    """d.items() / d.keys() / d.values() of an ODict as an array-list (a snapshot of the dict at call time)."""

    def __init__(self, od, what):
        self.od = od.copy()
        self.what = what
        i = z3.Int('i!pl')
        if what == 'keys':
            arr = self.od.karr
        elif what == 'values':
            arr = z3.Lambda([i], self.od.val[self.od.karr[i]])
        else:
            arr = None
        SymList.__init__(self, self.od.n, arr, 'pair')

    def elem_sort(self):
        if self.what == 'keys':
            return self.od.kc.sort
        if self.what == 'values':
            return self.od.vc.sort
        raise Unsupported('items() view has no single element sort')

    def get(self, i):
        od = self.od
        k = od.kc.wrap(od.karr[i])
        if self.what == 'keys':
            return k
        v = od.vc.wrap(od.val[od.karr[i]])
        if self.what == 'values':
            return v
        return (k, v)


# declared element codecs of dict-typed locals that are still a concrete (empty) dict when a symbolic loop havocs them
DECLS = {}


def declare(module, qualname, varname, kc, vc):
    DECLS[(module, qualname, varname)] = (kc, vc)


def declared(it, name):
    for fv in reversed(it.stack):
        d = DECLS.get((fv.mod.dotted, fv.qualname, name))
        if d is not None:
            return d
    return None


def as_odict(it, v, name=None, codecs=None):
    """ODict view of a dict-valued local (a concrete empty dict is the empty ODict of the declared sorts)."""
    if isinstance(v, ODict):
        return v
    if isinstance(v, M.PyDict):
        d = codecs or declared(it, name)
        if d is None:
            raise Unsupported('dict %s reaches a symbolic loop without declared element sorts' % name)
        od = ODict(d[0], d[1])
        for k, x in v.items():
            od.set(k, x)
        return od
    raise Unsupported('%r is not a dict' % (v,))


# ------------------------------------------------------------------------------------------ hooks
def _chain(name, fn, missing=M.MISSING):
    prev = getattr(M, name)

    def hook(*a):
        r = fn(*a)
        if r is not missing:
            return r
        return prev(*a)
    setattr(M, name, hook)


def _setitem(it, base, idx, v):
    if isinstance(base, ODict):
        base.set(idx, v)
        return True
    return M.MISSING


def _subscript(it, base, idx):
    if isinstance(base, ODict):
        return base.get(it, idx)
    return M.MISSING


def _contains(it, container, x):
    if isinstance(container, ODict):
        return container.dom[container.key(x)]
    if isinstance(container, PairList) and container.what == 'keys':
        return container.od.dom[container.od.key(x)]
    return M.MISSING


def _od_getattr(it, v, a):
    if isinstance(v, ODict):
        if a in ('items', 'keys', 'values'):
            return Builtin(a, lambda it_, args, kw: PairList(v, a))
        if a == '__setitem__':
            return Builtin('__setitem__', lambda it_, args, kw: v.set(args[0], args[1]))
        if a == '__getitem__':
            return Builtin('__getitem__', lambda it_, args, kw: v.get(it_, args[0]))
        if a == '__contains__':
            return Builtin('__contains__', lambda it_, args, kw: v.dom[v.key(args[0])])
        if a == 'get':
            def get(it_, args, kw):
                kt = v.key(args[0])
                if it_.truth(v.dom[kt]):
                    return v.vc.wrap(v.val[kt])
                return args[1] if len(args) > 1 else kw.get('default')
            return Builtin('get', get)
        if a == 'copy':
            return Builtin('copy', lambda it_, args, kw: v.copy())
        raise Unsupported('method %s of a dict of symbolic size' % a)
    return M.MISSING


def _fresh_like(it, v, name):
    if isinstance(v, M.PyDict):
        d = declared(it, name)
        if d is None:
            return M.MISSING
        return ODict.fresh(it.run, name, d[0], d[1], wf=False)
    if isinstance(v, ODict):
        return ODict.fresh(it.run, name, v.kc, v.vc, wf=False)
    return M.MISSING


def _deepcopy(it, v, memo):
    if isinstance(v, ODict):
        return v.copy()
    return M.MISSING


def _iterate(it, v):
    if isinstance(v, ODict):
        pl = PairList(v, 'keys')
        r = M.try_iterate(it, pl)
        return r if r is not None else M.MISSING
    return M.MISSING


def _len(it, v):
    if isinstance(v, ODict):
        return v.n
    return M.MISSING


_chain('setitem_hook', _setitem)
_chain('subscript_hook', _subscript)
_chain('contains_hook', _contains)
_chain('value_getattr_hook', _od_getattr)
_chain('fresh_like_hook', _fresh_like)
_chain('deepcopy_hook', _deepcopy)
_chain('iterate_hook', _iterate)
_chain('len_hook', _len)

_prev_truth = M.truth_hook


def _truth(it, v):
    if isinstance(v, ODict):
        return v.n > 0
    return _prev_truth(it, v)


M.truth_hook = _truth


# =========================================================================================== collections.UserDict
_USERDICT = {'collections.UserDict'}


def is_userdict_class(cls):
    if not isinstance(cls, ClassInfo):
        return False
    for c in E.mro(cls):
        if isinstance(c, ClassInfo):
            for b in c.base_nodes:
                if A._dotted(c.mod, b) in _USERDICT:
                    return True
    return False


def _ud_setitem(it, o, k, v):
    c, m = E.find_method(o.cls, '__setitem__')
    if m is not None:
        return it.invoke(FuncVal(c.mod, m, c), [o, k, v], {})
    M.setitem(it, o.attrs['data'], k, v)


def _ud_construct(it, cls, args, kw):
    """UserDict.__init__(dict=None, /, **kwargs): data = {}; self.update(dict); self.update(kwargs) -- update performs
    self[k] = v per entry.  For a `**d` with d of symbolic size the per-entry effect of the class's own __setitem__ is
    executed once on an arbitrary entry; if it stores the entry unchanged the result holds exactly the entries of d."""
    if not is_userdict_class(cls):
        return M.MISSING
    o = Obj(cls, {'data': M.PyDict()})
    srcs = list(args[:1])
    star = kw.pop('**', None) if isinstance(kw.get('**'), ODict) else None
    for s in srcs:
        if s is None:
            continue
        if isinstance(s, ODict):
            if star is not None:
                raise Unsupported('UserDict(d, **e) with two dicts of symbolic size')
            star = s
        else:
            for k, v in _pairs(it, s):
                _ud_setitem(it, o, k, v)
    if star is not None:
        if len(o.attrs['data']) or kw:
            raise Unsupported('UserDict(**d) mixed with other entries')
        run = it.run
        k = run.fresh('ud_k', star.kc.sort)
        scratch = Obj(cls, {'data': ODict(star.kc, star.vc)})
        vt = star.val[k]
        _ud_setitem(it, scratch, star.kc.wrap(k), star.vc.wrap(vt))
        sd = scratch.attrs['data']
        run.oblige('UserDict.init.pointwise', z3.And(sd.n == 1, sd.dom[k], sd.val[k] == vt, sd.karr[0] == k))
        o.attrs['data'] = star.copy()
        return o
    for k, v in kw.items():
        _ud_setitem(it, o, k, v)
    return o


def _pairs(it, s):
    if isinstance(s, M.PyDict):
        return list(s.items())
    if isinstance(s, Obj) and 'data' in s.attrs and isinstance(s.attrs['data'], M.PyDict):
        return list(s.attrs['data'].items())
    return [tuple(M.iterate(it, kv)) for kv in M.iterate(it, s)]


_chain('construct_hook', _ud_construct)


def _ud_getattr(it, o, a):
    if not (isinstance(o, Obj) and is_userdict_class(o.cls) and 'data' in o.attrs):
        return M.MISSING
    d = o.attrs['data']
    if a in ('items', 'keys', 'values', 'get', 'copy'):
        return it.getattr(d, a)
    if a == '__contains__':
        return Builtin('__contains__', lambda it_, args, kw: M.contains(it_, d, args[0]))
    if a == '__getitem__':
        return Builtin('__getitem__', lambda it_, args, kw: M.subscript(it_, d, args[0]))
    if a == '__len__':
        return Builtin('__len__', lambda it_, args, kw: M.b_len(it_, [d], {}))
    return M.MISSING


_chain('obj_getattr', _ud_getattr)


def _ud_contains(it, container, x):
    if isinstance(container, Obj) and is_userdict_class(container.cls) and 'data' in container.attrs:
        c, m = E.find_method(container.cls, '__contains__')
        if m is None:
            return M.contains(it, container.attrs['data'], x)
    return M.MISSING


def _ud_subscript(it, base, idx):
    if isinstance(base, Obj) and is_userdict_class(base.cls) and 'data' in base.attrs:
        c, m = E.find_method(base.cls, '__getitem__')
        if m is None:
            return M.subscript(it, base.attrs['data'], idx)
    return M.MISSING


def _ud_len(it, v):
    if isinstance(v, Obj) and is_userdict_class(v.cls) and 'data' in v.attrs:
        return M.b_len(it, [v.attrs['data']], {})
    return M.MISSING


def _ud_iterate(it, v):
    if isinstance(v, Obj) and is_userdict_class(v.cls) and 'data' in v.attrs:
        r = M.try_iterate(it, v.attrs['data'])
        return r if r is not None else M.MISSING
    return M.MISSING


_chain('contains_hook', _ud_contains)
_chain('subscript_hook', _ud_subscript)
_chain('len_hook', _ud_len)
_chain('iterate_hook', _ud_iterate)

_prev_truth2 = M.truth_hook


def _truth2(it, v):
    if isinstance(v, Obj) and is_userdict_class(v.cls) and 'data' in v.attrs:
        return it.truth_term(v.attrs['data']) if not isinstance(v.attrs['data'], ODict) else v.attrs['data'].n > 0
    return _prev_truth2(it, v)


M.truth_hook = _truth2


# =========================================================================================== equality of the property
def _is_str(v):
    return isinstance(v, str) or (z3.is_expr(v) and v.sort() == Str)


def _is_num(v):
    return isinstance(v, (bool, int, float)) or (z3.is_expr(v) and v.sort() in (z3.BoolSort(), z3.IntSort(), z3.RealSort(), xreal.XReal))


def scalar_eq(a, b):
    """Python == on scalars, except that NaN equals NaN (values are compared as values)."""
    if _is_str(a) or _is_str(b):
        if not (_is_str(a) and _is_str(b)):
            return False
        r = pm._lift(a, Str) == pm._lift(b, Str)
        return z3.simplify(r) if not (isinstance(a, str) and isinstance(b, str)) else (a == b)
    if _is_num(a) and _is_num(b):
        if not z3.is_expr(a) and not z3.is_expr(b):
            return (a == b) or (a != a and b != b)
        return xreal.lift(a) == xreal.lift(b)
    if z3.is_expr(a) and z3.is_expr(b) and a.sort() == b.sort():
        return a == b
    return False


def odict_eq(a, b, excluded=()):
    k = z3.Const('k!oe', a.kc.sort)
    return z3.And(a.n == b.n,
                  z3.ForAll([k], z3.And(a.dom[k] == b.dom[k], z3.Implies(a.dom[k], a.vc.eq(a.val[k], b.val[k], excluded)))))


def spec_eq(it, a, b, excluded=()):
    """`a == b` as the property means it: attrs-generated __eq__ (eq=False fields dropped), dict/list/tuple equality,
    Python scalar equality across int/float/bool, NaN == NaN; (class name, field) pairs in `excluded` are skipped."""
    if a is None or b is None:
        return a is None and b is None
    if isinstance(a, ODict) or isinstance(b, ODict):
        if isinstance(a, M.PyDict):
            a = as_odict(it, a, codecs=(b.kc, b.vc))
        if isinstance(b, M.PyDict):
            b = as_odict(it, b, codecs=(a.kc, a.vc))
        if not (isinstance(a, ODict) and isinstance(b, ODict)):
            return False
        return odict_eq(a, b, excluded)
    if isinstance(a, M.PyDict) and isinstance(b, M.PyDict):
        if len(a) != len(b):
            return False
        conj = []
        for k, v in a.items():
            alts = []
            for k2, v2 in b.items():
                ck = spec_eq(it, k, k2, excluded)
                if ck is False:
                    continue
                alts.append(E.zand(ck, spec_eq(it, v, v2, excluded)))
            conj.append(E.zor(*alts))
        return E.zand(*conj)
    if isinstance(a, (list, tuple)) and isinstance(b, (list, tuple)):
        if isinstance(a, tuple) != isinstance(b, tuple) or len(a) != len(b):
            return False
        return E.zand(*[spec_eq(it, x, y, excluded) for x, y in zip(a, b)])
    if isinstance(a, SymList) or isinstance(b, SymList):
        return symlist_eq(it, a, b, excluded)
    if isinstance(a, Obj) and isinstance(b, Obj):
        if getattr(a, 'enum_member', False) or getattr(b, 'enum_member', False):
            return a is b
        ta, tb = abstract_term(a), abstract_term(b)
        if ta is not None or tb is not None:
            if ta is None or tb is None or abstract_codec(a) is not abstract_codec(b):
                return False
            return abstract_codec(a).eq(ta, tb, excluded)
        if not (isinstance(a.cls, ClassInfo) and isinstance(b.cls, ClassInfo) and E.same_class(a.cls, b.cls)):
            return False
        if is_userdict_class(a.cls):
            return spec_eq(it, a.attrs['data'], b.attrs['data'], excluded)
        spec = A.class_spec(a.cls)
        if spec is None or not spec.eq:
            c, m = E.find_method(a.cls, '__eq__')
            if m is not None:
                return it.truth_term(it.invoke(FuncVal(c.mod, m, c), [a, b], {}))
            return a is b
        conj = []
        for name, f in field_clauses(it, a, b, excluded):
            conj.append(f)
        return E.zand(*conj)
    if isinstance(a, Obj) or isinstance(b, Obj):
        return False
    if isinstance(a, Msg) and isinstance(b, Msg):
        return a.pack() == b.pack()
    return scalar_eq(a, b)


def field_clauses(it, a, b, excluded=()):
    """[(field name, formula)] of the attrs-generated __eq__ of a's class."""
    spec = A.class_spec(a.cls)
    out = []
    for f in spec.fields:
        nm = f.name.lstrip('_')
        if f.eq is False or (a.cls.name, nm) in excluded:
            continue
        if f.name not in a.attrs or f.name not in b.attrs:
            raise Unsupported('== on %s with unset field %s' % (a.cls.qualname, f.name))
        x, y = a.attrs[f.name], b.attrs[f.name]
        if f.eq is not True:
            key = A._eval_in_class(it, f.owner, f.eq)
            x, y = it.call(key, [x], {}), it.call(key, [y], {})
        out.append((nm, E.zbool(spec_eq(it, x, y, excluded))))
    return out


def symlist_eq(it, a, b, excluded=()):
    if isinstance(a, SymList) and isinstance(b, SymList):
        j = z3.Int('j!se')
        ea, eb = a.get(j), b.get(j)
        if isinstance(ea, Msg):
            c = ea.pack() == eb.pack()
        else:
            codec = getattr(a, 'codec', None)
            c = codec.eq(a.arr[j], b.arr[j], excluded) if codec is not None else (a.arr[j] == b.arr[j])
        return z3.And(a.n == b.n, z3.ForAll([j], z3.Implies(z3.And(j >= 0, j < a.n), c)))
    sl, other = (a, b) if isinstance(a, SymList) else (b, a)
    if isinstance(other, (list, tuple)):
        return z3.And(sl.n == len(other), *[E.zbool(spec_eq(it, sl.get(z3.IntVal(i)), x, excluded)) for i, x in enumerate(other)])
    return False


# =========================================================================================== proto message equality, per field
TIME_MESSAGES = {'google.protobuf.Timestamp', 'google.protobuf.Duration'}
TIME_TOLERANCE = [True]     # Timestamp/Duration fields are compared as times, to the microsecond (see ASSUMPTIONS of C09)


def time_value(schema, t):
    """seconds + nanos / 10^9 of a Timestamp/Duration term (exact real)"""
    sec, ns = pm.accessor(schema, 'seconds')(t), pm.accessor(schema, 'nanos')(t)
    return z3.ToReal(sec) + z3.ToReal(ns) / z3.RealVal(10 ** 9)


def term_eq_fields(schema, ta, tb, prefix='', guard=None):
    """[(dotted field path, formula)]: field-wise equality of two packed messages of `schema` (proto equality:
    scalar fields equal, presence equal, repeated fields same length and same elements).  Fine-grained: one clause per
    leaf, presence flags separately (`path#has`), so that quantifier-free facts stay quantifier-free."""
    reg = pm.registry()
    g = (lambda c: c) if guard is None else (lambda c: z3.Implies(guard, c))
    if schema.fq in pm.OPAQUE_MESSAGES:
        return [(prefix.rstrip('.') or 'value', g(ta == tb))]
    layout = pm.msg_layout(schema)
    index = {zn: k for k, (zn, _, _, _) in enumerate(layout)}
    mk = pm._MK[schema.fq]

    def acc(zn, t):
        # accessor applied to a constructor term: take the argument (keeps terms small)
        if z3.is_app(t) and t.num_args() == len(layout) and t.decl().eq(mk):
            return t.arg(index[zn])
        return pm.accessor(schema, zn)(t)
    out = []
    done = set()
    for zname, sort, role, f in layout:
        if role == 'case':
            out.append((prefix + f + '#case', g(acc(zname, ta) == acc(zname, tb))))
            continue
        if f.name in done:
            continue
        done.add(f.name)
        path = prefix + f.name
        if f.repeated:
            j = z3.Int('j!mq_' + path.replace('.', '_'))
            la, lb = acc(f.name + '__len', ta), acc(f.name + '__len', tb)
            aa, ab = acc(f.name + '__arr', ta), acc(f.name + '__arr', tb)
            if f.kind == 'message':
                sub = reg.msgs[f.type_fq]
                # identical records are in particular field-wise equal: the first disjunct is logically redundant, it
                # lets the solver close the common case without unfolding the nested comparison
                inner = z3.Or(aa[j] == ab[j], z3.And(*[c for _, c in term_eq_fields(sub, aa[j], ab[j])]))
            else:
                inner = aa[j] == ab[j]
            out.append((path + '#len', g(la == lb)))
            out.append((path, g(z3.ForAll([j], z3.Implies(z3.And(j >= 0, j < la), inner)))))
        elif f.kind == 'message':
            sub = reg.msgs[f.type_fq]
            if f.oneof:
                case = acc('case__' + f.oneof, ta) == f.number
                g2 = case if guard is None else z3.And(guard, case)
            else:
                ha, hb = acc('has__' + f.name, ta), acc('has__' + f.name, tb)
                out.append((path + '#has', g(ha == hb)))
                g2 = ha if guard is None else z3.And(guard, ha)
            if sub.fq in TIME_MESSAGES and TIME_TOLERANCE[0]:
                d = time_value(sub, acc(f.name, ta)) - time_value(sub, acc(f.name, tb))
                c = z3.And(d < z3.RealVal('1/1000000'), -d < z3.RealVal('1/1000000'))
                out.append((path, z3.Implies(g2, c)))
                continue
            out += term_eq_fields(sub, acc(f.name, ta), acc(f.name, tb), path + '.', g2)
        else:
            c = acc(f.name, ta) == acc(f.name, tb)
            if f.oneof:
                c = z3.Implies(acc('case__' + f.oneof, ta) == f.number, c)
            elif f.optional:
                ha, hb = acc('has__' + f.name, ta), acc('has__' + f.name, tb)
                out.append((path + '#has', g(ha == hb)))
                c = z3.Implies(ha, c)
            out.append((path, g(c)))
    return out


def top_field(path):
    return path.split('.')[0].split('#')[0]


def group_by_field(clauses):
    """[(top-level field, conjunction of its leaf clauses)] in first-appearance order"""
    order, acc = [], {}
    for path, c in clauses:
        t = top_field(path)
        if t not in acc:
            order.append(t)
            acc[t] = []
        acc[t].append(c)
    return [(t, z3.And(*acc[t]) if len(acc[t]) > 1 else acc[t][0]) for t in order]


def msg_eq_fields(a, b):
    return term_eq_fields(a.schema, a.pack(), b.pack())


QF_IDS, Q_IDS = set(), set()
_KEEP = []          # keeps the classified formulas alive (z3 ast ids are reused after garbage collection)


def classify(f, quantified):
    (Q_IDS if quantified else QF_IDS).add(f.get_id())
    _KEEP.append(f)
    return f


_orig_has_quantifier = E._has_quantifier


def _has_quantifier(f):
    k = f.get_id()
    if k in QF_IDS:
        return False
    if k in Q_IDS:
        return True
    return _orig_has_quantifier(f)


E._has_quantifier = _has_quantifier


def msg_frame(cur_msg, entry_msg, changed):
    """[(clause name, formula)]: the message is the entry message with only the top-level fields in `changed` replaced:
    one quantifier-free datatype equation  cur == mk(entry.f1, .., cur.changed, .., entry.fk)  (repeated fields outside
    `changed` keep length and array)."""
    schema = cur_msg.schema
    layout = pm.msg_layout(schema)
    mk = pm._MK[schema.fq]
    tc, te = cur_msg.pack(), entry_msg.pack()
    e_is_mk = z3.is_app(te) and te.num_args() == len(layout) and te.decl().eq(mk)
    args = []
    for k, (zname, sort, role, f) in enumerate(layout):
        fname = f if role == 'case' else f.name
        owner = fname
        if role != 'case' and f.oneof:
            owner_names = {fname, f.oneof}
        elif role == 'case':
            owner_names = {fname} | set(schema.oneofs[fname])
        else:
            owner_names = {fname}
        if owner_names & set(changed):
            args.append(pm.accessor(schema, zname)(tc))
        else:
            args.append(te.arg(k) if e_is_mk else pm.accessor(schema, zname)(te))
    return [('frame', classify(tc == mk(*args), False))]


# =========================================================================================== numpy scalars used by the records
def _np_isfinite(it, args, kw):
    v = args[0]
    if z3.is_expr(v):
        if v.sort() == xreal.XReal:
            return xreal.is_fin(v)
        if v.sort() in (z3.IntSort(), z3.BoolSort(), z3.RealSort()):
            return True
        raise Unsupported('np.isfinite(%s)' % v.sort())
    import math
    return math.isfinite(v)


for _pkg in ('numpy', 'np'):
    E.EXTERNAL.setdefault(_pkg + '.isfinite', Builtin('np.isfinite', _np_isfinite))
    E.EXTERNAL.setdefault(_pkg + '.inf', float('inf'))
    E.EXTERNAL.setdefault(_pkg + '.nan', float('nan'))


# =========================================================================================== abstract records, codec lists
class Abstract:
    """a python object known only as a term of an uninterpreted (or record) sort: attribute access is unsupported;
    the converters of such objects are used through their contracts (modular verification)."""

    def __init__(self, name, sort, cls_fn=None, eq_fn=None):
        self.name, self.sort, self.cls_fn, self.eq_fn = name, sort, cls_fn, eq_fn

    def term(self, o):
        t = abstract_term(o)
        if t is None:
            raise Unsupported('%r stored where an abstract %s is expected' % (o, self.name))
        return t

    def wrap(self, t, **attrs):
        o = Obj(self.cls_fn() if self.cls_fn else self.name, dict(attrs))
        o.term, o.abstract, o.codec = t, True, self
        o.attrs['__term__'], o.attrs['__codec__'] = t, self        # survive copy.deepcopy / copy.copy of the engine
        return o

    def eq(self, a, b, excluded=()):
        return self.eq_fn(a, b) if self.eq_fn else a == b


def abstract_obj(codec, term):
    return codec.wrap(term)


def abstract_term(o):
    """the term of an abstract object (None for ordinary values)"""
    if not isinstance(o, Obj):
        return None
    t = getattr(o, 'term', None)
    if z3.is_expr(t) and getattr(o, 'abstract', False):
        return t
    t = o.attrs.get('__term__')
    return t if z3.is_expr(t) else None


def abstract_codec(o):
    return getattr(o, 'codec', None) or o.attrs.get('__codec__')


class CodecList(SymList):
    """array-list of python objects stored through a codec."""

    def __init__(self, n, arr, codec):
        SymList.__init__(self, n, arr, 'codec')
        self.codec = codec

    @classmethod
    def empty(cls, codec):
        return cls(z3.IntVal(0), z3.K(z3.IntSort(), _default_of(codec.sort)), codec)

    @classmethod
    def fresh(cls, run, name, codec):
        lst = cls(run.fresh(name + '_n', z3.IntSort()), run.fresh(name + '_a', z3.ArraySort(z3.IntSort(), codec.sort)), codec)
        run.assume(lst.n >= 0)
        return lst

    def elem_sort(self):
        return self.codec.sort

    def wrap(self, term):
        return self.codec.wrap(term)


_orig_elem_term = M.elem_term


def _elem_term(lst, v):
    if isinstance(lst, CodecList):
        return lst.codec.term(v)
    return _orig_elem_term(lst, v)


M.elem_term = _elem_term

_orig_snapshot = M.snapshot


def _snapshot(v):
    if isinstance(v, CodecList):
        return CodecList(v.n, v.arr, v.codec)
    if isinstance(v, ODict):
        return v.copy()
    return _orig_snapshot(v)


M.snapshot = _snapshot


def _isinstance(it, o, c):
    if isinstance(o, ODict):
        return c == 'dict'
    if isinstance(o, DT):
        return (isinstance(c, E.ExtRef) and c.dotted == 'datetime.datetime') or c == 'object'
    return M.MISSING


# =========================================================================================== Mapping mixin over an ODict
def _b_iter(it, args, kw, _prev=M.BUILTINS['iter'].fn):
    if args and isinstance(args[0], ODict):
        return PairList(args[0], 'keys')
    return _prev(it, args, kw)


M.BUILTINS['iter'] = Builtin('iter', _b_iter)


def _abs_copy(od):
    c = od.copy()
    c.vc = Abstract('value', od.vc.sort, getattr(od.vc, 'cls_fn', None))
    return c


def _sym_mapping_getattr(it, o, a):
    """items()/keys()/values() of a repo Mapping class whose __iter__ iterates a dict of symbolic size: the mixin
    yields (k, self[k]) for k in iter(self); `self[k]` is executed once on an arbitrary key (pointwise obligation)."""
    if a not in ('items', 'keys', 'values') or not isinstance(o, Obj) or not isinstance(o.cls, ClassInfo):
        return M.MISSING
    if is_userdict_class(o.cls) or not A._is_mapping_class(o.cls):
        return M.MISSING
    srcs = [(n, v) for n, v in o.attrs.items() if isinstance(v, ODict)]
    if len(srcs) != 1:
        return M.MISSING
    fname, od = srcs[0]
    ks = it.call(A._dunder(it, o, '__iter__'), [], {})
    if not (isinstance(ks, PairList) and ks.what == 'keys'):
        return M.MISSING
    if a != 'keys':
        run = it.run
        k = run.fresh('mp_k', od.kc.sort)
        run.assume(od.dom[k])
        probe = Obj(o.cls, dict(o.attrs))
        probe.attrs[fname] = _abs_copy(od)
        r = it.call(A._dunder(it, probe, '__getitem__'), [od.kc.wrap(k)], {})
        run.oblige('Mapping.items.pointwise', z3.BoolVal(False) if not z3.is_expr(getattr(r, 'term', None)) else r.term == od.val[k])
    return Builtin(a, lambda it_, args, kw: PairList(ks.od, a))


_chain('obj_getattr', _sym_mapping_getattr)


def _sym_map_update(it, o, a):
    """MutableMapping.update(other) with `other` a dict of symbolic size: self[k] = other[k] for k in other, executed
    once on an arbitrary entry into an empty scratch instance (pointwise obligation); only for an empty receiver."""
    if a != 'update' or not isinstance(o, Obj) or not isinstance(o.cls, ClassInfo) or is_userdict_class(o.cls):
        return M.MISSING
    if not A._is_mapping_class(o.cls):
        return M.MISSING
    prev_update = None

    def update(it_, args, kw):
        if not (args and isinstance(args[0], ODict)):
            return it_.call(_prev_obj_getattr_update(it_, o), list(args), kw)
        src = args[0]
        if kw:
            raise Unsupported('update(d, **kw) with d of symbolic size')
        tgt = [(n, v) for n, v in o.attrs.items() if isinstance(v, (M.PyDict, ODict))]
        if len(tgt) != 1 or (isinstance(tgt[0][1], M.PyDict) and len(tgt[0][1])) or (isinstance(tgt[0][1], ODict) and not z3.is_int_value(z3.simplify(tgt[0][1].n))):
            raise Unsupported('update() of a non-empty mapping from a dict of symbolic size')
        fname = tgt[0][0]
        run = it_.run
        k = run.fresh('up_k', src.kc.sort)
        absc = Abstract('value', src.vc.sort, getattr(src.vc, 'cls_fn', None))
        scratch = Obj(o.cls, dict(o.attrs))
        scratch.attrs[fname] = ODict(src.kc, absc)
        it_.call(A._dunder(it_, scratch, '__setitem__'), [src.kc.wrap(k), absc.wrap(src.val[k])], {})
        sd = scratch.attrs[fname]
        run.oblige('Mapping.update.pointwise', z3.And(sd.n == 1, sd.dom[k], sd.val[k] == src.val[k], sd.karr[0] == k))
        o.attrs[fname] = src.copy()
        return None
    return Builtin('MutableMapping.update', update)


_prev_obj_getattr_for_update = M.obj_getattr


def _prev_obj_getattr_update(it, o):
    r = _prev_obj_getattr_for_update(it, o, 'update')
    if r is M.MISSING:
        raise Unsupported('update() of %r' % (o,))
    return r


_chain('obj_getattr', _sym_map_update)


# =========================================================================================== datetime (aware instants)
class DT:
    """an aware datetime.datetime, determined by its instant `ts` (POSIX seconds, a z3 Real).  datetime objects have
    microsecond resolution: `ts * 10^6` is an integer (assumed for inputs, established by fromtimestamp's rounding)."""

    def __init__(self, ts):
        self.ts = ts

    def __repr__(self):
        return '<datetime ts=%s>' % (self.ts,)


MICRO = z3.RealVal(1000000)


def round_us(t):
    """nearest multiple of 1e-6 (datetime.fromtimestamp rounds to the nearest microsecond; ties are not modelled apart)."""
    return z3.ToReal(z3.ToInt(t * MICRO + z3.RealVal('1/2'))) / MICRO


def fresh_dt(run, name):
    t = run.fresh(name, z3.RealSort())
    run.assume(z3.IsInt(t * MICRO))
    return DT(t)


def _dt_timestamp(it, args, kw):
    d = args[0]
    if not isinstance(d, DT):
        raise Unsupported('datetime.timestamp(%r)' % (d,))
    return xreal.fin(d.ts)


def _dt_fromtimestamp(it, args, kw):
    t = args[0]
    if len(args) > 1 or kw:
        raise Unsupported('datetime.fromtimestamp with a tz argument')
    if isinstance(t, (int, float)):
        t = xreal.lit(t)
    elif z3.is_expr(t) and t.sort() == z3.IntSort():
        t = xreal.from_num(t)
    if not xreal.is_x(t):
        raise Unsupported('datetime.fromtimestamp(%r)' % (t,))
    if not it.truth(xreal.is_fin(t)):
        raise PyRaise(it.make_exc('ValueError', ['cannot convert float NaN/inf to a timestamp']))
    # fromtimestamp rounds to the nearest microsecond: the result is within half a microsecond of the argument
    r = it.run.fresh('dt_us', z3.RealSort())
    d = r - z3.simplify(xreal.r(t))
    it.run.assume(z3.And(d <= z3.RealVal('1/2000000'), -d <= z3.RealVal('1/2000000')))
    return DT(r)


E.EXTERNAL['datetime.datetime.timestamp'] = Builtin('datetime.timestamp', _dt_timestamp)
E.EXTERNAL['datetime.datetime.fromtimestamp'] = Builtin('datetime.fromtimestamp', _dt_fromtimestamp)


def _dt_getattr(it, v, a):
    if isinstance(v, DT):
        if a == 'astimezone':
            return Builtin('astimezone', lambda it_, args, kw: v)       # same instant
        if a == 'timestamp':
            return Builtin('timestamp', lambda it_, args, kw: xreal.fin(v.ts))
        raise Unsupported('datetime attribute %s' % a)
    return M.MISSING


_chain('value_getattr_hook', _dt_getattr)
_chain('isinstance_hook', _isinstance)

_prev_truth3 = M.truth_hook


def _truth3(it, v):
    if isinstance(v, DT):
        return True
    return _prev_truth3(it, v)


M.truth_hook = _truth3


def dt_close(a, b):
    """|a - b| < 1e-6 ("times are preserved to the microsecond")"""
    d = a.ts - b.ts
    return z3.And(d < z3.RealVal('1/1000000'), -d < z3.RealVal('1/1000000'))


_prev_spec_eq = spec_eq


def spec_eq(it, a, b, excluded=()):     # noqa: F811  (datetimes: same instant)
    if isinstance(a, DT) or isinstance(b, DT):
        if isinstance(a, DT) and isinstance(b, DT):
            return dt_close(a, b)       # "times are preserved to the microsecond"
        return False
    return _prev_spec_eq(it, a, b, excluded)


# =========================================================================================== generic elements (case splits)
# codec.generic(prefix) -> [(guard(t) -> z3 Bool, generic term, subst(t) -> [(generic const, actual term)])]
# the cases partition the sort; inside one case wrapping the generic term never branches.
_GEN = [0]


def _gconst(prefix, sort):
    _GEN[0] += 1
    return z3.Const('g!%s!%d' % (prefix, _GEN[0]), sort)


def _scalar_generic(self, prefix):
    g = _gconst(prefix, self.sort)
    return [(lambda t: z3.BoolVal(True), g, lambda t: [(g, t)])]


Scalar.generic = _scalar_generic
Abstract.generic = _scalar_generic


def _tagged_generic(self, prefix):
    P = PVal
    gb, gi, gx, gs = _gconst(prefix + 'b', z3.BoolSort()), _gconst(prefix + 'i', z3.IntSort()), _gconst(prefix + 'x', xreal.XReal), _gconst(prefix + 's', Str)
    return [(lambda t: P.is_B(t), P.B(gb), lambda t: [(gb, P.b(t))]),
            (lambda t: P.is_I(t), P.I(gi), lambda t: [(gi, P.i(t))]),
            (lambda t: P.is_F(t), P.F(gx), lambda t: [(gx, P.x(t))]),
            (lambda t: P.is_S(t), P.S(gs), lambda t: [(gs, P.s(t))])]


Tagged.generic = _tagged_generic


def _opt_generic(self, prefix):
    s = self.sort
    out = [(lambda t: s.is_none(t), s.none, lambda t: [])]
    for guard, gen, subst in self.inner.generic(prefix):
        out.append((lambda t, guard=guard: z3.And(s.is_some(t), guard(s.v(t))), s.some(gen), lambda t, subst=subst: subst(s.v(t))))
    return out


Opt.generic = _opt_generic


def _rec_generic(self, prefix):
    cases = [(lambda t: z3.BoolVal(True), [], lambda t: [])]
    for a, c in self.fields:
        nxt = []
        for guard0, gens0, subst0 in cases:
            for guard, gen, subst in c.generic(prefix + a.lstrip('_')[:3]):
                nxt.append((lambda t, g0=guard0, g1=guard, a=a: z3.And(g0(t), g1(self.acc[a](t))), gens0 + [gen],
                            lambda t, s0=subst0, s1=subst, a=a: s0(t) + s1(self.acc[a](t))))
        cases = nxt
    return [(g, self.sort.mk(*gens), s) for g, gens, s in cases]


Rec.generic = _rec_generic


class MsgCodec:
    """proto message elements of a repeated field."""

    def __init__(self, schema):
        self.schema = schema
        self.sort = pm.msg_sort(schema)

    def term(self, v):
        return v.pack()

    def wrap(self, t):
        return Msg.from_term(self.schema, t)

    def eq(self, a, b, excluded=()):
        return a == b

    def generic(self, prefix):
        """one case per combination of the presence flags of the message-typed (non-repeated, non-oneof) fields: a loop
        body may branch on HasField(...) of its element"""
        layout = pm.msg_layout(self.schema)
        if layout is None:
            return _scalar_generic(self, prefix)
        flags = [k for k, (zn, sort, role, f) in enumerate(layout) if role == 'has' and f.kind == 'message']
        if not flags or len(flags) > 3:
            return _scalar_generic(self, prefix)
        import itertools
        consts = [(_gconst('%s%s' % (prefix, zn[:6]), sort) if k not in flags else None) for k, (zn, sort, role, f) in enumerate(layout)]
        mk = pm._MK[self.schema.fq]
        accs = [pm.accessor(self.schema, zn) for zn, _, _, _ in layout]
        out = []
        for combo in itertools.product([False, True], repeat=len(flags)):
            val = dict(zip(flags, combo))
            args = [(z3.BoolVal(val[k]) if k in val else consts[k]) for k in range(len(layout))]
            guard = (lambda t, val=val: z3.And(*[accs[k](t) == z3.BoolVal(v) for k, v in val.items()]))
            subst = (lambda t: [(consts[k], accs[k](t)) for k in range(len(layout)) if consts[k] is not None])
            out.append((guard, mk(*args), subst))
        return out


def elem_codec(lst):
    if isinstance(lst, CodecList):
        return lst.codec
    if isinstance(lst.elem, MsgSchema):
        return MsgCodec(lst.elem)
    return Scalar(lst.elem)


def substitute_ite(cases, term_of_case, actual):
    """If(guard_1(actual), T_1[g := actual], If(guard_2, ...)) -- the last case is the default."""
    out = None
    for (guard, gen, subst), t in reversed(list(zip(cases, term_of_case))):
        tt = z3.substitute(t, *subst(actual)) if subst(actual) else t
        out = tt if out is None else z3.If(guard(actual), tt, out)
    return out


# =========================================================================================== map loops: contract by summarisation
import ast as _ast


def loops_of(fn_node):
    loops = [n for n in _ast.walk(fn_node) if isinstance(n, (_ast.For, _ast.While))]
    loops.sort(key=lambda n: (n.lineno, n.col_offset))
    return loops


class SourceView:
    """uniform access to the element terms of the iterated collection."""

    def __init__(self, src):
        self.src = src
        if isinstance(src, PairList):
            od = src.od
            self.parts = {'items': [(od.kc, lambda j: od.karr[j]), (od.vc, lambda j: od.val[od.karr[j]])],
                          'keys': [(od.kc, lambda j: od.karr[j])],
                          'values': [(od.vc, lambda j: od.val[od.karr[j]])]}[src.what]
            self.tuple = src.what == 'items'
        elif isinstance(src, SymList) and src.arr is not None:
            c = elem_codec(src)
            self.parts = [(c, lambda j: src.arr[j])]
            self.tuple = False
        else:
            raise Unsupported('map-loop contract over %r' % (src,))

    def cases(self, prefix):
        """cartesian product of the parts' generic cases: [(guard(j), python target value, subst(j))]"""
        out = [(lambda j: z3.BoolVal(True), [], lambda j: [])]
        for pi, (codec, at) in enumerate(self.parts):
            nxt = []
            for g0, gens0, s0 in out:
                for guard, gen, subst in codec.generic('%s%d' % (prefix, pi)):
                    nxt.append((lambda j, g0=g0, guard=guard, at=at: z3.And(g0(j), guard(at(j))), gens0 + [(codec, gen)],
                                lambda j, s0=s0, subst=subst, at=at: s0(j) + subst(at(j))))
            out = nxt
        return out

    def target_value(self, gens):
        vals = [codec.wrap(gen) for codec, gen in gens]
        return tuple(vals) if self.tuple else vals[0]


class AutoMap:
    """Loop contract of `for t in src: <out>.append(f(t))` (also `.add(...)`): the body is executed once per *generic*
    element case on a scratch output; the appended term T(g) is the summary, and the invariant is

        len(out) == len(out@entry) + i,  out[len(out@entry) + j] == T(src[j]) for j < i,  prefix and frame unchanged.

    The summary is derived from the real body on every run and every clause is a checked obligation (init/preserve), so
    nothing about the body is assumed."""

    def __init__(self, mod, qual, node, ordinal, out, msg=None, field=None, local_codec=None, elem_requires=None):
        self.mod, self.qual, self.node, self.ordinal = mod, qual, node, ordinal
        self.out, self.msg, self.field, self.local_codec = out, msg, field, local_codec
        self.elem_requires = elem_requires      # fn(element term) -> z3 Bool: what the body may rely on for every element

    def spec(self, always_normal=False):
        return contract(self.invariant, self.requires if self.elem_requires else None,
                        self.lemmas if self.elem_requires else None, always_normal=always_normal)

    def install(self):
        E.LOOPS[(self.mod, self.qual, self.ordinal)] = self.spec()

    def lemmas(self, it, fr, ctx):
        src = ctx.iter
        return [('element', z3.Implies(ctx.i < src.n, self.elem_requires(src.arr[ctx.i])))]

    def requires(self, it, fr, ctx):
        src = ctx.iter
        j = z3.Int('j!rq')
        return [('elements', z3.ForAll([j], z3.Implies(z3.And(j >= 0, j < src.n), self.elem_requires(src.arr[j]))))]

    def _out(self, env):
        if self.msg is not None:
            return env[self.msg].get(self.field)
        return env[self.out]

    def summarise(self, it, fr, ctx):
        view = SourceView(ctx.iter)
        cases = view.cases('e')
        terms = []
        for guard, gens, subst in cases:
            env2 = dict(fr.env)
            if self.msg is not None:
                env2[self.msg] = Msg.default(fr.env[self.msg].schema)
            else:
                env2[self.out] = []         # scratch output: a plain list that receives the one appended value
            fr2 = E.Frame(fr.mod, env2, func=fr.func, parent=fr.parent)
            if self.elem_requires is not None:
                # the generic element is an arbitrary element satisfying the loop's `requires` (the constants are fresh)
                it.run.assume(self.elem_requires(gens[0][1]))
            it.assign(fr2, self.node.target, view.target_value(gens))
            try:
                it.block(fr2, self.node.body)
            except (E.PyContinue,):
                pass
            except (E.PyBreak, E.PyReturn, PyRaise) as e:
                raise Unsupported('%s loop %d is not a plain map loop (%s in the body)' % (self.qual, self.ordinal, type(e).__name__))
            o = self._out(env2)
            if isinstance(o, list):
                if len(o) != 1:
                    raise Unsupported('%s loop %d does not append exactly one element per iteration' % (self.qual, self.ordinal))
                if self.local_codec is None:
                    self.local_codec = result_codec(o[0])       # the record sort of the produced values, from the first one
                terms.append(z3.simplify(self.local_codec.term(o[0])))
                continue
            n = z3.simplify(o.n) if z3.is_expr(o.n) else z3.IntVal(o.n)
            if not (z3.is_int_value(n) and n.as_long() == 1):
                raise Unsupported('%s loop %d does not append exactly one element per iteration' % (self.qual, self.ordinal))
            terms.append(z3.simplify(z3.Select(o.arr, 0)))
        return view, cases, terms

    def invariant(self, it, fr, ctx):
        if ctx.phase == 'init':
            ctx.summary = self.summarise(it, fr, ctx)
            if self.msg is None and isinstance(fr.env[self.out], list):
                if fr.env[self.out]:
                    raise Unsupported('output list of %s loop %d is not empty at loop entry' % (self.qual, self.ordinal))
                fr.env[self.out] = CodecList.empty(self.local_codec)
                ctx.entry_vals[self.out] = CodecList.empty(self.local_codec)
        view, cases, terms = ctx.summary
        if ctx.phase == 'head' and self.msg is not None:
            reshape_havoced(fr.env[self.msg], ctx.entry_vals[self.msg], {self.field})
        out, out0 = self._out(fr.env), self._out(ctx.entry_vals)
        i = ctx.i
        j = z3.Int('j!am')

        def F(jj):
            res = None
            for (guard, gens, subst), t in reversed(list(zip(cases, terms))):
                sub = subst(jj)
                tt = z3.substitute(t, *sub) if sub else t
                res = tt if res is None else z3.If(guard(jj), tt, res)
            return res
        ctx.F = F
        cl = []
        if self.msg is not None:
            cl += msg_frame(fr.env[self.msg], ctx.entry_vals[self.msg], {self.field})
        cl += [
            ('len', out.n == out0.n + i),
            ('prefix', z3.ForAll([j], z3.Implies(z3.And(j >= 0, j < out0.n), out.arr[j] == out0.arr[j]))),
            ('elems', z3.ForAll([j], z3.Implies(z3.And(j >= 0, j < i), out.arr[z3.simplify(out0.n + j)] == F(j)))),
        ]
        return cl


def frame_only(msg, changed, always_normal=False):
    """loop contract stating only that every field of message variable `msg` outside `changed` keeps its entry value"""
    def inv(it, fr, ctx):
        if msg is None:
            return []
        if ctx.phase == 'head':
            reshape_havoced(fr.env[msg], ctx.entry_vals[msg], set(changed))
        return msg_frame(fr.env[msg], ctx.entry_vals[msg], set(changed))
    return contract(inv, always_normal=always_normal or msg is None)


# =========================================================================================== small terms for havoced messages
def _smart_acc(self, zname):
    """accessor applied to a constructor application: the argument itself (semantically identical, keeps terms small
    and lets python-side code see concrete field values)"""
    pm.msg_sort(self.schema)
    t = self.base
    layout = pm.msg_layout(self.schema)
    if layout is not None and z3.is_app(t) and t.num_args() == len(layout) and t.decl().eq(pm._MK[self.schema.fq]):
        for k, (zn, _, _, _) in enumerate(layout):
            if zn == zname:
                a = t.arg(k)
                if z3.is_int_value(a):
                    return a.as_long()
                if z3.is_true(a):
                    return True
                if z3.is_false(a):
                    return False
                return a
    return pm._ACC[self.schema.fq][zname](t)


pm.Msg._acc = _smart_acc


def reshape_havoced(cur, entry, changed):
    """after the loop rule has havoced the whole message `cur` (fresh base): give every top-level field outside `changed`
    its loop-entry value again, python-side.  This *is* the frame clause of the invariant (which stays a checked
    obligation at init/preserve); stating it structurally keeps field reads concrete."""
    schema = cur.schema
    reg = pm.registry()
    for fname in schema.order:
        f = schema.fields[fname]
        owner_names = {fname} | ({f.oneof} if f.oneof else set())
        if owner_names & set(changed):
            continue
        if f.repeated:
            src = entry.get(fname)
            cur.f[fname] = SymList(src.n, src.arr, src.elem, owner=(cur, fname))
        elif f.kind == 'message':
            sub = reg.msgs[f.type_fq]
            child = Msg(sub, base=entry.get(fname).pack())
            child.parent = (cur, fname)
            cur.f[fname] = child
            if not f.oneof:
                cur.has[fname] = entry.get_has(fname)
        else:
            cur.f[fname] = entry.get(fname)
            if f.optional and not f.oneof:
                cur.has[fname] = entry.get_has(fname)
    for oname in schema.oneofs:
        if not (({oname} | set(schema.oneofs[oname])) & set(changed)):
            cur.case[oname] = entry.get_case(oname)


# =========================================================================================== loop modes, loop units, poison
# MODE['loops']:
#   'normal'   the engine's invariant rule as is: init obligation, arbitrary iteration (preserve obligation), exit path
#   'summary'  main runs of a pair with many variants: init obligation + `requires` obligations, then only the exit path
#              (invariant and i == n assumed); the preservation proof is done once, in the loop's *unit*
#   'unit'     the loop alone, from an arbitrary pre-state (`requires` assumed): preservation for every context
MODE = {'loops': 'normal'}


class Poison:
    """a value the loop units must not look at (the fields of the converted object that no loop may depend on): any use
    -- comparison, truth value, attribute access, conversion -- is reported as unsupported, never silently evaluated"""

    def __init__(self, what):
        self.what = what

    def __repr__(self):
        return '<poison %s>' % self.what


_prev_compare = M.compare


def _compare(it, op, l, r):
    if isinstance(l, Poison) or isinstance(r, Poison):
        raise Unsupported('a loop unit looked at %r (the loop depends on a field its unit treats as arbitrary)' % ((l if isinstance(l, Poison) else r),))
    return _prev_compare(it, op, l, r)


M.compare = _compare

_prev_truth4 = M.truth_hook


def _truth4(it, v):
    if isinstance(v, Poison):
        raise Unsupported('a loop unit took the truth value of %r' % (v,))
    return _prev_truth4(it, v)


M.truth_hook = _truth4


def _poison_getattr(it, v, a):
    if isinstance(v, Poison):
        raise Unsupported('a loop unit read attribute %s of %r' % (a, v))
    return M.MISSING


_chain('value_getattr_hook', _poison_getattr)


def contract(invariant, requires=None, lemmas=None, always_normal=False):
    """LoopSpec from  invariant(it, fr, ctx) -> clauses,  requires(it, fr, ctx) -> clauses evaluated at loop entry
    (main runs: obligations; unit: assumptions)  and  lemmas(it, fr, ctx, clauses) -> instance facts at the head."""
    def inv(it, fr, ctx):
        run = it.run
        mode = MODE['loops']
        if always_normal and mode == 'summary':
            mode = 'normal'         # a loop without a unit of its own: the plain invariant rule, in place
        cl = invariant(it, fr, ctx)
        if ctx.phase == 'init' and requires is not None:
            for nm, f in requires(it, fr, ctx):
                if mode == 'unit':
                    (run.axiom if E._has_quantifier(f) else run.assume)(f)
                else:
                    run.oblige('requires.%s' % nm, f)
                    (run.axiom if E._has_quantifier(f) else run.assume)(f)      # cut: proved here, used below
        if ctx.phase == 'head':
            if mode == 'summary':
                if ctx.iter is None:
                    raise Unsupported('summary mode for a while loop')
                run.assume(ctx.i == ctx.iter.n)
            elif lemmas is not None:
                invf = z3.And(*[c for _, c in cl]) if cl else z3.BoolVal(True)
                for nm, fact in lemmas(it, fr, ctx):
                    run.oblige('lemma.%s' % nm, z3.Implies(invf, fact))
                    run.assume(fact)
        return cl
    return E.LoopSpec(inv)


# =========================================================================================== IntEnum members compare by value
def _is_int_enum(cls):
    if not isinstance(cls, ClassInfo):
        return False
    for c in E.mro(cls):
        if isinstance(c, ClassInfo):
            for b in c.base_nodes:
                if A._dotted(c.mod, b) in ('enum.IntEnum', 'enum.IntFlag'):
                    return True
    return False


def _int_enum_contains(it, container, x):
    """`x in [members of an IntEnum]` for an int x: IntEnum members are ints (== compares the values)"""
    if isinstance(container, (list, tuple)) and container and all(isinstance(m, Obj) and getattr(m, 'enum_member', False) and _is_int_enum(m.cls) for m in container):
        if isinstance(x, int) or (z3.is_expr(x) and x.sort() == z3.IntSort()):
            return E.zor(*[E.zbool(E.eq_values(m.attrs['value'], x)) for m in container])
    return M.MISSING


_prev_compare2 = M.compare


def _compare2(it, op, l, r):
    if isinstance(op, (_ast.In, _ast.NotIn)):
        c = _int_enum_contains(it, r, l)
        if c is not M.MISSING:
            return c if isinstance(op, _ast.In) else E.znot(c)
    return _prev_compare2(it, op, l, r)


M.compare = _compare2


# =========================================================================================== class-body scope
_prev_class_attr_value = M.class_attr_value


def _class_attr_value(it, cls, name, node):
    """a class attribute whose initialiser refers to earlier attributes of the same class body (e.g.
    `_proto_to_pyvizier = {v: k for k, v in _pyvizier_to_proto.items()}`): evaluated in the class-body scope"""
    try:
        return _prev_class_attr_value(it, cls, name, node)
    except Unsupported as u:
        if 'unknown name' not in str(u):
            raise
        env = {}
        for n2, node2 in cls.assigns.items():
            if n2 == name:
                break
            try:
                env[n2] = _class_attr_value(it, cls, n2, node2)
            except Unsupported:
                pass
        return it.eval(E.Frame(cls.mod, env), node)


M.class_attr_value = _class_attr_value


# =========================================================================================== [e(x) for x in xs] without filter
_prev_sfm = M.symbolic_filter_map


OBJ_CODECS = {}      # class name -> codec of the records a map may produce (registered by the contracts)


def result_codec(v):
    """codec of the values a map produces, from one of them"""
    if isinstance(v, Msg):
        return MsgCodec(v.schema)
    if isinstance(v, Obj):
        if abstract_term(v) is not None and abstract_codec(v) is not None:
            return abstract_codec(v)
        nm = v.cls.name if isinstance(v.cls, ClassInfo) else str(v.cls)
        if nm in OBJ_CODECS:
            return OBJ_CODECS[nm]
        raise Unsupported('a map over a list of symbolic length produces %s objects, for which no record codec is registered' % nm)
    if isinstance(v, bool) or (z3.is_expr(v) and v.sort() == z3.BoolSort()):
        return Scalar('bool')
    if isinstance(v, int) or (z3.is_expr(v) and v.sort() == z3.IntSort()):
        return Scalar('int')
    if isinstance(v, float) or (z3.is_expr(v) and v.sort() == xreal.XReal):
        return Scalar('float')
    if isinstance(v, str) or (z3.is_expr(v) and v.sort() == Str):
        return Scalar('str')
    raise Unsupported('a map over a list of symbolic length produces %r' % (v,))


def map_symlist(it, xs, fn, what='map'):
    """`[fn(x) for x in xs]` / `list(map(fn, xs))` for a list of symbolic length -- the same map as a for-loop that appends
    fn(x): fn is executed once per *generic* element case (see SourceView.cases); the result list has the length of xs
    and r[j] = T(xs[j]) with T the summary.  This is the definition of the comprehension, not an assumption about fn:
    T is derived from the real code on every run, and a body that branches on more than the case split is refused."""
    run = it.run
    view = SourceView(xs)
    cases = view.cases('m')
    terms, codec = [], None
    for guard, gens, subst in cases:
        npc = len(run.pc)
        try:
            v = fn(view.target_value(gens))
        except PyRaise as e:
            raise Unsupported('%s over a list of symbolic length: the element function raises %s for some element' % (what, E.class_name(e.exc.cls)))
        if len(run.pc) != npc:
            raise Unsupported('%s over a list of symbolic length: the element function branches on the element beyond the generic case split' % what)
        if codec is None:
            codec = result_codec(v)
        terms.append(z3.simplify(codec.term(v)))
    arr = run.fresh('mapped', z3.ArraySort(z3.IntSort(), codec.sort))
    if isinstance(codec, MsgCodec):
        r = SymList(xs.n, arr, codec.schema)
    elif isinstance(codec, Scalar):
        r = SymList(xs.n, arr, codec.kind)
    else:
        r = CodecList(xs.n, arr, codec)
    j = z3.Int('j!mp')

    def F(jj):
        res = None
        for (guard, gens, subst), t in reversed(list(zip(cases, terms))):
            sub = subst(jj)
            tt = z3.substitute(t, *sub) if sub else t
            res = tt if res is None else z3.If(guard(jj), tt, res)
        return res
    run.axiom(z3.ForAll([j], z3.Implies(z3.And(j >= 0, j < xs.n), arr[j] == F(j))))
    r.src, r.parent = z3.Lambda([j], j), xs
    r.cond_at, r.elt_at = (lambda i: z3.BoolVal(True)), F
    return r


def _map_comprehension(it, fr, e, xs):
    """a list comprehension over an array-list *without* an `if`: the result has the same length and r[j] = e(xs[j])
    (the filter encoding's increasing index map is the identity here; stating it directly avoids an inductive argument)"""
    gen = e.generators[0]
    if gen.ifs:
        return _prev_sfm(it, fr, e, xs)
    run = it.run
    if not isinstance(xs, (PairList, CodecList)):
        # scalar / message lists: the element expression as a term of the index (pure mode); anything it cannot express
        # (calls that build objects, branches) goes to the generic-case summary below
        try:
            J = run.fresh('cj', z3.IntSort())
            fr2 = E.Frame(fr.mod, {}, parent=fr)
            it.pure += 1
            try:
                it.assign(fr2, gen.target, xs.get(J))
                eltv = it.eval(fr2, e.elt)
            finally:
                it.pure -= 1
            eterm = elem = None
            if isinstance(eltv, Msg):
                elem, eterm = eltv.schema, eltv.pack()
            elif z3.is_expr(eltv) or isinstance(eltv, (bool, int, float, str)):
                eterm = E.to_z3(eltv)
                elem = {z3.IntSort(): 'int', z3.BoolSort(): 'bool', Str: 'str', xreal.XReal: 'float', pm.PyObj: 'pyobj'}.get(eterm.sort())
            if elem is not None:
                arr = run.fresh('marr', z3.ArraySort(z3.IntSort(), eterm.sort()))
                r = SymList(xs.n, arr, elem)
                j = z3.Int('j!mc')
                r.src, r.parent = z3.Lambda([j], j), xs
                r.cond_at, r.elt_at = (lambda i: z3.BoolVal(True)), (lambda i: z3.substitute(eterm, (J, i)))
                run.filters = getattr(run, 'filters', []) + [M.snapshot(r)]
                run.axiom(z3.ForAll([j], z3.Implies(z3.And(j >= 0, j < xs.n), arr[j] == r.elt_at(j))))
                return r
        except Unsupported:
            pass

    def fn(value):
        fr2 = E.Frame(fr.mod, {}, parent=fr)
        it.assign(fr2, gen.target, value)
        return it.eval(fr2, e.elt)
    return map_symlist(it, xs, fn, 'list comprehension')


M.symbolic_filter_map = _map_comprehension


# =========================================================================================== recursive message types by reference
# vizier.StudySpec.ParameterSpec contains (through ConditionalParameterSpec.parameter_spec) values of its own type.  A
# z3 record cannot: the nested field is stored as a term of an uninterpreted *reference* sort; abs_spec / conc_spec
# convert between a ParameterSpec record and its reference (conc_spec(abs_spec(t)) == t: a reference denotes exactly
# the record it was made from).  Python-side the field is read as an ordinary ParameterSpec message (RefMsg) whose
# mutations write through to the enclosing ConditionalParameterSpec, as protobuf's references do.
REF_FQ = 'vizier.StudySpec.ParameterSpec#ref'
PSPEC_FQ = 'vizier.StudySpec.ParameterSpec'
CPS_FQ = 'vizier.StudySpec.ParameterSpec.ConditionalParameterSpec'
_REF = {}


def enable_parameter_spec_refs():
    """call once, before any message sort is created"""
    reg = pm.registry()
    if REF_FQ in reg.msgs:
        return
    ref = pm.MsgSchema(REF_FQ)
    reg.msgs[REF_FQ] = ref
    pm.OPAQUE_MESSAGES.add(REF_FQ)
    pm.OPAQUE_MESSAGES.discard(PSPEC_FQ)
    pm.OPAQUE_MESSAGES.discard(CPS_FQ)
    reg.msgs[CPS_FQ].fields['parameter_spec'].type_fq = REF_FQ


def ref_ufs():
    reg = pm.registry()
    key = id(reg)
    if key not in _REF:
        rs, ps = pm.msg_sort(reg.msgs[REF_FQ]), pm.msg_sort(reg.msgs[PSPEC_FQ])
        _REF[key] = (z3.Function('abs_spec', ps, rs), z3.Function('conc_spec', rs, ps))
    return _REF[key]


def ref_axioms(run):
    a, c = ref_ufs()
    t = z3.Const('t!ref', a.domain(0))
    run.axiom(z3.ForAll([t], c(a(t)) == t, patterns=[a(t)]))


class RefMsg(Msg):
    """the ParameterSpec behind a reference-typed field"""

    def pack_inner(self):
        return Msg.pack(self)

    def pack(self):
        a, c = ref_ufs()
        if not self.f and not self.has and not self.case and self.base is not None and z3.is_app(self.base) \
                and self.base.decl().eq(c):
            return self.base.arg(0)
        return a(Msg.pack(self))


_orig_msg_get = Msg.get


def _msg_get(self, name):
    f = self.schema.fields.get(name)
    if f is not None and not f.repeated and f.kind == 'message' and f.type_fq == REF_FQ:
        if name in self.f:
            return self.f[name]
        reg = pm.registry()
        a, c = ref_ufs()
        child = RefMsg(reg.msgs[PSPEC_FQ], base=(c(self._acc(name)) if self.base is not None else None))
        child.parent = (self, name)
        self.f[name] = child
        return child
    return _orig_msg_get(self, name)


Msg.get = _msg_get

_orig_copy_from = Msg.copy_from


def _copy_from(self, other):
    if isinstance(other, RefMsg) or isinstance(self, RefMsg):
        t = other.pack_inner() if isinstance(other, RefMsg) else other.pack()
        self.base = t
        self.f, self.has, self.case = {}, {}, {}
        self.touch()
        return
    return _orig_copy_from(self, other)


Msg.copy_from = _copy_from


def invoke_real(it, fv, args, kw):
    """execute the real body of a repo function even though a contract is registered for it in engine.MODELS (the
    contract dispatches: abstract arguments -> contract, ordinary arguments -> real code)"""
    env = it.bind(fv, args, kw)
    fr = E.Frame(fv.mod, env, func=fv, parent=fv.closure)
    it.run.inlined.add('%s:%s' % (fv.mod.dotted, fv.qualname))
    it.depth += 1
    it.stack.append(fv)
    try:
        it.block(fr, fv.node.body)
    except E.PyReturn as r:
        return r.v
    finally:
        it.stack.pop()
        it.depth -= 1
    return None


# =========================================================================================== list(xs) of a codec list
_prev_list = M.BUILTINS['list'].fn


def _b_list(it, args, kw):
    if args and isinstance(args[0], CodecList):
        return CodecList(args[0].n, args[0].arr, args[0].codec)
    return _prev_list(it, args, kw)


M.BUILTINS['list'] = Builtin('list', _b_list)


# =========================================================================================== reversed(xs) of an array-list
_prev_reversed = M.BUILTINS['reversed'].fn


def _b_reversed(it, args, kw):
    v = args[0]
    if isinstance(v, SymList) and v.arr is not None and M.try_iterate(it, v) is None:
        j = z3.Int('j!rv')
        arr = z3.Lambda([j], v.arr[v.n - 1 - j])
        if isinstance(v, CodecList):
            return CodecList(v.n, arr, v.codec)
        return SymList(v.n, arr, v.elem)
    return _prev_reversed(it, args, kw)


M.BUILTINS['reversed'] = Builtin('reversed', _b_reversed)


# =========================================================================================== getattr(obj, None)
_prev_getattr_b = M.BUILTINS['getattr'].fn


def _b_getattr(it, args, kw):
    if len(args) >= 2 and args[1] is None:
        raise PyRaise(it.make_exc('TypeError', ['attribute name must be string, not NoneType']))
    return _prev_getattr_b(it, args, kw)


M.BUILTINS['getattr'] = Builtin('getattr', _b_getattr)


# =========================================================================================== map(f, xs) over an array-list
_prev_map = M.BUILTINS['map'].fn


def _b_map(it, args, kw):
    if len(args) == 2 and isinstance(args[1], SymList) and M.try_iterate(it, args[1]) is None:
        return map_symlist(it, args[1], lambda v: it.call(args[0], [v], {}), 'map()')
    return _prev_map(it, args, kw)


M.BUILTINS['map'] = Builtin('map', _b_map)


# =========================================================================================== map loops recognised by role
# A for-loop over a list of symbolic length for which no contract was registered is given one when it is a *map loop by
# role*: its body appends / adds to exactly one list (a local list or a repeated field of a message variable) and mutates
# nothing else that is visible.  The AutoMap contract is derived from the body and checked like every other (init /
# preserve obligations), so recognising too much can only make a proof fail, never succeed wrongly.
_APPENDERS = ('append', 'add')


def _map_outputs(node):
    outs, other = set(), False
    for n in _ast.walk(_ast.Module(body=node.body, type_ignores=[])):
        if isinstance(n, _ast.Call) and isinstance(n.func, _ast.Attribute) and n.func.attr in E.MUTATORS:
            tgt = n.func.value
            if n.func.attr in _APPENDERS and isinstance(tgt, _ast.Name):
                outs.add(('local', tgt.id))
            elif n.func.attr in _APPENDERS and isinstance(tgt, _ast.Attribute) and isinstance(tgt.value, _ast.Name):
                outs.add(('msg', tgt.value.id, tgt.attr))
            elif n.func.attr == 'CopyFrom':
                continue            # building the element before it is appended
            else:
                other = True
    return outs, other


def infer_loop_contract(it, fr, s, key):
    if not isinstance(s, _ast.For):
        return None
    outs, other = _map_outputs(s)
    if other or len(outs) != 1:
        return None
    out = next(iter(outs))
    if out[0] == 'local':
        if not isinstance(fr.env.get(out[1]), (list, SymList)):
            return None
        am = AutoMap(key[0], key[1], s, key[2], out[1])
    else:
        if not isinstance(fr.env.get(out[1]), Msg) or out[2] not in fr.env[out[1]].schema.fields:
            return None
        am = AutoMap(key[0], key[1], s, key[2], None, msg=out[1], field=out[2])
    return am.spec(always_normal=True)


_orig_symbolic_loop = E.Interp.symbolic_loop


def _symbolic_loop(self, fr, s, iterable):
    key = self.loop_key(fr, s)
    if key not in E.LOOPS:
        spec = infer_loop_contract(self, fr, s, key)
        if spec is not None:
            E.LOOPS[key] = spec
            self.run.assumed.add('loop %s #%d of %s recognised as a map loop by role (contract derived from its body and checked)'
                                 % (key[1], key[2], key[0].rsplit('.', 1)[-1]))
    return _orig_symbolic_loop(self, fr, s, iterable)


E.Interp.symbolic_loop = _symbolic_loop
