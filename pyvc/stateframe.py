"""dump/load state frames of (partially) serializable classes, decided on the real AST (DESIGN section 6).

For a class C the engine computes, from the current source text only:

  W(m)   attribute paths of `self` assigned / mutated on some path of method m (transitively through
         `self.m2()` calls and through calls on owned objects whose repo class is statically known),
  MUT    union of W(m) over every method other than __init__/__attrs_post_init__/load/recover/from_problem,
  must-W(load)   paths (re)assigned on *every* normal path of `load` applied to a `dump` output
         (guards that test the presence of a metadata key which `dump` always writes are evaluated),
  R(dump)        paths whose value flows into the returned metadata (backward slice from `return`),
  per owned sub-object of a known repo class: the fields re-established by the restoring function and
  the fields read by the serialising function (one interprocedural level: constructor keywords +
  attribute stores on the returned object; isinstance-guarded / annotated reads in the serialiser closure).

Precision first: a call on an object whose class is not statically known is an *assumption* (collected,
printed in the evidence), never an alarm.  Nothing here executes repository code.
"""
import ast

from . import source, sigbind


class Unsupported(Exception):
    pass


# calls on library / unknown objects that change the receiver (refinement (b) of DESIGN section 6)
MUTATORS = {
    'append', 'extend', 'add', 'update', 'pop', 'popitem', 'remove', 'discard', 'clear', 'insert', 'sort', 'reverse',
    'setdefault', 'put', 'put_nowait', 'get_nowait', 'task_done', 'random', 'fast_forward', 'reset', 'shuffle', 'tell', 'ask',
    'integers', 'uniform', 'normal', 'choice', 'permutation', 'permuted', 'random_sample', 'rand', 'randn', 'randint', 'laplace',
    'standard_normal', 'seed', 'suggest', 'step', 'advance', 'attach',
}
# calls that re-establish the receiver's state from their argument (count as writes in `load`)
RESTORERS = {'load', 'load_state', 'recover', 'set_state', 'setstate', '__setstate__', 'restore'}
PURE = {
    'get', 'items', 'keys', 'values', 'copy', 'ns', 'abs_ns', 'dump', 'save_state', 'get_state', 'to_parameters', 'to_features',
    'to_trials', 'to_labels', 'to_xy', 'convert', 'item', 'of_type', 'to_population', 'to_suggestions', 'map', 'unmap', 'full',
    'empty', 'qsize', 'index', 'count', 'format', 'join', 'split', 'startswith', 'endswith', 'issubset', 'union', 'intersection',
    'difference', 'is_continuous', 'info', 'debug', 'warning', 'error', 'log_if', 'log',
}
RNG_HINTS = ('default_rng', 'RandomState', 'random.Random', 'random.Generator', 'PRNGKey')
SKIP_FOR_MUT = {'__init__', '__attrs_post_init__', 'load', 'recover', 'from_problem', '__repr__', '__str__'}

_MODELS = {}


def model_of(mod, ci):
    k = (mod.path, ci.qualname)
    if k not in _MODELS:
        _MODELS[k] = ClassModel(mod, ci)
    return _MODELS[k]


def resolve_class(mod, expr_src):
    """source text of a class reference -> (ModuleInfo, ClassInfo) | None"""
    expr_src = expr_src.strip('\'"')
    r = source.resolve_alias(mod, expr_src)
    if r is None:
        return None
    m2, q = r
    try:
        return m2, m2.find_class(q)
    except (KeyError, IndexError):
        return None


def resolve_function(mod, expr_src):
    """-> ('func', ModuleInfo, FunctionDef) | ('class', ModuleInfo, ClassInfo) | ('method', ModuleInfo, ClassInfo, FunctionDef) | None"""
    r = source.resolve_alias(mod, expr_src)
    if r is None:
        return None
    m2, q = r
    parts = q.split('.')
    if len(parts) == 1 and q in m2.funcs:
        return ('func', m2, m2.funcs[q])
    try:
        return ('class', m2, m2.find_class(q))
    except (KeyError, IndexError):
        pass
    try:
        ci = m2.find_class('.'.join(parts[:-1]))
        fm = sigbind.find_method(m2, ci, parts[-1])
        if fm:
            return ('method', fm[0], fm[1], fm[2])
    except (KeyError, IndexError):
        pass
    return None


def ordered_stmts(body):
    """all statements (nested ones included) in source order; nested defs are not entered"""
    for s in body:
        yield s
        if isinstance(s, (ast.FunctionDef, ast.AsyncFunctionDef, ast.ClassDef)):
            continue
        for fld in ('body', 'orelse', 'finalbody'):
            sub = getattr(s, fld, None)
            if isinstance(sub, list) and sub and isinstance(sub[0], ast.stmt):
                yield from ordered_stmts(sub)
        for h in getattr(s, 'handlers', []) or []:
            yield from ordered_stmts(h.body)


def header_exprs(s):
    """expressions evaluated by the statement itself (not by nested statements)"""
    if isinstance(s, (ast.If, ast.While)):
        return [s.test]
    if isinstance(s, ast.For):
        return [s.iter, s.target]
    if isinstance(s, ast.With):
        return [i.context_expr for i in s.items] + [i.optional_vars for i in s.items if i.optional_vars is not None]
    if isinstance(s, ast.Try):
        return []
    if isinstance(s, (ast.FunctionDef, ast.AsyncFunctionDef, ast.ClassDef)):
        return []
    return [s]


class Effects:
    def __init__(self):
        self.W, self.R, self.assumptions = set(), set(), set()
        self.restoring = set()        # paths written by a restoring call

    def merge(self, o, prefix=None):
        if prefix is None:
            self.W |= o.W
            self.R |= o.R
            self.restoring |= o.restoring
        else:
            self.W |= {prefix + w[:1] for w in o.W}
            self.R |= {prefix + r[:1] for r in o.R}
        self.assumptions |= o.assumptions


class ClassModel:
    def __init__(self, mod, ci):
        self.mod, self.ci = mod, ci
        self.mro = sigbind.class_mro(mod, ci)
        self.methods = {}
        for m2, c2 in self.mro:
            for name, fn in c2.methods.items():
                self.methods.setdefault(name, (m2, c2, fn))
        self.properties = {}
        for name, (m2, c2, fn) in self.methods.items():
            if 'property' in [ast.unparse(d) for d in fn.decorator_list]:
                tgt = self._property_target(fn)
                if tgt:
                    self.properties[name] = tgt
        self._eff, self._owned = {}, {}
        self._assign_cache = None
        self.rng_attrs = self._find_rng_attrs()

    # ------------------------------------------------------------------ basic facts
    def _property_target(self, fn):
        sn = fn.args.args[0].arg if fn.args.args else 'self'
        tg = set()
        for n in ast.walk(fn):
            if isinstance(n, ast.Return):
                v = n.value
                if isinstance(v, ast.Attribute) and isinstance(v.value, ast.Name) and v.value.id == sn:
                    tg.add(v.attr)
                else:
                    return None
        return (tg.pop(),) if len(tg) == 1 else None

    def field_names(self):
        out = []
        for m2, c2 in reversed(self.mro):
            for f in c2.field_order:
                if f not in out:
                    out.append(f)
        return out

    def attr_assignments(self):
        """{top attr: [(mod, fn, rhs_expr|None, annotation|None)]} over every method along the MRO + attrs fields"""
        if self._assign_cache is not None:
            return self._assign_cache
        out = {}
        for name, (m2, c2, fn) in self.methods.items():
            sn = fn.args.args[0].arg if fn.args.args else None
            if sn is None:
                continue
            for n in ast.walk(fn):
                tgts, rhs, ann = [], None, None
                if isinstance(n, ast.Assign):
                    tgts, rhs = n.targets, n.value
                elif isinstance(n, ast.AnnAssign):
                    tgts, rhs, ann = [n.target], n.value, n.annotation
                for t in tgts:
                    if isinstance(t, ast.Attribute) and isinstance(t.value, ast.Name) and t.value.id == sn:
                        out.setdefault(t.attr, []).append((m2, fn, rhs, ann))
        for m2, c2 in self.mro:
            for f, ann in c2.annotations.items():
                out.setdefault(f, []).append((m2, None, None, ann))
        self._assign_cache = out
        return out

    def _find_rng_attrs(self):
        rng = set()
        for a, lst in self.attr_assignments().items():
            for m2, fn, rhs, ann in lst:
                txt = ''
                if ann is not None:
                    txt += ast.unparse(ann)
                if isinstance(rhs, ast.Call):
                    txt += ' ' + ast.unparse(rhs.func)
                    r = resolve_function(m2, ast.unparse(rhs.func))
                    if r and r[0] == 'func' and r[2].returns is not None:
                        txt += ' ' + ast.unparse(r[2].returns)
                if any(h in txt for h in RNG_HINTS):
                    rng.add(a)
        return rng

    def owned_class(self, top):
        """ClassModel of `self.top` when every assignment / annotation agrees on one repo class, else None."""
        if top in self._owned:
            return self._owned[top]
        self._owned[top] = None
        found, unknown = [], False
        for m2, fn, rhs, ann in self.attr_assignments().get(top, []):
            r = None
            if ann is not None:
                r = resolve_class(m2, ast.unparse(sigbind.strip_subscript(ann)))
                if r is None and rhs is None:
                    continue
            if r is None and isinstance(rhs, ast.Call):
                f = resolve_function(m2, ast.unparse(sigbind.strip_subscript(rhs.func)))
                if f and f[0] == 'class':
                    r = (f[1], f[2])
                elif f and f[0] in ('func', 'method') and f[-1].returns is not None:
                    r = resolve_class(f[1], ast.unparse(f[-1].returns))
            if r is None:
                if rhs is not None:
                    unknown = True
                continue
            found.append(r)
        keys = {(m.path, c.qualname) for m, c in found}
        if len(keys) == 1 and not unknown:
            m, c = found[0]
            if (m.path, c.qualname) != (self.mod.path, self.ci.qualname):
                self._owned[top] = model_of(m, c)
        return self._owned[top]

    def const_str(self, e, mod=None):
        mod = mod or self.mod
        if isinstance(e, ast.Constant) and isinstance(e.value, str):
            return e.value
        if isinstance(e, ast.Name):
            v = mod.assigns.get(e.id)
            if isinstance(v, ast.Constant) and isinstance(v.value, str):
                return v.value
        if isinstance(e, ast.Attribute) and isinstance(e.value, ast.Name) and e.value.id in ('self', 'cls'):
            for m2, c2 in self.mro:
                v = c2.assigns.get(e.attr)
                if isinstance(v, ast.Constant) and isinstance(v.value, str):
                    return v.value
        return None

    # ------------------------------------------------------------------ paths
    @staticmethod
    def selfname(fn):
        decos = [ast.unparse(d) for d in fn.decorator_list]
        if 'staticmethod' in decos or 'classmethod' in decos or not fn.args.args:
            return None
        return fn.args.args[0].arg

    def aliases(self, fn):
        sn = self.selfname(fn)
        al = {}
        if sn is None:
            return al
        for n in ast.walk(fn):
            if isinstance(n, ast.Assign) and len(n.targets) == 1 and isinstance(n.targets[0], ast.Name):
                p = self.path_of(n.value, sn, {}, calls=False)
                if p:
                    al[n.targets[0].id] = p
        return al

    def path_of(self, e, sn, aliases, calls=False):
        chain = []
        while True:
            if isinstance(e, ast.Attribute):
                chain.append(e.attr)
                e = e.value
            elif isinstance(e, ast.Subscript):
                e = e.value
            elif isinstance(e, ast.Starred):
                e = e.value
            elif isinstance(e, ast.Name):
                if e.id == sn:
                    base = ()
                elif e.id in aliases:
                    base = aliases[e.id]
                else:
                    return None
                break
            else:
                return None
        chain.reverse()
        p = tuple(base) + tuple(chain)
        if p and not base and p[0] in self.properties:
            p = self.properties[p[0]] + p[1:]
        return p

    def _norm(self, p):
        """(top,) for unknown-class owners, (top, sub) when the owner's class is a known repo class"""
        if len(p) >= 2 and (self.owned_class(p[0]) is not None):
            return p[:2]
        if len(p) >= 2 and p[0] in self.rng_attrs:
            return p[:1]
        return p[:1] if len(p) < 2 or self.owned_class(p[0]) is None else p[:2]

    # ------------------------------------------------------------------ effects
    def effects(self, mname, stack=()):
        if mname in self._eff:
            return self._eff[mname]
        if mname in stack or mname not in self.methods:
            return Effects()
        m2, c2, fn = self.methods[mname]
        e = self.effects_of(fn.body, fn, stack + (mname,))
        self._eff[mname] = e
        return e

    def effects_of(self, nodes, fn, stack=(), must_ctx=None):
        """Effects of a list of AST nodes (statements or expressions) inside method `fn`."""
        sn = self.selfname(fn)
        eff = Effects()
        if sn is None:
            return eff
        al = self.aliases(fn)
        for root in nodes:
            for n in ast.walk(root):
                if isinstance(n, (ast.Assign, ast.AugAssign, ast.AnnAssign, ast.Delete, ast.For)):
                    if isinstance(n, ast.Assign):
                        tg = n.targets
                    elif isinstance(n, ast.Delete):
                        tg = n.targets
                    elif isinstance(n, ast.AnnAssign) and n.value is None:
                        tg = []
                    else:
                        tg = [n.target]
                    flat = []
                    for t in tg:
                        flat += list(t.elts) if isinstance(t, (ast.Tuple, ast.List)) else [t]
                    for t in flat:
                        if isinstance(t, ast.Name):
                            continue
                        p = self.path_of(t, sn, al)
                        if p:
                            eff.W.add(self._norm(p))
                elif isinstance(n, ast.Attribute) and isinstance(n.ctx, ast.Load):
                    p = self.path_of(n, sn, {})
                    if p:
                        eff.R.add(p[:1])
                        if len(p) > 1:
                            eff.R.add(p[:2])
                elif isinstance(n, ast.Call):
                    self._call_effects(n, fn, sn, al, eff, stack, must_ctx)
        return eff

    def _call_effects(self, c, fn, sn, al, eff, stack, must_ctx):
        f = c.func
        # rng objects handed to a callee are advanced by it
        for a in list(c.args) + [k.value for k in c.keywords]:
            p = self.path_of(a, sn, al)
            if p and p[0] in self.rng_attrs and len(p) == 1:
                eff.W.add(p[:1])
        if not isinstance(f, ast.Attribute):
            return
        name = f.attr
        p = self.path_of(f.value, sn, al)
        if p is None:
            return
        if p == ():
            if name in self.methods and name not in self.properties:
                if must_ctx is not None:
                    eff.W |= must_ctx(name)
                    eff.R |= self.effects(name, stack).R
                else:
                    eff.merge(self.effects(name, stack))
            elif name not in self.properties:
                eff.assumptions.add('%s: call of the stored callable / inherited method self.%s(...) assumed not to mutate persistent state'
                                    % (self.ci.qualname, name))
            return
        top = p[0]
        if top in self.rng_attrs:
            eff.W.add(p[:1])
            return
        oc = self.owned_class(top) if len(p) == 1 else None
        if oc is not None and name in oc.methods:
            sub = oc.effects(name)
            eff.merge(sub, prefix=(top,))
            if name in RESTORERS:
                eff.W.add((top,))
                eff.restoring.add((top,))
            return
        if oc is not None and name in oc.properties:
            return
        if name in RESTORERS:
            eff.W.add(p[:1])
            eff.restoring.add(p[:1])
        elif name in MUTATORS:
            eff.W.add(self._norm(p))
        elif name in PURE:
            pass
        else:
            eff.assumptions.add('%s: self.%s.%s() - receiver class not statically known: assumed stateless or restored by its owner'
                                % (self.ci.qualname, '.'.join(p), name))

    def mut(self):
        """MUT and the methods contributing each path."""
        out = {}
        assumptions = set()
        for name in self.methods:
            if name in SKIP_FOR_MUT or name in self.properties:
                continue
            e = self.effects(name)
            assumptions |= e.assumptions
            for w in e.W:
                out.setdefault(w, set()).add(name)
        return out, assumptions

    # ------------------------------------------------------------------ metadata keys
    def md_path(self, e, prefixes):
        """namespace tuple addressed by a metadata expression `name(.ns(c))*`, or None"""
        chain = []
        while True:
            if isinstance(e, ast.Call) and isinstance(e.func, ast.Attribute) and e.func.attr in ('ns', 'abs_ns') and len(e.args) == 1:
                c = self.const_str(e.args[0])
                if c is None:
                    return None
                chain.append(c)
                e = e.func.value
            elif isinstance(e, ast.Name) and e.id in prefixes:
                return tuple(prefixes[e.id]) + tuple(reversed(chain))
            elif isinstance(e, ast.Call) and isinstance(e.func, ast.Attribute) and e.func.attr == 'Metadata' and not e.args:
                return tuple(reversed(chain))
            else:
                return None

    def _track_prefix(self, s, prefixes):
        if isinstance(s, ast.Assign) and len(s.targets) == 1 and isinstance(s.targets[0], ast.Name):
            v = s.value
            if isinstance(v, ast.Call) and isinstance(v.func, ast.Attribute) and v.func.attr == 'Metadata':
                prefixes[s.targets[0].id] = ()
                return
            p = self.md_path(v, prefixes)
            if p is not None:
                prefixes[s.targets[0].id] = p
            elif s.targets[0].id in prefixes:
                del prefixes[s.targets[0].id]

    def dump_keys(self, mname='dump'):
        """(written {(ns,key)}, attached {ns}, exact) for the dump method; exact=False when the result is delegated"""
        if mname not in self.methods:
            return set(), set(), False
        fn = self.methods[mname][2]
        keys, attached, exact = set(), set(), True
        prefixes = {}
        for s in ordered_stmts(fn.body):
            self._track_prefix(s, prefixes)
            for h in header_exprs(s):
                for n in ast.walk(h):
                    if isinstance(n, ast.Subscript) and isinstance(n.ctx, ast.Store):
                        p = self.md_path(n.value, prefixes)
                        k = self.const_str(n.slice)
                        if p is not None and k is not None:
                            keys.add((p, k))
                    elif isinstance(n, ast.Call) and isinstance(n.func, ast.Attribute) and n.func.attr == 'attach':
                        p = self.md_path(n.func.value, prefixes)
                        if p is not None:
                            attached.add(p)
                    elif isinstance(n, ast.Call) and isinstance(n.func, ast.Attribute) and n.func.attr == 'Metadata' and n.args:
                        if isinstance(n.args[0], ast.Dict):
                            for kk in n.args[0].keys:
                                k = self.const_str(kk)
                                if k is not None:
                                    keys.add(((), k))
                        else:
                            exact = False
            if isinstance(s, ast.Return) and s.value is not None:
                v = s.value
                if not (isinstance(v, ast.Name) and v.id in prefixes) and not (isinstance(v, ast.Call) and isinstance(v.func, ast.Attribute) and v.func.attr == 'Metadata'):
                    exact = False
        return keys, attached, exact

    def load_keys(self, mname='load'):
        """(required {(ns,key)}, optional {(ns,key)}, delegated {ns}) read by load from its metadata parameter"""
        if mname not in self.methods:
            return set(), set(), set()
        fn = self.methods[mname][2]
        params = [a.arg for a in fn.args.args[1:]]
        prefixes = {params[0]: ()} if params else {}
        req, opt, dele = set(), set(), set()
        for s in ordered_stmts(fn.body):
            for h in header_exprs(s):
                for n in ast.walk(h):
                    if isinstance(n, ast.Subscript) and isinstance(n.ctx, ast.Load):
                        p = self.md_path(n.value, prefixes)
                        k = self.const_str(n.slice)
                        if p is not None and k is not None:
                            req.add((p, k))
                    elif isinstance(n, ast.Call) and isinstance(n.func, ast.Attribute) and n.func.attr == 'get' and n.args:
                        p = self.md_path(n.func.value, prefixes)
                        k = self.const_str(n.args[0])
                        if p is not None and k is not None:
                            opt.add((p, k))
                    elif isinstance(n, ast.Call):
                        for a in n.args:
                            p = self.md_path(a, prefixes)
                            if p is not None and isinstance(a, ast.Call):
                                dele.add(p)
            self._track_prefix(s, prefixes)
        return req, opt, dele

    # ------------------------------------------------------------------ must-write analysis of load
    def must_writes(self, mname='load', dump_keys=None, stack=()):
        """paths (re)assigned on every normal path of the method applied to a dump output.

        -> (set | None when no normal path exists, info dict with 'restoring' paths and per-path sources)
        """
        if mname in stack or mname not in self.methods:
            return set(), {}
        m2, c2, fn = self.methods[mname]
        params = [a.arg for a in fn.args.args[1:]]
        ctx = {'prefixes': {params[0]: ()} if params else {}, 'dump_keys': dump_keys or set(), 'fn': fn,
               'stack': stack + (mname,), 'restoring': set(), 'sources': [], 'order': [0]}
        normal, exits = self._flow(fn.body, frozenset(), ctx)
        sets = [s for k, s in exits if k == 'return']
        if normal is not None:
            sets.append(normal)
        if not sets:
            return None, ctx
        out = set(sets[0])
        for s in sets[1:]:
            out &= s
        return out, ctx

    def _simple(self, nodes, cur, ctx):
        fn = ctx['fn']

        def must_ctx(name):
            r, _ = self.must_writes(name, ctx['dump_keys'], ctx['stack'])
            return set(r or ())
        eff = self.effects_of(nodes, fn, ctx['stack'], must_ctx=must_ctx)
        ctx['restoring'] |= eff.restoring
        ctx.setdefault('assumptions', set()).update(eff.assumptions)
        if eff.W:
            keys = set()
            for root in nodes:
                for n in ast.walk(root):
                    if isinstance(n, ast.Subscript) and isinstance(n.ctx, ast.Load):
                        p = self.md_path(n.value, ctx['prefixes'])
                        k = self.const_str(n.slice)
                        if p is not None and k is not None:
                            keys.add((p, k))
            ctx['order'][0] += 1
            ctx['sources'].append({'idx': ctx['order'][0], 'W': set(eff.W), 'keys': keys, 'R': set(eff.R),
                                   'src': ' '.join(ast.unparse(x) for x in nodes)[:200]})
        return frozenset(cur | eff.W)

    def eval_guard(self, t, ctx):
        if isinstance(t, ast.UnaryOp) and isinstance(t.op, ast.Not):
            v = self.eval_guard(t.operand, ctx)
            return None if v is None else (not v)
        if isinstance(t, ast.Compare) and len(t.ops) == 1:
            op, l, r = t.ops[0], t.left, t.comparators[0]
            if isinstance(op, (ast.Is, ast.IsNot)) and isinstance(r, ast.Constant) and r.value is None:
                if isinstance(l, ast.Call) and isinstance(l.func, ast.Attribute) and l.func.attr == 'get' and l.args:
                    p = self.md_path(l.func.value, ctx['prefixes'])
                    k = self.const_str(l.args[0])
                    if p is not None and k is not None and (p, k) in ctx['dump_keys']:
                        return isinstance(op, ast.IsNot)
            if isinstance(op, (ast.In, ast.NotIn)):
                p = self.md_path(r, ctx['prefixes'])
                k = self.const_str(l)
                if p is not None and k is not None and (p, k) in ctx['dump_keys']:
                    return isinstance(op, ast.In)
        return None

    def _flow(self, stmts, cur, ctx):
        """-> (normal set | None, [(kind, set)])"""
        exits = []
        for s in stmts:
            if isinstance(s, (ast.FunctionDef, ast.AsyncFunctionDef, ast.ClassDef, ast.Pass, ast.Import, ast.ImportFrom, ast.Global, ast.Nonlocal)):
                continue
            if isinstance(s, (ast.Assign, ast.AugAssign, ast.AnnAssign, ast.Expr, ast.Delete, ast.Assert)):
                cur = self._simple([s], cur, ctx)
                self._track_prefix(s, ctx['prefixes'])
            elif isinstance(s, ast.Return):
                if s.value is not None:
                    cur = self._simple([s.value], cur, ctx)
                exits.append(('return', cur))
                return None, exits
            elif isinstance(s, ast.Raise):
                exits.append(('raise', cur))
                return None, exits
            elif isinstance(s, (ast.Break, ast.Continue)):
                exits.append(('loop', cur))
                return None, exits
            elif isinstance(s, ast.If):
                cur = self._simple([s.test], cur, ctx)
                g = self.eval_guard(s.test, ctx)
                outs = []
                if g is not False:
                    n1, e1 = self._flow(s.body, cur, ctx)
                    exits += e1
                    outs.append(n1)
                if g is not True:
                    n2, e2 = self._flow(s.orelse, cur, ctx)
                    exits += e2
                    outs.append(n2)
                outs = [o for o in outs if o is not None]
                if not outs:
                    return None, exits
                nxt = set(outs[0])
                for o in outs[1:]:
                    nxt &= o
                cur = frozenset(nxt)
            elif isinstance(s, ast.Try):
                bn, be = self._flow(s.body, cur, ctx)
                if bn is not None and s.orelse:
                    bn, be2 = self._flow(s.orelse, bn, ctx)
                    be += be2
                outs = [bn] if bn is not None else []
                exits += [(k, st) for k, st in be if k != 'raise' or not s.handlers]
                for h in s.handlers:
                    hn, he = self._flow(h.body, cur, ctx)      # an exception may leave the body at any point
                    exits += he
                    if hn is not None:
                        outs.append(hn)
                if not outs:
                    return None, exits
                nxt = set(outs[0])
                for o in outs[1:]:
                    nxt &= o
                cur = frozenset(nxt)
                if s.finalbody:
                    fnrm, fe = self._flow(s.finalbody, cur, ctx)
                    exits += fe
                    if fnrm is None:
                        return None, exits
                    cur = fnrm
            elif isinstance(s, (ast.For, ast.While)):
                hdr = [s.iter] if isinstance(s, ast.For) else [s.test]
                cur = self._simple(hdr, cur, ctx)
                bn, be = self._flow(s.body, cur, ctx)           # zero iterations possible: body writes are not guaranteed
                exits += [(k, cur) for k, st in be if k in ('return', 'raise')]
            elif isinstance(s, ast.With):
                cur = self._simple([i.context_expr for i in s.items], cur, ctx)
                bn, be = self._flow(s.body, cur, ctx)
                exits += be
                if bn is None:
                    return None, exits
                cur = bn
            else:
                raise Unsupported('statement %s in %s' % (type(s).__name__, ctx['fn'].name))
        return cur, exits

    # ------------------------------------------------------------------ dump slice
    def dump_slice(self, mname='dump', stack=()):
        """backward slice from the return value of dump.

        -> dict(R=set of paths, exprs=[relevant expressions], whole=bool (attr.asdict(self) / self passed whole),
                assumptions=set)
        """
        res = {'R': set(), 'exprs': [], 'whole': False, 'assumptions': set(), 'found': mname in self.methods}
        if mname in stack or mname not in self.methods:
            return res
        m2, c2, fn = self.methods[mname]
        sn = self.selfname(fn)
        stmts = list(ordered_stmts(fn.body))
        relevant, exprs = set(), []
        for s in stmts:
            if isinstance(s, ast.Return) and s.value is not None:
                exprs.append(s.value)
        changed = True
        seen = set()
        while changed:
            changed = False
            for e in exprs:
                for n in ast.walk(e):
                    if isinstance(n, ast.Name) and n.id != sn and n.id not in relevant:
                        relevant.add(n.id)
                        changed = True
            for s in stmts:
                if id(s) in seen:
                    continue
                add = []
                if isinstance(s, (ast.Assign, ast.AnnAssign, ast.AugAssign)):
                    tg = s.targets if isinstance(s, ast.Assign) else [s.target]
                    # a local bound to a view of a relevant object (x = md.ns('a')) is relevant too: stores into it reach the result
                    if s.value is not None and len(tg) == 1 and isinstance(tg[0], ast.Name) and tg[0].id not in relevant:
                        root = s.value
                        while isinstance(root, (ast.Attribute, ast.Subscript, ast.Call)):
                            root = root.func if isinstance(root, ast.Call) else root.value
                        if isinstance(root, ast.Name) and root.id in relevant and root.id != sn and isinstance(s.value, (ast.Call, ast.Attribute, ast.Subscript)):
                            relevant.add(tg[0].id)
                            changed = True
                            continue
                    for t in tg:
                        flat = list(t.elts) if isinstance(t, (ast.Tuple, ast.List)) else [t]
                        for tt in flat:
                            root = tt
                            while isinstance(root, (ast.Attribute, ast.Subscript, ast.Call)):
                                root = root.func if isinstance(root, ast.Call) else root.value
                            if isinstance(root, ast.Name) and root.id in relevant and root.id != sn:
                                if s.value is not None:
                                    add.append(s.value)
                                if not isinstance(tt, ast.Name):
                                    add.append(tt)
                elif isinstance(s, ast.Expr) and isinstance(s.value, ast.Call):
                    root = s.value.func
                    while isinstance(root, (ast.Attribute, ast.Subscript, ast.Call)):
                        root = root.func if isinstance(root, ast.Call) else root.value
                    if isinstance(root, ast.Name) and root.id in relevant and root.id != sn:
                        add.append(s.value)
                elif isinstance(s, (ast.For,)):
                    tnames = {n.id for n in ast.walk(s.target) if isinstance(n, ast.Name)}
                    if tnames & relevant:
                        add.append(s.iter)
                if add:
                    seen.add(id(s))
                    exprs += add
                    changed = True
        res['exprs'] = exprs
        for e in exprs:
            for n in ast.walk(e):
                if isinstance(n, ast.Attribute) and isinstance(n.ctx, ast.Load):
                    p = self.path_of(n, sn, {})
                    if p:
                        res['R'].add(p[:1])
                        if len(p) > 1:
                            res['R'].add(p[:2])
                elif isinstance(n, ast.Call):
                    f = n.func
                    if isinstance(f, ast.Attribute):
                        p = self.path_of(f.value, sn, {})
                        if p == () and f.attr in self.methods and f.attr not in self.properties:
                            sub = self.dump_slice(f.attr, stack + (mname,))
                            res['R'] |= sub['R']
                            res['whole'] |= sub['whole']
                    for a in list(n.args) + [k.value for k in n.keywords]:
                        if isinstance(a, ast.Name) and a.id == sn:
                            res['whole'] = True       # e.g. attr.asdict(self): every field is read
        return res

    # ------------------------------------------------------------------ sub-object level
    def dump_subreads(self, top, sl):
        """fields of the owned object `self.top` (known class) that flow into the dump, or None if not decidable"""
        oc = self.owned_class(top)
        if oc is None:
            return None
        fn = self.methods['dump'][2]
        sn = self.selfname(fn)
        got, decided = set(), False
        for e in sl['exprs']:
            for n in ast.walk(e):
                if not isinstance(n, ast.Call):
                    continue
                f = n.func
                if isinstance(f, ast.Attribute) and self.path_of(f.value, sn, {}) == (top,):
                    if f.attr in oc.methods:
                        sub = oc.dump_slice(f.attr)
                        got |= {p[0] for p in sub['R']}
                        if sub['whole']:
                            got |= set(oc.field_names())
                        decided = True
                    continue
                if any(self.path_of(a, sn, {}) == (top,) for a in n.args):
                    r = resolve_function(self.methods['dump'][0], ast.unparse(f))
                    if r and r[0] == 'func':
                        got |= reads_of_instances(r[1], r[2], oc)
                        decided = True
        for p in sl['R']:
            if len(p) == 2 and p[0] == top:
                got.add(p[1])
                decided = True
        return got if decided else None

    def load_subwrites(self, top):
        """fields of the owned object `self.top` re-established by load when it replaces the object through a
        resolvable repo function, or None when not decidable (the callee is then assumed to restore it)."""
        oc = self.owned_class(top)
        if oc is None or 'load' not in self.methods:
            return None
        m2, c2, fn = self.methods['load']
        sn = self.selfname(fn)
        res = None
        for n in ast.walk(fn):
            if isinstance(n, ast.Assign) and any(self.path_of(t, sn, {}) == (top,) and isinstance(t, ast.Attribute) for t in n.targets):
                if isinstance(n.value, ast.Call):
                    r = returned_object_fields_of_call(m2, n.value, None)
                    if r is None:
                        return None
                    cls_model, fields = r
                    if (cls_model.mod.path, cls_model.ci.qualname) != (oc.mod.path, oc.ci.qualname):
                        return None
                    res = fields if res is None else (res & fields)
                else:
                    return None
        return res


def reads_of_instances(mod, fn, cm, depth=0, seen=None):
    """attribute names read on objects known to be instances of class `cm` in the closure of function `fn`:
    names guarded by isinstance(x, C) or parameters annotated with C."""
    seen = seen if seen is not None else set()
    key = (mod.path, getattr(fn, 'name', '?'), fn.lineno)
    if key in seen or depth > 3:
        return set()
    seen.add(key)
    out = set()

    def is_c(expr_src):
        r = resolve_class(mod, expr_src)
        return r is not None and (r[0].path, r[1].qualname) == (cm.mod.path, cm.ci.qualname)

    typed = set()
    for a in list(fn.args.args) + list(fn.args.kwonlyargs):
        if a.annotation is not None and is_c(ast.unparse(a.annotation)):
            typed.add(a.arg)

    def reads_in(nodes, names):
        for root in nodes:
            for n in ast.walk(root):
                if isinstance(n, ast.Attribute) and isinstance(n.ctx, ast.Load) and isinstance(n.value, ast.Name) and n.value.id in names:
                    out.add(n.attr)
    reads_in(fn.body, typed)
    for n in ast.walk(fn):
        if isinstance(n, ast.If):
            t = n.test
            if isinstance(t, ast.Call) and isinstance(t.func, ast.Name) and t.func.id == 'isinstance' and len(t.args) == 2 \
                    and isinstance(t.args[0], ast.Name) and is_c(ast.unparse(t.args[1])):
                reads_in(n.body, {t.args[0].id})
    # closure: referenced module-level functions / classes (e.g. json encoder classes passed as cls=)
    for n in ast.walk(fn):
        if isinstance(n, (ast.Name, ast.Attribute)) and isinstance(getattr(n, 'ctx', None), ast.Load):
            src = ast.unparse(n)
            if src.split('.')[0] in ('self', 'cls'):
                continue
            r = resolve_function(mod, src)
            if r is None:
                continue
            if r[0] == 'func':
                out |= reads_of_instances(r[1], r[2], cm, depth + 1, seen)
            elif r[0] == 'class' and (r[1].path, r[2].qualname) != (cm.mod.path, cm.ci.qualname):
                for mn, mfn in r[2].methods.items():
                    out |= reads_of_instances(r[1], mfn, cm, depth + 1, seen)
    return out


def _ctor_fields(cm, call):
    """fields of class model `cm` initialised by the constructor call (attrs: leading underscore stripped)"""
    try:
        sig, _ = sigbind.sig_of_class(cm.mod, cm.ci)
    except sigbind.Unsupported:
        return None
    if any(isinstance(a, ast.Starred) for a in call.args):
        return None
    kws = [k.arg for k in call.keywords]
    if None in kws:
        return set(cm.field_names()) if sigbind.is_attrs_class(cm.ci) else None     # C(**data): every init field comes from data
    ok, why, mapping = sigbind.bind(sig, len(call.args), kws)
    if not ok:
        return None
    fields = set()
    names = set(cm.field_names()) | set(cm.attr_assignments())
    for pn in mapping:
        if pn.startswith('**'):
            continue
        fields.add('_' + pn if ('_' + pn) in names and pn not in names else pn)
    return fields


def returned_object_fields_of_call(mod, call, cls_ctx, depth=0):
    """(ClassModel, fields set by data) of the object produced by `call`, or None."""
    if depth > 4:
        return None
    f = call.func
    # X(...).method(...)
    if isinstance(f, ast.Attribute) and isinstance(f.value, ast.Call):
        r = resolve_function(mod, ast.unparse(f.value.func))
        if r and r[0] == 'class':
            fm = sigbind.find_method(r[1], r[2], f.attr)
            if fm:
                return returned_object_fields(fm[0], fm[2], depth + 1)
        return None
    r = resolve_function(mod, ast.unparse(sigbind.strip_subscript(f)))
    if r is None:
        return None
    if r[0] == 'class':
        cm = model_of(r[1], r[2])
        fs = _ctor_fields(cm, call)
        return None if fs is None else (cm, fs)
    if r[0] in ('func', 'method'):
        return returned_object_fields(r[1], r[-1], depth + 1)
    return None


def returned_object_fields(mod, fn, depth=0):
    rets = [n for n in ast.walk(fn) if isinstance(n, ast.Return) and n.value is not None]
    if not rets:
        return None
    result = None
    for rt in rets:
        v = rt.value
        got = None
        if isinstance(v, ast.Call):
            got = returned_object_fields_of_call(mod, v, None, depth)
        elif isinstance(v, ast.Name):
            ctor = [n for n in ast.walk(fn) if isinstance(n, ast.Assign) and len(n.targets) == 1
                    and isinstance(n.targets[0], ast.Name) and n.targets[0].id == v.id]
            if len(ctor) == 1 and isinstance(ctor[0].value, ast.Call):
                got = returned_object_fields_of_call(mod, ctor[0].value, None, depth)
                if got is not None:
                    cm, fs = got
                    fs = set(fs)
                    for n in ast.walk(fn):
                        if isinstance(n, ast.Assign):
                            for t in n.targets:
                                if isinstance(t, ast.Attribute) and isinstance(t.value, ast.Name) and t.value.id == v.id:
                                    fs.add(t.attr)
                    got = (cm, fs)
        if got is None:
            return None
        if result is None:
            result = got
        else:
            if (result[0].mod.path, result[0].ci.qualname) != (got[0].mod.path, got[0].ci.qualname):
                return None
            result = (result[0], result[1] & got[1])
    return result


# ======================================================================================== iteration order (C13: restart frame)
# A dict / list / queue valued state attribute whose iteration order the class observes (for-loops, list(...),
# next(iter(...)), .items()/.values()/.keys(), comprehensions) must come back from dump -> load in the same sequence
# order.  Operations that destroy or change sequence order on the encoder -> decoder path of such an attribute:
ORDER_FUNCS = {'sorted', 'set', 'frozenset', 'reversed'}
ORDER_ATTR_FUNCS = {'sort', 'unique', 'argsort', 'shuffle', 'permutation', 'permuted', 'flip', 'flipud', 'fliplr'}
ORDER_METHODS = {'sort', 'reverse', 'shuffle'}
ORDER_VIEWS = {'items', 'values', 'keys', 'queue'}


def backward_slice(body, seeds, sn=None):
    """expressions of `body` that flow into the seed expressions (flow-insensitive, through locals, stores into relevant
    containers, calls on relevant objects and loops whose targets are relevant)"""
    stmts = list(ordered_stmts(body))
    relevant, exprs = set(), list(seeds)
    changed, seen = True, set()

    def root_of(x):
        while isinstance(x, (ast.Attribute, ast.Subscript, ast.Call)):
            x = x.func if isinstance(x, ast.Call) else x.value
        return x
    while changed:
        changed = False
        for e in exprs:
            for n in ast.walk(e):
                if isinstance(n, ast.Name) and n.id != sn and n.id not in relevant:
                    relevant.add(n.id)
                    changed = True
        for s in stmts:
            if id(s) in seen:
                continue
            add = []
            if isinstance(s, (ast.Assign, ast.AnnAssign, ast.AugAssign)):
                tg = s.targets if isinstance(s, ast.Assign) else [s.target]
                for t in tg:
                    for tt in (list(t.elts) if isinstance(t, (ast.Tuple, ast.List)) else [t]):
                        r = root_of(tt)
                        if isinstance(r, ast.Name) and r.id in relevant and r.id != sn:
                            if s.value is not None:
                                add.append(s.value)
                            if not isinstance(tt, ast.Name):
                                add.append(tt)
            elif isinstance(s, ast.Expr) and isinstance(s.value, ast.Call):
                r = root_of(s.value.func)
                if isinstance(r, ast.Name) and r.id in relevant and r.id != sn:
                    add.append(s.value)
            elif isinstance(s, ast.For):
                if {n.id for n in ast.walk(s.target) if isinstance(n, ast.Name)} & relevant:
                    add.append(s.iter)
            if add:
                seen.add(id(s))
                exprs += add
                changed = True
    return exprs, relevant


def order_ops(nodes, mappings=True):
    """order-destroying operations syntactically present in the given AST nodes: [(description, node)];
    mappings=False: the value is a sequence (list / queue / array rows), for which sort_keys is harmless"""
    out = []
    for root in nodes:
        for n in ast.walk(root):
            if isinstance(n, ast.Call):
                f = n.func
                for k in n.keywords:
                    if mappings and k.arg == 'sort_keys' and not (isinstance(k.value, ast.Constant) and not k.value.value):
                        out.append(('%s(..., sort_keys=%s) re-orders every mapping it serialises' % (ast.unparse(f), ast.unparse(k.value)), n))
                if isinstance(f, ast.Name) and f.id in ORDER_FUNCS:
                    out.append(('%s(...) does not keep the sequence order: %s' % (f.id, ast.unparse(n)[:80]), n))
                elif isinstance(f, ast.Attribute):
                    base = ast.unparse(f.value)
                    if f.attr in ORDER_ATTR_FUNCS and base.split('.')[0] in ('np', 'numpy', 'jnp', 'random', 'rng'):
                        out.append(('%s changes the sequence order' % ast.unparse(n)[:80], n))
                    elif f.attr in ORDER_METHODS and base.split('.')[0] not in ('np', 'numpy', 'jnp'):
                        out.append(('in-place %s() changes the sequence order: %s' % (f.attr, ast.unparse(n)[:80]), n))
            elif isinstance(n, ast.Subscript) and isinstance(n.slice, ast.Slice) and n.slice.step is not None:
                st = n.slice.step
                if isinstance(st, ast.UnaryOp) and isinstance(st.op, ast.USub):
                    out.append(('reversing slice %s' % ast.unparse(n)[:60], n))
    return out


def mapping_like(cm, path):
    """False only when the attribute is known to be a sequence (list / queue); mappings are re-ordered by sort_keys"""
    oc = cm.owned_class(path[0]) if len(path) == 2 else cm
    if oc is None:
        return True
    name = path[-1]
    for m2, c2 in oc.mro:
        ann = c2.annotations.get(name)
        if ann is not None:
            txt = ast.unparse(ann)
            if any(k in txt for k in ('Dict', 'dict', 'Mapping')):
                return True
            if any(k in txt for k in ('List', 'list', 'Sequence', 'Queue', 'deque', 'ndarray')):
                return False
    seq = mp = False
    for m2, fn, rhs, ann in oc.attr_assignments().get(name, []):
        if rhs is None:
            continue
        txt = ast.unparse(rhs)
        if isinstance(rhs, (ast.List, ast.ListComp)) or txt.startswith(('queue.Queue(', 'Queue(', 'list(', 'collections.deque(', 'deque(')):
            seq = True
        else:
            mp = True
    return not (seq and not mp)


def data_order_ops(fn, mappings=True, opsf=None):
    opsf = opsf or order_ops
    """order-changing operations on the data path of a helper function: expressions flowing into its return values
    (branch conditions such as `set(dir(o)).issuperset(..)` only select a path, they do not touch the data)"""
    rets = [n.value for n in ast.walk(fn) if isinstance(n, ast.Return) and n.value is not None]
    if rets:
        exprs, _ = backward_slice(fn.body, rets)
        return opsf(exprs, mappings)
    nodes = []
    for s in ordered_stmts(fn.body):
        if isinstance(s, (ast.If, ast.While, ast.Assert)):
            continue
        nodes += [h for h in header_exprs(s) if not isinstance(s, (ast.For,)) or h is s.iter]
    return opsf(nodes, mappings)


def closure_functions(mod, fn, depth=0, seen=None):
    """fn and the repo functions / methods of repo classes it references (serialiser closures, json encoder classes)"""
    seen = seen if seen is not None else set()
    key = (mod.path, fn.lineno, getattr(fn, 'name', '?'))
    if key in seen or depth > 3:
        return []
    seen.add(key)
    out = [(mod, fn)]
    for n in ast.walk(fn):
        if isinstance(n, (ast.Name, ast.Attribute)) and isinstance(getattr(n, 'ctx', None), ast.Load):
            src = ast.unparse(n)
            if src.split('.')[0] in ('self', 'cls'):
                continue
            r = resolve_function(mod, src)
            if r is None:
                continue
            if r[0] == 'func':
                out += closure_functions(r[1], r[2], depth + 1, seen)
            elif r[0] == 'class':
                # only classes used as helpers (encoders / decoders): those with a default/decode/object_hook-like protocol
                if any(mn in r[2].methods for mn in ('default', 'decode', 'encode', 'object_hook')):
                    for mn, mfn in r[2].methods.items():
                        out += closure_functions(r[1], mfn, depth + 1, seen)
    return out


def _referenced_closure(mod, node):
    """closures of the repo functions / helper classes (json encoders, object hooks) referenced inside `node`"""
    out, seen = [], set()
    for n in ast.walk(node):
        if isinstance(n, (ast.Name, ast.Attribute)) and isinstance(getattr(n, 'ctx', None), ast.Load):
            src = ast.unparse(n)
            if src.split('.')[0] in ('self', 'cls'):
                continue
            r = resolve_function(mod, src)
            if r is None:
                continue
            if r[0] in ('func', 'method'):
                out += closure_functions(r[1], r[-1], 0, seen)
            elif r[0] == 'class' and any(mn in r[2].methods for mn in ('default', 'decode', 'encode', 'object_hook')):
                for mn, mfn in r[2].methods.items():
                    out += closure_functions(r[1], mfn, 0, seen)
    return out


def _order_observed_own(cm):
    """{(attr,): [where]} attributes of the class whose iteration order is observed outside __init__/dump/load"""
    out = {}
    for mname, (m2, c2, fn) in cm.methods.items():
        if mname in SKIP_FOR_MUT or mname in ('dump',) or mname in cm.properties:
            continue
        sn = cm.selfname(fn)
        if sn is None:
            continue

        def base_path(e):
            # strip .items()/.values()/.keys() calls and .queue views
            while True:
                if isinstance(e, ast.Call) and isinstance(e.func, ast.Attribute) and e.func.attr in ORDER_VIEWS and not e.args:
                    e = e.func.value
                elif isinstance(e, ast.Attribute) and e.attr in ORDER_VIEWS:
                    e = e.value
                else:
                    break
            if isinstance(e, ast.Subscript):
                return None
            return cm.path_of(e, sn, cm.aliases(fn))
        for n in ast.walk(fn):
            cands = []
            if isinstance(n, ast.For):
                cands.append(n.iter)
            elif isinstance(n, (ast.ListComp, ast.SetComp, ast.DictComp, ast.GeneratorExp)):
                cands += [g.iter for g in n.generators]
            elif isinstance(n, ast.Call) and isinstance(n.func, ast.Name) and n.func.id in ('list', 'tuple', 'iter', 'next', 'enumerate', 'zip') and n.args:
                cands += list(n.args)
            for c in cands:
                p = base_path(c)
                if p:
                    out.setdefault(p[:1], []).append('%s: %s' % (mname, ast.unparse(c)[:60]))
    return out


def order_observed(cm):
    """{path: [where]}: own attributes, plus (top, sub) for owned objects of a statically known repo class"""
    out = dict(_order_observed_own(cm))
    tops = set(cm.attr_assignments())
    for top in tops:
        oc = cm.owned_class(top)
        if oc is not None:
            for p, where in _order_observed_own(oc).items():
                out.setdefault((top,) + p, []).extend('%s.%s' % (oc.ci.qualname, w) for w in where)
    return out


def dump_order_ops(cm, path, opsf=None):
    """order-destroying operations applied in `dump` (and in the serialisers it calls) to the value of the attribute path"""
    m2, c2, fn = cm.methods['dump']
    sn = cm.selfname(fn)
    sl = cm.dump_slice()
    top = path[0]
    # locals of dump tainted by the attribute
    tainted = set()

    def mentions(e):
        for n in ast.walk(e):
            if isinstance(n, ast.Attribute):
                p = cm.path_of(n, sn, {})
                if p and p[0] == top:
                    return True
            if isinstance(n, ast.Name) and n.id in tainted:
                return True
        return False
    changed = True
    while changed:
        changed = False
        for s in ordered_stmts(fn.body):
            if isinstance(s, (ast.Assign, ast.AnnAssign)) and s.value is not None and mentions(s.value):
                for t in (s.targets if isinstance(s, ast.Assign) else [s.target]):
                    if isinstance(t, ast.Name) and t.id not in tainted:
                        tainted.add(t.id)
                        changed = True
        # loop / comprehension variables ranging over the attribute carry its elements
        for n in ast.walk(fn):
            gens = [n] if isinstance(n, ast.For) else (list(n.generators) if isinstance(n, (ast.ListComp, ast.SetComp, ast.DictComp, ast.GeneratorExp)) else [])
            for g in gens:
                if mentions(g.iter):
                    for t in ast.walk(g.target):
                        if isinstance(t, ast.Name) and t.id not in tainted:
                            tainted.add(t.id)
                            changed = True
    found, scanned = [], []
    mp = mapping_like(cm, path)
    for e in sl['exprs']:
        for desc, node in (opsf or order_ops)([e], mp):
            if mentions(node):
                found.append('dump: ' + desc)
        for n in ast.walk(e):
            if isinstance(n, ast.Call) and any(mentions(a) for a in list(n.args) + [k.value for k in n.keywords]):
                for (mm, ff) in _referenced_closure(m2, n):
                    scanned.append('%s.%s' % (mm.dotted.split('.')[-1], ff.name))
                    found += ['%s.%s: %s' % (mm.dotted.split('.')[-1], ff.name, d) for d, _ in data_order_ops(ff, mp, opsf)]
            if isinstance(n, ast.Call) and isinstance(n.func, ast.Attribute) and n.func.attr == 'dump':
                p = cm.path_of(n.func.value, sn, {})
                oc = cm.owned_class(top) if p == (top,) else None
                if oc is not None and 'dump' in oc.methods and len(path) == 2:
                    found += ['%s.dump: %s' % (oc.ci.qualname, d) for d in dump_order_ops(oc, path[1:], opsf)[0]]
                    scanned.append(oc.ci.qualname + '.dump')
    return sorted(set(found)), sorted(set(scanned))


def restore_site(mod, call, depth=0):
    """(ModuleInfo, FunctionDef, local name, constructor Call) of the function that builds the object produced by `call`"""
    if depth > 4:
        return None
    f = call.func
    if isinstance(f, ast.Attribute) and isinstance(f.value, ast.Call):
        r = resolve_function(mod, ast.unparse(f.value.func))
        if r and r[0] == 'class':
            fm = sigbind.find_method(r[1], r[2], f.attr)
            if fm:
                return _restore_site_fn(fm[0], fm[2], depth + 1)
        return None
    r = resolve_function(mod, ast.unparse(sigbind.strip_subscript(f)))
    if r is None:
        return None
    if r[0] in ('func', 'method'):
        return _restore_site_fn(r[1], r[-1], depth + 1)
    return None


def _restore_site_fn(mod, fn, depth):
    rets = [n for n in ast.walk(fn) if isinstance(n, ast.Return) and n.value is not None]
    if len(rets) != 1:
        return None
    v = rets[0].value
    if isinstance(v, ast.Call):
        return restore_site(mod, v, depth)
    if isinstance(v, ast.Name):
        ctor = [n for n in ast.walk(fn) if isinstance(n, ast.Assign) and len(n.targets) == 1 and isinstance(n.targets[0], ast.Name)
                and n.targets[0].id == v.id and isinstance(n.value, ast.Call)]
        if len(ctor) == 1:
            return (mod, fn, v.id, ctor[0].value)
    return None


def load_order_ops(cm, path, opsf=None):
    """order-destroying operations on the data that `load` puts into the attribute path; also key-type facts.

    -> (found [str], scanned [str], keyinfo dict | None) or None when the restoring code cannot be located"""
    m2, c2, fn = cm.methods['load']
    sn = cm.selfname(fn)
    top = path[0]
    mp = mapping_like(cm, path)
    if len(path) == 1:
        seeds = []
        for s in ordered_stmts(fn.body):
            hdr = header_exprs(s)
            if isinstance(s, (ast.If, ast.While, ast.For, ast.With, ast.Try)):
                continue
            eff = cm.effects_of(hdr, fn)
            if any(w[0] == top for w in eff.W):
                seeds.append(s.value if isinstance(s, (ast.Assign, ast.AnnAssign, ast.Expr, ast.AugAssign)) and getattr(s, 'value', None) is not None else s)
        if not seeds:
            return None
        exprs, _ = backward_slice(fn.body, seeds, sn)
        found = ['load: ' + d for d, _ in (opsf or order_ops)(exprs, mp)]
        scanned = ['%s.load' % cm.ci.qualname]
        for e in exprs:
            for (mm, ff) in _referenced_closure(m2, e):
                scanned.append('%s.%s' % (mm.dotted.split('.')[-1], ff.name))
                found += ['%s.%s: %s' % (mm.dotted.split('.')[-1], ff.name, d) for d, _ in data_order_ops(ff, mp, opsf)]
        return sorted(set(found)), sorted(set(scanned)), None
    sub = path[1]
    site = None
    for n in ast.walk(fn):
        if isinstance(n, ast.Assign) and any(cm.path_of(t, sn, {}) == (top,) and isinstance(t, ast.Attribute) for t in n.targets) and isinstance(n.value, ast.Call):
            site = restore_site(m2, n.value)
    if site is None:
        return None
    rm, rfn, var, ctor = site
    seeds = []
    for n in ast.walk(rfn):
        if isinstance(n, ast.Assign):
            for t in n.targets:
                if isinstance(t, ast.Attribute) and isinstance(t.value, ast.Name) and t.value.id == var and t.attr == sub:
                    seeds.append(n.value)
    for k in ctor.keywords:
        if k.arg in (sub, sub.lstrip('_')):
            seeds.append(k.value)
    if not seeds:
        return None
    exprs, relevant = backward_slice(rfn.body, seeds)
    found = ['%s.%s: %s' % (rm.dotted.split('.')[-1], rfn.name, d) for d, _ in (opsf or order_ops)(exprs, mp)]
    # key type: entries stored under the loop's key variable of a json mapping must be converted back
    keyinfo = {'stores': []}
    seed_names = {x.id for sd in seeds for x in ast.walk(sd) if isinstance(x, ast.Name)}
    for s in ordered_stmts(rfn.body):
        if isinstance(s, ast.For) and isinstance(s.iter, ast.Call) and isinstance(s.iter.func, ast.Attribute) and s.iter.func.attr == 'items' \
                and isinstance(s.target, ast.Tuple) and isinstance(s.target.elts[0], ast.Name):
            kname = s.target.elts[0].id
            for b in ordered_stmts(s.body):
                if isinstance(b, ast.Assign):
                    for t in b.targets:
                        if isinstance(t, ast.Subscript) and isinstance(t.value, ast.Name) and t.value.id in seed_names:
                            ksrc = ast.unparse(t.slice)
                            keyinfo['stores'].append({'key_expr': ksrc, 'loop_key': kname,
                                                      'converted': isinstance(t.slice, ast.Call) and isinstance(t.slice.func, ast.Name)
                                                      and t.slice.func.id in ('int', 'float') and kname in ksrc,
                                                      'raw': isinstance(t.slice, ast.Name) and t.slice.id == kname})
    return sorted(set(found)), ['%s.%s' % (rm.dotted.split('.')[-1], rfn.name)], keyinfo


def int_keyed(cm, path):
    """True when the attribute path is declared as a mapping with int keys (annotation Dict[int, ...])"""
    oc = cm.owned_class(path[0]) if len(path) == 2 else cm
    if oc is None:
        return False
    name = path[-1]
    for m2, c2 in oc.mro:
        ann = c2.annotations.get(name)
        if ann is not None:
            txt = ast.unparse(ann).replace(' ', '')
            return 'Dict[int' in txt or 'dict[int' in txt or 'Mapping[int' in txt
    return False


# ======================================================================================== value preservation (C13: restart frame)
# On the data path from a persisted attribute to the encoder, and from the decoder back to the attribute, no lossy
# transformation may occur.  json.dumps / json.loads of Python floats (repr round trip) and ndarray.tolist() are exact (assumed).
NARROW_DTYPES = {'np.float32', 'np.float16', 'np.half', 'np.single', 'jnp.float32', 'jnp.float16', 'jnp.bfloat16', 'numpy.float32', 'numpy.float16',
                 "'float32'", "'float16'", '"float32"', '"float16"', "'f4'", "'f2'", 'int', 'bool', 'np.bool_', 'np.int_', "'int'",
                 'np.int8', 'np.int16', 'np.int32', 'np.int64', 'np.uint8', 'np.uint16', 'np.uint32', 'np.uint64', 'jnp.int32', 'jnp.int64',
                 "'int8'", "'int16'", "'int32'", "'int64'", "'uint8'", "'i4'", "'i8'"}
ROUNDING_NP = {'round', 'around', 'round_', 'floor', 'ceil', 'trunc', 'rint', 'fix', 'clip', 'format_float_positional', 'format_float_scientific',
               'array2string', 'array_str', 'array_repr', 'nan_to_num'}
ROUNDING_MATH = {'floor', 'ceil', 'trunc'}
_PREC_RE = __import__('re').compile(r'%[-+ #0]*\d*\.\d+[feEgG]|\{[^{}]*:[^{}]*\.\d+[feEgG%]?\}')


def lossy_ops_dump(nodes, mappings=True):
    return _lossy_ops(nodes, 'dump')


def lossy_ops_load(nodes, mappings=True):
    return _lossy_ops(nodes, 'load')


def _lossy_ops(nodes, side):
    """lossy value transformations syntactically present in the given AST nodes: [(description, node)].
    On the load side int()/float() of a stored string is a parse, not a cast, and is not counted."""
    out = []
    for root in nodes:
        for n in ast.walk(root):
            if isinstance(n, ast.Call):
                f = n.func
                fsrc = ast.unparse(f)
                dt = [ast.unparse(k.value) for k in n.keywords if k.arg == 'dtype']
                if isinstance(f, ast.Attribute) and f.attr == 'astype' and n.args:
                    t = ast.unparse(n.args[0])
                    if t in NARROW_DTYPES:
                        out.append(('cast %s narrows the stored values unless they already have that dtype' % ast.unparse(n)[:80], n))
                elif fsrc in NARROW_DTYPES and fsrc not in ('int', 'bool') and n.args:
                    out.append(('cast %s narrows the value' % ast.unparse(n)[:80], n))
                elif fsrc.split('.')[0] in ('np', 'numpy', 'jnp') and f.attr in ('asarray', 'array', 'asanyarray', 'full', 'fromiter') and dt and dt[0] in NARROW_DTYPES \
                        if isinstance(f, ast.Attribute) else False:
                    out.append(('%s converts to the narrower dtype %s' % (ast.unparse(n)[:80], dt[0]), n))
                elif isinstance(f, ast.Attribute) and fsrc.split('.')[0] in ('np', 'numpy', 'jnp') and f.attr in ROUNDING_NP:
                    out.append(('%s rounds / clips / formats the value' % ast.unparse(n)[:80], n))
                elif isinstance(f, ast.Attribute) and fsrc.split('.')[0] == 'math' and f.attr in ROUNDING_MATH:
                    out.append(('%s rounds the value' % ast.unparse(n)[:80], n))
                elif isinstance(f, ast.Attribute) and f.attr in ('round', 'clip') and fsrc.split('.')[0] not in ('np', 'numpy', 'jnp', 'math'):
                    out.append(('%s rounds / clips the value' % ast.unparse(n)[:80], n))
                elif isinstance(f, ast.Name) and f.id == 'round':
                    out.append(('%s rounds the value' % ast.unparse(n)[:80], n))
                elif isinstance(f, ast.Name) and f.id == 'int' and side == 'dump' and n.args and not isinstance(n.args[0], ast.Constant):
                    out.append(('%s truncates a non-integer value' % ast.unparse(n)[:80], n))
                elif isinstance(f, ast.Name) and f.id == 'format' and len(n.args) == 2 and isinstance(n.args[1], ast.Constant) and '.' in str(n.args[1].value):
                    out.append(('%s formats with a fixed precision' % ast.unparse(n)[:80], n))
                elif isinstance(f, ast.Attribute) and f.attr == 'format' and isinstance(f.value, ast.Constant) and isinstance(f.value.value, str) \
                        and _PREC_RE.search(f.value.value):
                    out.append(('%s formats with a fixed precision' % ast.unparse(n)[:80], n))
            elif isinstance(n, ast.BinOp) and isinstance(n.op, ast.Mod) and isinstance(n.left, ast.Constant) and isinstance(n.left.value, str) \
                    and _PREC_RE.search(n.left.value):
                out.append(('%s formats with a fixed precision' % ast.unparse(n)[:80], n))
            elif isinstance(n, ast.FormattedValue) and n.format_spec is not None and '.' in ast.unparse(n.format_spec):
                out.append(('f-string field %s formats with a fixed precision' % ast.unparse(n)[:60], n))
            elif isinstance(n, ast.Subscript) and isinstance(n.ctx, ast.Load):
                sl = n.slice
                parts = list(sl.elts) if isinstance(sl, ast.Tuple) else [sl]
                if any(isinstance(x, ast.Slice) and (x.lower is not None or x.upper is not None) for x in parts):
                    out.append(('truncating slice %s drops elements' % ast.unparse(n)[:60], n))
    return out


def dump_lossy_ops(cm, path):
    return dump_order_ops(cm, path, lossy_ops_dump)


def load_lossy_ops(cm, path):
    return load_order_ops(cm, path, lossy_ops_load)


def field_attribution(fn, node, field_names):
    """fields of a whole-object dump (dict of fields) that an operation inside `fn` is applied to: the constant keys of the
    subscript store / the constant tuple its loop variable ranges over; every field when this cannot be told"""
    parents = {}
    for p in ast.walk(fn):
        for c in ast.iter_child_nodes(p):
            parents[id(c)] = p
    cur, stmt, loops = node, None, []
    while id(cur) in parents:
        cur = parents[id(cur)]
        if isinstance(cur, ast.stmt) and stmt is None:
            stmt = cur
        if isinstance(cur, (ast.For, ast.comprehension, ast.DictComp, ast.ListComp)):
            loops.append(cur)
    keys = set()

    def consts_of_loopvar(name):
        got = set()
        for lp in loops:
            gens = [lp] if isinstance(lp, (ast.For, ast.comprehension)) else list(lp.generators)
            for g in gens:
                if isinstance(g.target, ast.Name) and g.target.id == name and isinstance(g.iter, (ast.Tuple, ast.List, ast.Set)) \
                        and all(isinstance(e, ast.Constant) for e in g.iter.elts):
                    got |= {e.value for e in g.iter.elts}
        return got
    for sub in ast.walk(stmt if stmt is not None else node):
        if isinstance(sub, ast.Subscript):
            k = sub.slice
            if isinstance(k, ast.Constant) and k.value in field_names:
                keys.add(k.value)
            elif isinstance(k, ast.Name):
                keys |= {x for x in consts_of_loopvar(k.id) if x in field_names}
        elif isinstance(sub, ast.Attribute) and sub.attr in field_names and isinstance(sub.value, ast.Name) and sub.value.id in ('self',):
            keys.add(sub.attr)
    return sorted(keys) if keys else sorted(field_names)
