"""Explore one function under contract, discharge its obligations, aggregate by obligation name.

With workers > 1 every worker process re-explores the paths (cheap) and discharges the obligations of its slice of
the paths (z3 terms cannot cross process boundaries); the parent aggregates plain-data results.
"""
import multiprocessing
import time

import z3

from . import engine as E
from . import report


class FunctionResult:
    def __init__(self):
        self.paths = []
        self.instances = []
        self.unsupported = []
        self.inlined = set()
        self.assumed = set()
        self.wall = 0.0


def model_text(model, terms=None, limit=4000):
    if model is None:
        return ''
    out = []
    if terms:
        for label, t in terms:
            try:
                out.append('%s = %s' % (label, model.eval(t, model_completion=True)))
            except Exception as e:  # pragma: no cover
                out.append('%s = <%s>' % (label, e))
    txt = '\n'.join(out)
    if len(txt) < limit:
        try:
            txt += '\n--- model ---\n' + str(model)[:limit - len(txt)]
        except Exception:
            pass
    return txt


_SPEC = None
OPEN_CAP_S = 150.0


def _work_idx(w):
    return _work(_SPEC + w)


def _work(spec):
    """Runs in a worker (or inline): returns plain-data results for its slice of the paths."""
    (entry, post, known, witness_terms, on_violation, timeout_ms, max_paths, path_timeout_ms, deadline_s, stop_at, widx, nworkers) = spec
    paths = E.explore(entry, max_paths=max_paths, timeout_ms=path_timeout_ms, deadline_s=deadline_s)
    out = {'paths': [(p.kind, p.describe()) for p in paths], 'instances': [], 'inlined': set(), 'assumed': set()}
    unk_count = {}
    replayed = {}
    open_time = 0.0
    for p in paths:
        out['inlined'] |= p.run.inlined
        out['assumed'] |= p.run.assumed
    for pi, p in enumerate(paths):
        if p.kind == 'unsupported' or pi % nworkers != widx:
            continue
        obs = [(n, f, npc, nax, info) for (n, f, npc, nax, info) in p.run.obligations]
        if post is not None and p.kind in ('return', 'raise'):
            for item in post(p):
                n, f = item[0], item[1]
                obs.append((n, f, None, None, 'lemma' if len(item) > 2 and item[2] == 'lemma' else None))
        lemmas = []      # proved lemma formulas of this path (cut rule): available to later obligations of the path
        for n, f, npc, nax, info in obs:
            if isinstance(f, bool):
                f = z3.BoolVal(f)
            if stop_at is not None and time.time() > stop_at:
                # a budgeted search (bounded model query): out of time is 'unknown', never a verdict
                out['instances'].append({'name': n, 'verdict': 'unknown', 'dt': 0.0, 'pi': pi, 'describe': p.describe(),
                                         'lemma': info == 'lemma', 'reason': 'search budget exhausted'})
                continue
            if unk_count.get(n, 0) >= 2:
                # this obligation already timed out twice in this worker: do not burn the budget on every path
                out['instances'].append({'name': n, 'verdict': 'unknown', 'dt': 0.0, 'pi': pi, 'describe': p.describe(),
                                         'lemma': info == 'lemma', 'reason': 'skipped after repeated solver timeouts on other paths'})
                continue
            # On a tree where proofs fail, every open query burns its whole (deterministic) rlimit budget.  Once this worker has
            # spent OPEN_CAP_S seconds on queries that stayed open, the remaining queries get a 20x smaller budget: a proof that
            # needs more comes out 'unknown' (undecided), never as a verdict.  On a tree where everything proves no query
            # stays open, so the cap never applies and verdicts do not depend on the machine load.
            tmo = timeout_ms if open_time < OPEN_CAP_S else max(timeout_ms // 20, 500)
            v, m, dt = E.discharge(p.run, f, npc, nax, timeout_ms=tmo, extra=lemmas if npc is None else ())
            if v != 'unsat':
                open_time += dt
            if v != 'unsat' and lemmas and npc is None:
                v2, m2, dt2 = E.discharge(p.run, f, npc, nax, timeout_ms=tmo)
                if v2 != 'unsat':
                    open_time += dt2
                dt += dt2
                if v2 == 'unsat' or v == 'unknown':
                    v, m = v2, m2
            inst = {'name': n, 'verdict': v, 'dt': dt, 'pi': pi, 'describe': p.describe(), 'lemma': info == 'lemma'}
            if info == 'lemma' and v == 'unsat':
                lemmas.append(f)
            if v == 'unknown':
                unk_count[n] = unk_count.get(n, 0) + 1
            if v != 'unsat':
                inst['reason'] = str(m)[:300] if v == 'unknown' else ''
                if known and n in known:
                    desc, cls_fn = known[n]
                    c = cls_fn(p)
                    res_f = z3.Or(f, c) if not isinstance(c, bool) else (z3.BoolVal(True) if c else f)
                    v2, m2, dt2 = E.discharge(p.run, res_f, npc, nax, timeout_ms=timeout_ms, extra=lemmas if npc is None else ())
                    inst['dt'] += dt2
                    inst['residual'] = v2
                    if v2 == 'sat':
                        m, v = m2, 'sat'
                        inst['verdict'] = 'sat'
                    elif v2 == 'unknown':
                        inst['reason'] = 'residual obligation undecided: %s' % (m2,)
                if v == 'sat' and inst.get('residual') != 'unsat':
                    txt = 'path %d (%s); events=%s\n' % (pi, p.describe(), [e[:3] for e in p.run.events][:30])
                    txt += model_text(m, witness_terms(p) if witness_terms else None)
                    inst['model'] = txt
                    if on_violation is not None:
                        # native replays are expensive (a fresh interpreter each): once an obligation has been reproduced in
                        # this worker, or replayed three times without reproducing, further counter-models are kept as
                        # models only (the verdict 'sat' is unaffected)
                        st = replayed.setdefault(n, [0, False])
                        if st[1] or st[0] >= 3:
                            inst['replay'] = {'replay_skipped': 'already reproduced on another path' if st[1] else 'three counter-models of this obligation did not reproduce'}
                            inst['reproduced'] = None
                        else:
                            st[0] += 1
                            try:
                                inst['replay'], inst['reproduced'] = on_violation(n, p, m)
                            except Exception as e:  # replay construction must never turn into a verdict
                                inst['replay'], inst['reproduced'] = {'replay_error': repr(e)}, None
                            if inst['reproduced']:
                                st[1] = True
            out['instances'].append(inst)
    out['second'] = dict(E.SECOND_STATS)
    return out


def verify_function(chk, fname, entry, post=None, timeout_ms=10000, max_paths=4000, expect_paths=1,
                    witness_terms=None, on_violation=None, known=None, path_timeout_ms=1500, deadline_s=None,
                    allow_end_only=False, workers=1, only=None, rename=None, refute=None, stop_at=None):
    """
    entry(it) -> value            : sets up symbolic inputs and calls the real function
    post(path) -> [(name, formula[, 'lemma'])] : postcondition instances for a terminated path (kind return/raise);
           a proved 'lemma' is added to the hypotheses of the later obligations of the same path (cut rule)
    known: dict obligation-name -> (description, cls_fn) where cls_fn(path) -> z3 Bool: the finding's witness class;
           the residual obligation `formula or in_class` must still be proved, else it is a violation
    only:  optional predicate on obligation names: which aggregated obligations are recorded into `chk`
    """
    global _SPEC
    t0 = time.time()
    fr = FunctionResult()
    base = (entry, post, known, witness_terms, on_violation, timeout_ms, max_paths, path_timeout_ms, deadline_s, stop_at)
    if workers > 1:
        _SPEC = base
        ctx = multiprocessing.get_context('fork')
        with ctx.Pool(workers) as pool:
            outs = pool.map(_work_idx, [(w, workers) for w in range(workers)])
        _SPEC = None
    else:
        outs = [_work(base + (0, 1))]
    fr.paths = outs[0]['paths']
    for o in outs:
        fr.instances += o['instances']
        fr.inlined |= o['inlined']
        fr.assumed |= o['assumed']
    for a in sorted(fr.assumed):
        chk.assume(a)
    if E.SECOND_SOLVER:
        agg = chk.extra.setdefault('second_solver_cvc5', {'checked': 0, 'agree_unsat': 0, 'unknown': 0, 'errors': 0, 'sat_disagreements': 0})
        for o in outs:
            st = o.get('second', {})
            for k in ('checked', 'agree_unsat', 'unknown', 'errors'):
                agg[k] += st.get(k, 0)
            agg['sat_disagreements'] += len(st.get('sat_disagreements', []))
            for d in st.get('sat_disagreements', [])[:2]:
                chk.error('%s.second_solver' % fname, 'cvc5 answers sat on a query z3 answered unsat: %s' % d[:300])
    bad = sorted({d for k, d in fr.paths if k == 'unsupported'})
    if bad:
        chk.obligation('%s.supported' % fname, fname, 'checker', report.ERROR, 0.0,
                       detail='the real code of %s left the supported subset: %s' % (fname, '; '.join(bad)[:1500]))
        fr.unsupported = bad
    live = [1 for k, d in fr.paths if k in ('return', 'raise')]
    if len(live) < expect_paths and not allow_end_only:
        chk.obligation('%s.vacuity' % fname, fname, 'checker', report.ERROR, 0.0,
                       detail='only %d terminating paths explored (expected >= %d)' % (len(live), expect_paths))
    by_name = {}
    for i in sorted(fr.instances, key=lambda i: (i['pi'])):
        by_name.setdefault(i['name'], []).append(i)
    fr.by_name = by_name
    refuted = {}
    if refute is not None:
        # obligations that are neither proved nor definitely refuted: bounded model query (DESIGN 2.5)
        open_names = [n for n, insts in by_name.items() if (only is None or only(n))
                      and any(i['verdict'] != 'unsat' and i.get('residual') != 'unsat' for i in insts)
                      and not any(i['verdict'] == 'sat' and i.get('reproduced') for i in insts)]
        if open_names or bad:
            refuted = refute(open_names) or {}
    for n, insts in by_name.items():
        if only is not None and not only(n):
            continue
        if rename is not None:
            n = rename(n)
        tsum = sum(i['dt'] for i in insts)
        bad_i = [i for i in insts if i['verdict'] != 'unsat']
        detail = {'instances': len(insts), 'paths': len({i['pi'] for i in insts})}
        if insts[0]['lemma']:
            detail['role'] = 'lemma (cut): proved here, used as hypothesis by later obligations of the same path'
        if not bad_i:
            chk.obligation(n, fname, 'z3', report.PROVED, tsum, detail=detail)
            continue
        n0 = insts[0]['name']
        if known and n0 in known and all(i.get('residual') == 'unsat' for i in bad_i):
            chk.obligation(n, fname, 'z3', report.KNOWN, tsum, detail=detail, finding=known[n0][0])
            chk.obligation(n + '.residual', fname, 'z3', report.PROVED, 0.0,
                           detail={'clause': 'the same obligation for every input outside the recorded finding\'s witness class',
                                   'instances': len(bad_i)})
            continue
        sats = [i for i in bad_i if i['verdict'] == 'sat' and i.get('residual') != 'unsat']
        if n0 in refuted:
            mtxt, rep, reproduced = refuted[n0][0], refuted[n0][1], refuted[n0][2]
            detail['refuted_by'] = 'bounded model query (explicit finite datastore view, loops unrolled): solver sat'
            if reproduced is False:
                # the bounded counter-model does not reproduce on the real code: spurious, stay undecided
                detail['reason'] = 'bounded counter-model not reproduced on the real code'
                chk.obligation(n, fname, 'z3', report.UNDECIDED, tsum, detail=detail)
            else:
                chk.obligation(n, fname, 'z3+bounded-model-query', report.VIOLATED, tsum, detail=detail, model=mtxt, replay=rep,
                               reproduced=reproduced)
            continue
        if sats:
            i = sats[0]
            detail['failing_path'] = i['describe']
            chk.obligation(n, fname, 'z3', report.VIOLATED, tsum, detail=detail, model=i.get('model', ''),
                           replay=i.get('replay'), reproduced=i.get('reproduced'))
        else:
            unk = [i for i in bad_i if i.get('residual') != 'unsat']
            detail['reason'] = unk[0].get('reason', '')
            detail['undecided_paths'] = [(i['pi'], i['describe'][:60]) for i in unk][:12]
            chk.obligation(n, fname, 'z3', report.UNDECIDED, tsum, detail=detail)
    # counterexamples found by the model query for clauses that the (failed / unsupported) unbounded run did not even
    # get to state: a natively reproduced violation is reported, whatever happened to the proof attempt
    for n0, tup in refuted.items():
        if n0 in by_name or not tup[2]:
            continue
        if only is not None and not only(n0):
            continue
        n = rename(n0) if rename is not None else n0
        chk.obligation(n, fname, 'bounded-model-query+replay', report.VIOLATED, 0.0,
                       detail={'refuted_by': 'bounded model query; the unbounded proof attempt did not reach this clause'},
                       model=tup[0], replay=tup[1], reproduced=tup[2])
    fr.wall = time.time() - t0
    return fr
