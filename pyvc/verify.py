"""Explore one function under contract, discharge its obligations, aggregate by obligation name."""
import time

import z3

from . import engine as E
from . import report


class FunctionResult:
    def __init__(self):
        self.paths = []
        self.by_name = {}       # name -> list of (verdict, model/reason, seconds, path index, formula)
        self.unsupported = []


def model_text(model, terms=None, limit=4000):
    if model is None:
        return ''
    out = []
    if terms:
        for label, t in terms:
            try:
                out.append('%s = %s' % (label, model.eval(t, model_completion=True)))
            except Exception as e:  # pragma: no cover
                out.append('%s = <%s>' % (label, e))
    txt = '\n'.join(out)
    if len(txt) < limit:
        try:
            txt += '\n--- model ---\n' + str(model)[:limit - len(txt)]
        except Exception:
            pass
    return txt


def verify_function(chk, fname, entry, post=None, timeout_ms=10000, max_paths=4000, expect_paths=1,
                    witness_terms=None, on_violation=None, known=None, path_timeout_ms=1500, deadline_s=None,
                    allow_end_only=False):
    """
    entry(it) -> value            : sets up symbolic inputs and calls the real function
    post(path) -> [(name, formula)] : postcondition instances for a terminated path (kind return/raise)
    known: dict obligation-name -> (description, cls_fn) where cls_fn(path) -> z3 Bool: the finding's witness class;
           the residual obligation `formula or in_class` must still be proved, else it is a violation
    """
    t0 = time.time()
    fr = FunctionResult()
    paths = E.explore(entry, max_paths=max_paths, timeout_ms=path_timeout_ms, deadline_s=deadline_s)
    fr.paths = paths
    bad = [p for p in paths if p.kind == 'unsupported']
    if bad:
        msgs = sorted({p.value for p in bad})
        chk.obligation('%s.supported' % fname, fname, 'checker', report.ERROR, 0.0,
                       detail='the real code of %s left the supported subset: %s' % (fname, '; '.join(msgs)[:1500]))
        fr.unsupported = msgs
    live = [p for p in paths if p.kind in ('return', 'raise')]
    if len(live) < expect_paths and not allow_end_only:
        chk.obligation('%s.vacuity' % fname, fname, 'checker', report.ERROR, 0.0,
                       detail='only %d terminating paths explored (expected >= %d)' % (len(live), expect_paths))
    for pi, p in enumerate(paths):
        if p.kind == 'unsupported':
            continue
        obs = [(n, f, npc, nax, info) for (n, f, npc, nax, info) in p.run.obligations]
        if post is not None and p.kind in ('return', 'raise'):
            for n, f in post(p):
                obs.append((n, f, None, None, None))
        for n, f, npc, nax, info in obs:
            if isinstance(f, bool):
                f = z3.BoolVal(f)
            v, m, dt = E.discharge(p.run, f, npc, nax, timeout_ms=timeout_ms)
            fr.by_name.setdefault(n, []).append((v, m, dt, pi, f))
    for n, insts in fr.by_name.items():
        tsum = sum(i[2] for i in insts)
        sats = [i for i in insts if i[0] == 'sat']
        unk = [i for i in insts if i[0] == 'unknown']
        detail = {'instances': len(insts), 'paths': sorted({i[3] for i in insts})[:20]}
        if sats:
            v, m, dt, pi, f = sats[0]
            p = paths[pi]
            if known and n in known:
                desc, cls_fn = known[n]
                # residual obligation: the same obligation outside the finding's witness class must be proved
                rest = []
                for (v_, m_, dt_, pi_, f_) in sats + unk:
                    c = cls_fn(paths[pi_])
                    v2, m2, dt2 = E.discharge(paths[pi_].run, z3.Or(f_, c) if not isinstance(c, bool) else (z3.BoolVal(True) if c else f_),
                                              timeout_ms=timeout_ms)
                    tsum += dt2
                    if v2 != 'unsat':
                        rest.append((v2, m2, dt2, pi_, f_))
                if not rest:
                    chk.obligation(n, fname, 'z3', report.KNOWN, tsum, detail=detail, finding=desc)
                    continue
                sats2 = [i for i in rest if i[0] == 'sat']
                if not sats2:
                    detail['reason'] = 'residual obligation undecided: %s' % (rest[0][1],)
                    chk.obligation(n, fname, 'z3', report.UNDECIDED, tsum, detail=detail)
                    continue
                v, m, dt, pi, f = sats2[0]
                p = paths[pi]
            txt = 'path %d (%s); events=%s\n' % (pi, p.describe(), [e[:3] for e in p.run.events][:30])
            txt += model_text(m, witness_terms(p) if witness_terms else None)
            replay, reproduced = (None, None)
            if on_violation is not None:
                try:
                    replay, reproduced = on_violation(n, p, m)
                except Exception as e:  # replay construction must never turn into a verdict
                    replay, reproduced = ({'replay_error': repr(e)}, None)
            detail['failing_path'] = p.describe()
            chk.obligation(n, fname, 'z3', report.VIOLATED, tsum, detail=detail, model=txt, replay=replay, reproduced=reproduced)
        elif unk:
            detail['reason'] = str(unk[0][1])
            chk.obligation(n, fname, 'z3', report.UNDECIDED, tsum, detail=detail)
        else:
            chk.obligation(n, fname, 'z3', report.PROVED, tsum, detail=detail)
    fr.wall = time.time() - t0
    return fr
