"""Exception-flow analysis over the real ASTs (DESIGN.md section 6, "Exception flow"; used by C08).

What it computes
----------------
For an entry point (a function/method of the repository, given by qualified name) and an
*abstract state* (a set of condition tags that hold, e.g. {'missing_trial'}), the set of
paths through the real code, each with

  * the way the entry point is left: ('return', kind) or ('raise', class-key, grpc status code|None),
  * the sequence of datastore write events performed,
  * the vector of opaque decisions taken (so that paths of two runs of the same code under two
    service contracts can be paired: two paths describe the same concrete execution only if they
    agree on every decision they have in common).

How
---
A small abstract interpreter executes the function bodies read through `pyvc.source` (nothing is
imported from the repository).  Values are concrete where the exception flow depends on them
(exception instances with their class and attributes, classes, `None`, string/enum constants,
instances of repository classes with their attribute dictionaries) and `UNKNOWN` otherwise.

  * calls are resolved only when the callee is known (module functions through the import table,
    methods through the receiver's class and the real MRO, attrs constructors through the declared
    fields incl. `factory=`); a call that cannot be resolved, or whose callee lives outside the
    configured scope, returns UNKNOWN and is recorded as an **assumption** ("returns normally"),
    never as an alarm;
  * `try/except` is resolved with the REAL class hierarchy: repository classes are read from the
    source (`class NotFoundError(KeyError)`), builtin exceptions from the running CPython, classes of
    libraries that are not part of the repository (``grpc.RpcError``) from a table of declared
    assumptions;
  * a branch whose test is not decided by the abstract values is
      - *directed by the abstract state* when one of its arms is an error block (ends in `raise X(..)`
        or in a call of a configured terminal handler such as `grpc_util.handle_exception(X(..), ctx)`):
        the arm is taken iff the tag of that error is part of the state;
      - otherwise *opaque*: both arms are explored (decision-vector DFS: the program is re-executed
        from the start for every decision prefix, so no interpreter state is ever copied);
  * loops with an opaque condition are executed zero times or once (the exception flow of a second
    iteration equals that of the first: no abstract value that the analysis looks at changes).

  * a servicer method called from client code (the RPC boundary, locally or through a stub) is analysed
    once per (method, state, contract); its path set is reduced (`reduce_paths`: a decision whose two
    subtrees are observationally identical is dropped) and replayed at the call site, so that the client
    level only multiplies the *relevant* decisions of the callee;
  * an `if` whose arms contain the check of a named condition of the state is taken towards that check
    (the condition holding means the execution gets there); `x[i]` on a container that the path condition
    says is empty raises IndexError.

Implicit exceptions of straight-line code (IndexError of a subscript, TypeError of a library
call, attrs validators) are not modelled; this is listed by the client of this module as an
assumption.
"""
import ast
import builtins

from . import source
from .source import ModuleInfo


# --------------------------------------------------------------------------------------- values
class _Unknown:
    def __repr__(self):
        return 'UNKNOWN'


UNKNOWN = _Unknown()


class Const:
    def __init__(self, value):
        self.value = value

    def __repr__(self):
        return 'Const(%r)' % (self.value,)


class Ext:
    """An object of a library outside the repository, known by dotted name only."""

    def __init__(self, name):
        self.name = name

    def __repr__(self):
        return 'Ext(%s)' % self.name


class ClsV:
    def __init__(self, key):
        self.key = key

    def __repr__(self):
        return 'Cls(%s)' % self.key


class InstV:
    def __init__(self, cls, attrs=None):
        self.cls, self.attrs = cls, dict(attrs or {})

    def __repr__(self):
        return 'Inst(%s)' % self.cls


class FuncV:
    def __init__(self, mod, cls, node, bound=None, qual=None, closure=None):
        self.mod, self.cls, self.node, self.bound, self.closure = mod, cls, node, bound, closure
        self.qual = qual or ((cls.qualname + '.' if cls is not None else '') + getattr(node, 'name', '<lambda>'))

    def __repr__(self):
        return 'Func(%s:%s)' % (self.mod.dotted, self.qual)


class ModV:
    def __init__(self, info):
        self.info = info

    def __repr__(self):
        return 'Mod(%s)' % self.info.dotted


class SeqV:
    def __init__(self, items, kind='list'):
        self.items, self.kind = list(items), kind

    def __repr__(self):
        return 'Seq%s' % (self.items,)


class Special:
    """ctx = remote servicer context, stub = remote service stub, datastore = DataStore contract."""

    def __init__(self, kind, **kw):
        self.kind = kind
        self.__dict__.update(kw)

    def __repr__(self):
        return 'Special(%s)' % self.kind


class BoundSpecial:
    def __init__(self, obj, name):
        self.obj, self.name = obj, name


class BuiltinV:
    def __init__(self, name):
        self.name = name


class ExtInst:
    """An instance of a library class known by dotted name only (e.g. a protobuf message): never None."""

    def __init__(self, cls_name):
        self.cls_name = cls_name

    def __repr__(self):
        return 'ExtInst(%s)' % self.cls_name


# ------------------------------------------------------------------------------- control flow
class RaiseSignal(Exception):
    def __init__(self, exc):
        Exception.__init__(self)
        self.exc = exc


class _Return(Exception):
    def __init__(self, value, src='return'):
        Exception.__init__(self)
        self.value = value
        self.src = src


class _Break(Exception):
    pass


class _Continue(Exception):
    pass


class PathLimit(Exception):
    pass


class Unsupported(Exception):
    """The analysis cannot interpret the construct: the caller reports `undecided`, never a violation."""


# ------------------------------------------------------------------------------ class hierarchy
class Hierarchy:
    """The real class hierarchy: repository classes from source, builtins from CPython, the rest declared."""

    def __init__(self, external_bases=None):
        # classes of libraries that are not part of the repository: declared (assumed) bases
        self.external_bases = dict(external_bases or {})
        self.used_external = set()

    # -- keys:  'builtins.KeyError' | '<module dotted>:<QualName>' | '<external dotted name>'
    @staticmethod
    def key_of(ci):
        return ci.mod.dotted + ':' + ci.qualname

    @staticmethod
    def classinfo(key):
        if ':' not in key:
            return None
        m, q = key.split(':', 1)
        try:
            return ModuleInfo.get(m).find_class(q)
        except (KeyError, FileNotFoundError):
            return None

    def resolve(self, mod, src):
        """Class expression (source text, e.g. 'custom_errors.NotFoundError') in module `mod` -> key | None."""
        parts = src.split('.')
        head = parts[0]
        r = None
        try:
            r = source.resolve_alias(mod, src)
        except (KeyError, FileNotFoundError, RecursionError):
            r = None
        if r is not None:
            m2, q = r
            if q:
                try:
                    m2.find_class(q)
                    return m2.dotted + ':' + q
                except KeyError:
                    return None
            return None
        if head in mod.imports:
            tgt = mod.imports[head]
            top = tgt.split('.')[0]
            if not ModuleInfo.exists(top):
                return '.'.join([tgt] + parts[1:])
            return None
        if head in mod.classes or head in mod.funcs or head in mod.assigns:
            return None
        if len(parts) == 1 and isinstance(getattr(builtins, head, None), type):
            return 'builtins.' + head
        return None

    def bases(self, key):
        if key.startswith('builtins.'):
            c = getattr(builtins, key[9:], None)
            if isinstance(c, type):
                return ['builtins.' + b.__name__ for b in c.__bases__]
            return []
        ci = self.classinfo(key)
        if ci is not None:
            out = []
            for b in ci.bases:
                k = self.resolve(ci.mod, b)
                if k is not None:
                    out.append(k)
            return out
        if key in self.external_bases:
            self.used_external.add(key)
            return list(self.external_bases[key])
        return []

    def mro(self, key):
        out, seen = [], set()

        def go(k):
            if k in seen:
                return
            seen.add(k)
            out.append(k)
            for b in self.bases(k):
                go(b)
        go(key)
        return out

    def is_subclass(self, a, b):
        return b in self.mro(a)

    def is_exception(self, key):
        return 'builtins.BaseException' in self.mro(key)

    def short(self, key):
        if key is None:
            return None
        return key.split(':', 1)[1] if ':' in key else (key[9:] if key.startswith('builtins.') else key)


# ------------------------------------------------------------------------------------- oracle
class Oracle:
    """Decision-vector DFS: replays a prefix of opaque decisions, then always answers True and
    remembers the alternative."""

    def __init__(self, prefix):
        self.prefix = list(prefix)
        self.taken = []
        self.pending = []
        self.decisions = {}
        self.order = []               # [(key, value)] in the order the decisions were taken (binary ones only)
        self.visits = {}

    def decide(self, key):
        n = self.visits.get(key, 0) + 1
        self.visits[key] = n
        i = len(self.taken)
        if i < len(self.prefix):
            v = self.prefix[i]
        else:
            v = True
            self.pending.append(self.taken + [False])
        self.taken.append(v)
        self.decisions[(key, n)] = v
        self.order.append(((key, n), v))
        return v

    def choose(self, n):
        """n-way choice (which path of a callee summary); not part of the decision vector itself."""
        i = len(self.taken)
        if i < len(self.prefix):
            v = self.prefix[i]
        else:
            v = 0
            for alt in range(1, n):
                self.pending.append(self.taken + [alt])
        self.taken.append(v)
        return v

    def adopt(self, prefix_key, order):
        """Take over the decisions of a callee summary path (keys are wrapped with the call site)."""
        for k, v in order:
            kk = (prefix_key, k)
            self.decisions[kk] = v
            self.order.append((kk, v))


class Path:
    def __init__(self, outcome, writes, decisions, tags_seen, fired, notes, opaque_errors=(), order=(), exc=None):
        self.outcome, self.writes, self.decisions = outcome, writes, decisions
        self.tags_seen, self.fired, self.notes = tags_seen, fired, notes
        self.opaque_errors = tuple(opaque_errors)
        self.order = list(order)
        self.exc = exc
        self.ret_type = None          # dotted class name of the returned library object, if known
        self.rpcs = set()

    def observable(self):
        return (self.outcome, tuple(self.writes), tuple(sorted(set(self.opaque_errors))), self.ret_type)

    def compatible(self, other):
        a, b = self.decisions, other.decisions
        if len(a) > len(b):
            a, b = b, a
        for k, v in a.items():
            if k in b and b[k] != v:
                return False
        return True

    def __repr__(self):
        return 'Path(%s, writes=%s, fired=%s)' % (self.outcome, self.writes, self.fired)


# ------------------------------------------------------------------------------------ the model
class Model:
    """Everything that is a *contract* rather than code; supplied by the check (contracts/c08.py)."""

    scope = ()                       # dotted names of the modules whose functions are interpreted
    terminal_handlers = ()           # ((module dotted, function name), ...)  e.g. grpc_util.handle_exception
    external_bases = {}              # declared bases of library classes
    stub_suffixes = ()               # Ext names that construct a remote stub
    datastore_base = None            # key of the DataStore ABC
    remote_error = None              # key of the class raised by a stub
    status_unknown = None            # Ext name of the UNKNOWN status code
    status_ok = None
    servicer_key = None              # key of the servicer class registered with the gRPC server
    summaries = None                 # cache of RPC path summaries (set per analysis)
    status_internal = None           # Ext name of the status a stub reports when the response cannot be serialised

    def message_class(self, name):
        """Is the library object `name` a message class (calling it yields an instance that is never None)?"""
        return False

    def datastore_return(self, method, interp):
        return UNKNOWN
    enum_classes = ()                # Ext names of enum classes: two different members are unequal
    directable = frozenset()         # error tags decided by the abstract state
    unreachable = {}                 # error tags assumed never to hold: tag -> reason
    max_paths = 4000

    def datastore_call(self, method, interp):
        """-> (class key to raise | None, is_write)."""
        return None, False

    def classify(self, cls_key, qual, ordinal, interp=None):
        return 'other.%s@%s#%d' % (cls_key, qual, ordinal)

    def setup_globals(self, interp):
        pass


class Interp:
    def __init__(self, model, hier, state, mode, oracle):
        self.model, self.h, self.state, self.mode, self.oracle = model, hier, frozenset(state), mode, oracle
        self.writes, self.tags_seen, self.fired, self.notes = [], set(), [], set()
        self.opaque_errors = []
        self.ambient = {}              # family of an ambient datastore condition -> holds (True) / does not (False)
        self.rpc_depth = 0
        self.rpc_name = None
        self.rpc_visits = {}
        self.rpcs = set()
        self.last_return = None
        self.depth = 0
        self.globals_cache = {}
        self.ctx_stack = []
        self.exc_stack = []
        self._remote_servicer = None
        self._nodekeys = {}
        self.steps = 0

    # ------------------------------------------------------------------ helpers
    def note(self, text):
        self.notes.add(text)

    def in_scope(self, mod):
        return mod.dotted in self.model.scope

    def direct(self, tag):
        """True/False when the abstract state (or a declared unreachability assumption) decides the error
        condition `tag`; None when it is an unnamed condition (explored both ways)."""
        self.tags_seen.add(tag)
        if tag in self.model.unreachable:
            return False
        if tag in self.model.directable:
            return tag in self.state
        return None

    def fire(self, tag):
        self.fired.append(tag)

    def raise_(self, exc):
        raise RaiseSignal(exc)

    def new_exc(self, key, attrs=None):
        return InstV(key, attrs)

    # ------------------------------------------------------------------ name lookup
    def lookup_global(self, mod, name):
        ck = (mod.dotted, name)
        if ck in self.globals_cache:
            return self.globals_cache[ck]
        v = self._lookup_global(mod, name)
        self.globals_cache[ck] = v
        return v

    def _lookup_global(self, mod, name):
        if name in mod.funcs:
            return FuncV(mod, None, mod.funcs[name])
        if name in mod.classes:
            return ClsV(Hierarchy.key_of(mod.classes[name]))
        if name in mod.imports:
            return self.import_target(mod.imports[name])
        if name in mod.assigns:
            if not self.in_scope(mod):
                # aliases such as `X = pkg.Y` are followed even outside the scope (re-export modules)
                v = mod.assigns[name]
                if isinstance(v, (ast.Attribute, ast.Name)):
                    fr = Frame(mod, None, None, '<module %s>' % mod.dotted)
                    return self.eval(v, fr)
                return UNKNOWN
            fr = Frame(mod, None, None, '<module %s>' % mod.dotted)
            self.globals_cache[(mod.dotted, name)] = UNKNOWN     # cycle guard
            return self.eval(mod.assigns[name], fr)
        if hasattr(builtins, name):
            o = getattr(builtins, name)
            if isinstance(o, type) and issubclass(o, BaseException):
                return ClsV('builtins.' + name)
            return BuiltinV(name)
        return UNKNOWN

    def import_target(self, tgt):
        if ModuleInfo.exists(tgt):
            return ModV(ModuleInfo.get(tgt))
        if '.' in tgt:
            base, attr = tgt.rsplit('.', 1)
            if ModuleInfo.exists(base):
                return self.getattr_mod(ModuleInfo.get(base), attr, tgt)
        return Ext(tgt)

    def getattr_mod(self, info, attr, full=None):
        if attr in info.funcs or attr in info.classes or attr in info.imports or attr in info.assigns:
            return self.lookup_global(info, attr)
        sub = info.dotted + '.' + attr
        if ModuleInfo.exists(sub):
            return ModV(ModuleInfo.get(sub))
        return Ext(full or sub)

    # ------------------------------------------------------------------ class attribute lookup
    def class_attr(self, key, name):
        """-> (defining ClassInfo, kind, node) following the real MRO; kind in method|assign|class."""
        for k in self.h.mro(key):
            ci = Hierarchy.classinfo(k)
            if ci is None:
                continue
            if name in ci.methods:
                return ci, 'method', ci.methods[name]
            if name in ci.assigns:
                return ci, 'assign', ci.assigns[name]
            if name in ci.classes:
                return ci, 'class', ci.classes[name]
        return None, None, None

    @staticmethod
    def _decos(fn):
        return [ast.unparse(d) for d in fn.decorator_list]

    def getattr_v(self, base, name, fr, node=None):
        if isinstance(base, ModV):
            return self.getattr_mod(base.info, name)
        if isinstance(base, Ext):
            return Ext(base.name + '.' + name)
        if isinstance(base, Special):
            return BoundSpecial(base, name)
        if isinstance(base, InstV):
            if name in base.attrs:
                return base.attrs[name]
            ci, kind, n = self.class_attr(base.cls, name)
            if kind == 'method':
                decos = self._decos(n)
                if any(d == 'property' or d.endswith('.getter') or d == 'functools.cached_property' for d in decos):
                    return self.invoke(FuncV(ci.mod, ci, n, bound=base), [], {}, fr)
                if 'staticmethod' in decos:
                    return FuncV(ci.mod, ci, n)
                if 'classmethod' in decos:
                    return FuncV(ci.mod, ci, n, bound=ClsV(base.cls))
                return FuncV(ci.mod, ci, n, bound=base)
            if kind == 'assign':
                if self.in_scope(ci.mod):
                    return self.eval(n, Frame(ci.mod, ci, None, ci.qualname))
                return UNKNOWN
            if kind == 'class':
                return ClsV(Hierarchy.key_of(n))
            if '<code>' in base.attrs and name in ('code', 'details'):
                return BoundSpecial(base, name)
            return UNKNOWN
        if isinstance(base, ClsV):
            ci, kind, n = self.class_attr(base.key, name)
            if kind == 'method':
                decos = self._decos(n)
                if 'classmethod' in decos:
                    return FuncV(ci.mod, ci, n, bound=base)
                return FuncV(ci.mod, ci, n)
            if kind == 'assign':
                if self.in_scope(ci.mod):
                    return self.eval(n, Frame(ci.mod, ci, None, ci.qualname))
                return UNKNOWN
            if kind == 'class':
                return ClsV(Hierarchy.key_of(n))
            return UNKNOWN
        return UNKNOWN

    # ------------------------------------------------------------------ truth
    @staticmethod
    def truth(v):
        if isinstance(v, Const):
            try:
                return bool(v.value)
            except Exception:
                return None
        if isinstance(v, SeqV):
            return len(v.items) > 0
        if isinstance(v, (InstV, ClsV, FuncV, ModV, Special, BoundSpecial, BuiltinV)):
            return True
        return None

    # ------------------------------------------------------------------ expressions
    def eval(self, node, fr):
        self.steps += 1
        if self.steps > 400000:
            raise PathLimit('step budget exhausted')
        m = getattr(self, 'e_' + type(node).__name__, None)
        if m is None:
            for ch in ast.iter_child_nodes(node):
                if isinstance(ch, ast.expr):
                    self.eval(ch, fr)
            return UNKNOWN
        return m(node, fr)

    def e_Constant(self, n, fr):
        return Const(n.value)

    def e_Name(self, n, fr):
        f = fr
        while f is not None:
            if n.id in f.env:
                return f.env[n.id]
            f = f.closure
        return self.lookup_global(fr.mod, n.id)

    def e_Attribute(self, n, fr):
        return self.getattr_v(self.eval(n.value, fr), n.attr, fr, n)

    def e_JoinedStr(self, n, fr):
        for v in n.values:
            if isinstance(v, ast.FormattedValue):
                self.eval(v.value, fr)
        return Ext('<str>')

    def e_List(self, n, fr):
        return SeqV([self.eval(e, fr) for e in n.elts], 'list')

    def e_Tuple(self, n, fr):
        return SeqV([self.eval(e, fr) for e in n.elts], 'tuple')

    def e_Set(self, n, fr):
        return SeqV([self.eval(e, fr) for e in n.elts], 'set')

    def e_Dict(self, n, fr):
        for k in n.keys:
            if k is not None:
                self.eval(k, fr)
        for v in n.values:
            self.eval(v, fr)
        return UNKNOWN

    def e_Starred(self, n, fr):
        self.eval(n.value, fr)
        return UNKNOWN

    def e_Lambda(self, n, fr):
        return FuncV(fr.mod, fr.cls, n, qual=fr.qual + '.<lambda>', closure=fr)

    def e_NamedExpr(self, n, fr):
        v = self.eval(n.value, fr)
        fr.env[n.target.id] = v
        return v

    def e_UnaryOp(self, n, fr):
        v = self.eval(n.operand, fr)
        if isinstance(n.op, ast.Not):
            t = self.truth(v)
            return UNKNOWN if t is None else Const(not t)
        return UNKNOWN

    def e_BinOp(self, n, fr):
        self.eval(n.left, fr)
        self.eval(n.right, fr)
        return UNKNOWN

    def e_Subscript(self, n, fr):
        self.eval(n.value, fr)
        self.eval(n.slice, fr)
        if isinstance(n.slice, (ast.Constant, ast.UnaryOp)) and ast.unparse(n.value) in fr.falsy:
            # indexing a container that the path condition says is empty
            self.fire('IndexError: %s is empty on this path (%s)' % (ast.unparse(n.value), fr.qual))
            self.raise_(self.new_exc('builtins.IndexError'))
        return UNKNOWN

    def e_Slice(self, n, fr):
        for x in (n.lower, n.upper, n.step):
            if x is not None:
                self.eval(x, fr)
        return UNKNOWN

    def e_BoolOp(self, n, fr):
        is_or = isinstance(n.op, ast.Or)
        last = UNKNOWN
        for i, e in enumerate(n.values):
            last = self.eval(e, fr)
            if i == len(n.values) - 1:
                return last
            t = self.truth(last)
            if t is None:
                t = self.oracle.decide(self.nodekey(n, fr, i))
            if (is_or and t) or (not is_or and not t):
                return last
        return last

    def e_IfExp(self, n, fr):
        t = self.truth(self.eval(n.test, fr))
        if t is None:
            t = self.oracle.decide(self.nodekey(n, fr))
        return self.eval(n.body if t else n.orelse, fr)

    def _same(self, a, b):
        """Identity/equality of two abstract values: True/False/None(unknown)."""
        if isinstance(a, Const) and isinstance(b, Const):
            return a.value == b.value and type(a.value) is type(b.value)
        if isinstance(a, Ext) and isinstance(b, Ext):
            if a.name == b.name:
                return True
            pa, pb = a.name.rsplit('.', 1)[0], b.name.rsplit('.', 1)[0]
            if pa == pb and pa in self.model.enum_classes:
                return False            # two different members of one enum
            return None
        known = (Const, InstV, ClsV, FuncV, ModV, Special, SeqV, Ext, ExtInst)
        if isinstance(a, Const) and a.value is None and isinstance(b, known):
            return False
        if isinstance(b, Const) and b.value is None and isinstance(a, known):
            return False
        if isinstance(a, (InstV, Special)) and a is b:
            return True
        return None

    def e_Compare(self, n, fr):
        left = self.eval(n.left, fr)
        rights = [self.eval(c, fr) for c in n.comparators]
        if len(n.ops) != 1:
            return UNKNOWN
        op, right = n.ops[0], rights[0]
        if isinstance(op, (ast.Is, ast.Eq)):
            s = self._same(left, right)
            return UNKNOWN if s is None else Const(s)
        if isinstance(op, (ast.IsNot, ast.NotEq)):
            s = self._same(left, right)
            return UNKNOWN if s is None else Const(not s)
        return UNKNOWN

    def _comp(self, n, fr, elts):
        sub = Frame(fr.mod, fr.cls, fr.fn, fr.qual, closure=fr)
        for g in n.generators:
            self.eval(g.iter, sub)
            self.bind_target(g.target, UNKNOWN, sub)
            for c in g.ifs:
                self.eval(c, sub)
        for e in elts:
            self.eval(e, sub)
        return UNKNOWN

    def e_ListComp(self, n, fr):
        if len(n.generators) == 1:
            it = self.eval(n.generators[0].iter, fr)
            if isinstance(it, SeqV) and not it.items:
                return SeqV([], 'list')
        return self._comp(n, fr, [n.elt])

    def e_SetComp(self, n, fr):
        return self._comp(n, fr, [n.elt])

    def e_GeneratorExp(self, n, fr):
        return self._comp(n, fr, [n.elt])

    def e_DictComp(self, n, fr):
        return self._comp(n, fr, [n.key, n.value])

    def e_Yield(self, n, fr):
        raise Unsupported('yield reached in %s' % fr.qual)

    e_YieldFrom = e_Yield
    e_Await = e_Yield

    # ------------------------------------------------------------------ calls
    def e_Call(self, n, fr):
        if fr.falsy and isinstance(n.func, ast.Attribute):
            fr.falsy.discard(ast.unparse(n.func.value))          # a method call may fill the container
        f = self.eval(n.func, fr)
        args, kwargs, star = [], {}, False
        for a in n.args:
            if isinstance(a, ast.Starred):
                self.eval(a.value, fr)
                star = True
            else:
                args.append(self.eval(a, fr))
        for k in n.keywords:
            v = self.eval(k.value, fr)
            if k.arg is None:
                star = True
            else:
                kwargs[k.arg] = v
        return self.call_v(f, args, kwargs, fr, n, star)

    def call_v(self, f, args, kwargs, fr, node=None, star=False):
        if isinstance(f, FuncV):
            if not self.in_scope(f.mod):
                self.note('call of %s.%s (outside the analysed scope) assumed to return normally' % (f.mod.dotted, f.qual))
                return UNKNOWN
            if self.is_rpc_call(f):
                return self.rpc_via_summary(f.node.name, False)
            return self.invoke(f, args, kwargs, fr)
        if isinstance(f, ClsV):
            return self.construct(f.key, args, kwargs, fr)
        if isinstance(f, BoundSpecial):
            return self.call_special(f, args, kwargs, fr)
        if isinstance(f, BuiltinV):
            return self.call_builtin(f.name, args, kwargs, fr)
        if isinstance(f, Ext):
            if any(f.name.endswith(s) for s in self.model.stub_suffixes):
                return Special('stub')
            self.note('library call %s assumed to return normally' % f.name.split('(')[0])
            if self.model.message_class(f.name):
                return ExtInst(f.name)
            return UNKNOWN
        if node is not None:
            src = ast.unparse(node.func)
            self.note('unresolved call %s(...) in %s assumed to return normally' % (src, fr.qual))
        return UNKNOWN

    def call_builtin(self, name, args, kwargs, fr):
        if name == 'isinstance' and len(args) == 2:
            v, c = args
            keys = self._class_keys(c)
            if keys is None:
                return UNKNOWN
            if isinstance(v, InstV):
                return Const(any(self.h.is_subclass(v.cls, k) for k in keys))
            if isinstance(v, Const) and v.value is None:
                return Const(False)
            if isinstance(v, Special) and v.kind == 'ctx':
                # the servicer context of a real gRPC server is no instance of a repository class
                return Const(False) if all(':' in k for k in keys) else UNKNOWN
            return UNKNOWN
        if name == 'issubclass' and len(args) == 2 and isinstance(args[0], ClsV):
            keys = self._class_keys(args[1])
            if keys is not None:
                return Const(any(self.h.is_subclass(args[0].key, k) for k in keys))
        return UNKNOWN

    def _class_keys(self, c):
        if isinstance(c, ClsV):
            return [c.key]
        if isinstance(c, Ext):
            return [c.name]
        if isinstance(c, SeqV):
            out = []
            for i in c.items:
                k = self._class_keys(i)
                if k is None:
                    return None
                out += k
            return out
        return None

    def call_special(self, f, args, kwargs, fr):
        o, name = f.obj, f.name
        if isinstance(o, InstV):                  # error object raised by a stub
            if name == 'code':
                return o.attrs.get('<code>', UNKNOWN)
            return UNKNOWN
        if o.kind == 'ctx':
            if name == 'set_code' and args:
                o.code = args[0]
                return Const(None)
            if name in ('set_details', 'set_trailing_metadata', 'send_initial_metadata'):
                return Const(None)
            if name in ('abort', 'abort_with_status'):
                if name == 'abort' and args:
                    o.code = args[0]
                else:
                    o.code = UNKNOWN
                self.raise_(self.new_exc('builtins.Exception', {'<abort>': Const(True)}))
            self.note('servicer context method %s assumed to have no effect on the status' % name)
            return UNKNOWN
        if o.kind == 'datastore':
            cls, is_write = self.model.datastore_call(name, self)
            if cls is not None:
                self.fire('datastore.%s raises %s' % (name, self.h.short(cls)))
                self.raise_(self.new_exc(cls))
            if is_write:
                self.writes.append(name)
            return self.model.datastore_return(name, self)
        if o.kind == 'stub':
            return self.remote_rpc(name, args, kwargs, fr)
        return UNKNOWN

    def remote_servicer(self, fr):
        if self._remote_servicer is None:
            self._remote_servicer = self.construct(self.model.servicer_key, [], {}, fr)
        return self._remote_servicer

    # -- the RPC boundary: a servicer method called from client code is analysed once per (method, state, contract)
    #    and its reduced path summary is replayed at the call site
    def is_rpc_call(self, f):
        return (self.rpc_depth == 0 and isinstance(f.bound, InstV) and f.bound.cls == self.model.servicer_key
                and isinstance(f.node, ast.FunctionDef) and any(a.arg == 'context' for a in f.node.args.args))

    def rpc_via_summary(self, name, remote):
        key = (name, self.state, remote)
        sm = self.model.summaries.get(key)
        if sm is None:
            def entry(it):
                it.rpc_depth = 1
                it.rpc_name = name
                fr = Frame(Hierarchy.classinfo(self.model.servicer_key).mod, None, None, '<rpc %s>' % name)
                if remote:
                    return it.remote_rpc(name, [UNKNOWN], {}, fr)
                sv = it.construct(self.model.servicer_key, [], {}, fr)
                f = it.getattr_v(sv, name, fr)
                return it.invoke(f, [UNKNOWN], {}, fr)
            sm = reduce_paths(enumerate_paths(self.model, self.h, entry, self.state, self.mode))
            self.model.summaries[key] = sm
        n = self.rpc_visits.get(name, 0) + 1
        self.rpc_visits[name] = n
        self.rpcs.add(name)
        p = sm[self.oracle.choose(len(sm))]
        self.oracle.adopt(('rpc', name, n), p.order)
        self.writes.extend(p.writes)
        self.fired.extend(p.fired)
        self.tags_seen |= p.tags_seen
        self.notes |= p.notes
        self.opaque_errors.extend(p.opaque_errors)
        if p.exc is not None:
            # '<service>': the exception comes out of a call on the service reference (in-process servicer or stub)
            self.raise_(InstV(p.exc.cls, dict(p.exc.attrs, **{'<service>': Const(name)})))
        return UNKNOWN

    def remote_rpc(self, name, args, kwargs, fr):
        """gRPC semantics (assumed, DESIGN 4.6): the handler runs with a real context; a status code set on
        the context surfaces as that code; an escaping exception with no code set surfaces as UNKNOWN."""
        if self.rpc_depth == 0:
            return self.rpc_via_summary(name, True)
        sv = self.remote_servicer(fr)
        f = self.getattr_v(sv, name, fr)
        if not isinstance(f, FuncV):
            self.note('remote method %s not found on the servicer class' % name)
            return UNKNOWN
        ctx = Special('ctx', code=None)
        raised = None
        ret = UNKNOWN
        try:
            ret = self.invoke(f, list(args[:1]) + [ctx], {}, fr)
        except RaiseSignal as r:
            raised = r.exc
        code = ctx.code
        ok = self.model.status_ok
        if code is not None and not (isinstance(code, Ext) and code.name == ok):
            self.raise_(self.new_exc(self.model.remote_error, {'<code>': code}))
        if raised is not None:
            self.raise_(self.new_exc(self.model.remote_error, {'<code>': Ext(self.model.status_unknown)}))
        # assumed gRPC semantics: a handler result that is not the declared response message cannot be serialised
        if self.model.status_internal is not None:
            bad = None
            if isinstance(ret, Const) and ret.value is None:
                bad = 'None'
            elif isinstance(ret, ExtInst):
                want = self.declared_response(f)
                if want is not None and want != ret.cls_name:
                    bad = ret.cls_name
            if bad is not None:
                self.fire('the remote handler %s returns %s: the response cannot be serialised' % (name, bad))
                self.raise_(self.new_exc(self.model.remote_error, {'<code>': Ext(self.model.status_internal)}))
        return ret

    def declared_response(self, f):
        """Dotted name of the message class in the return annotation of a handler (Optional[X] -> X), or None."""
        ann = f.node.returns
        if isinstance(ann, ast.Constant) and isinstance(ann.value, str):
            try:
                ann = ast.parse(ann.value, mode='eval').body
            except SyntaxError:
                return None
        if isinstance(ann, ast.Subscript) and ast.unparse(ann.value).split('.')[-1] == 'Optional':
            ann = ann.slice
        if not isinstance(ann, (ast.Name, ast.Attribute)):
            return None
        try:
            v = self.eval(ann, Frame(f.mod, f.cls, None, f.qual))
        except (RaiseSignal, Unsupported):
            return None
        return v.name if isinstance(v, Ext) and self.model.message_class(v.name) else None

    # ------------------------------------------------------------------ construction
    def is_attrs(self, ci):
        for d in ci.decorators:
            h = d.split('(')[0]
            if h in ('attr.define', 'attr.frozen', 'attr.s', 'attr.attrs', 'attrs.define', 'attrs.frozen',
                     'attr.mutable', 'attrs.mutable', 'attr.dataclass'):
                return True
        return False

    def attrs_fields(self, key):
        """[(attribute name, init name|None, default expr|None, factory expr|None, defining ClassInfo)] in MRO order."""
        out = []
        for k in reversed(self.h.mro(key)):
            ci = Hierarchy.classinfo(k)
            if ci is None or not self.is_attrs(ci):
                continue
            for name in ci.field_order:
                if name not in ci.annotations:
                    continue
                if 'ClassVar' in ast.unparse(ci.annotations[name]):
                    continue
                default = factory = None
                init = True
                v = ci.assigns.get(name)
                if isinstance(v, ast.Call) and ast.unparse(v.func) in ('attr.field', 'attr.ib', 'attrs.field', 'attr.attrib'):
                    for kw in v.keywords:
                        if kw.arg == 'default':
                            default = kw.value
                        elif kw.arg == 'factory':
                            factory = kw.value
                        elif kw.arg == 'init' and isinstance(kw.value, ast.Constant):
                            init = bool(kw.value.value)
                elif v is not None:
                    default = v
                out = [o for o in out if o[0] != name]
                out.append((name, name.lstrip('_') if init else None, default, factory, ci))
        return out

    def construct(self, key, args, kwargs, fr):
        if key.startswith('builtins.'):
            if self.h.is_exception(key):
                return InstV(key, {'args': SeqV(args, 'tuple')})
            return UNKNOWN
        ci = Hierarchy.classinfo(key)
        if ci is None:
            return UNKNOWN
        if self.model.datastore_base and self.h.is_subclass(key, self.model.datastore_base):
            return Special('datastore', cls=key)
        if not self.in_scope(ci.mod) and not self.h.is_exception(key):
            self.note('constructor %s (outside the analysed scope) assumed to return normally' % self.h.short(key))
            return UNKNOWN
        inst = InstV(key)
        if self.h.is_exception(key):
            inst.attrs['args'] = SeqV(args, 'tuple')
        dci, kind, init = self.class_attr(key, '__init__')
        if kind == 'method':
            if self.in_scope(dci.mod):
                self.invoke(FuncV(dci.mod, dci, init, bound=inst), args, kwargs, fr)
            return inst
        if self.is_attrs(ci):
            fields = self.attrs_fields(key)
            pos = list(args)
            for name, iname, default, factory, dci in fields:
                if iname is not None and pos:
                    inst.attrs[name] = pos.pop(0)
                elif iname is not None and iname in kwargs:
                    inst.attrs[name] = kwargs[iname]
                elif factory is not None:
                    fv = self.eval(factory, Frame(dci.mod, dci, None, dci.qualname))
                    inst.attrs[name] = self.call_v(fv, [], {}, fr, None)
                elif default is not None:
                    inst.attrs[name] = self.eval(default, Frame(dci.mod, dci, None, dci.qualname))
                elif iname is not None:
                    inst.attrs[name] = UNKNOWN
            pci, pk, post = self.class_attr(key, '__attrs_post_init__')
            if pk == 'method' and self.in_scope(pci.mod):
                self.invoke(FuncV(pci.mod, pci, post, bound=inst), [], {}, fr)
        return inst

    # ------------------------------------------------------------------ function invocation
    def invoke(self, f, args, kwargs, fr):
        node = f.node
        if isinstance(node, ast.Lambda):
            sub = Frame(f.mod, f.cls, node, f.qual, closure=f.closure)
            self._bind(node.args, f, args, kwargs, sub)
            return self.eval(node.body, sub)
        if _is_generator(node):
            return UNKNOWN                     # lazily evaluated: body runs when iterated
        if self.depth > 60:
            self.note('call depth limit reached at %s: assumed to return normally' % f.qual)
            return UNKNOWN
        sub = Frame(f.mod, f.cls, node, f.qual, closure=f.closure)
        self._bind(node.args, f, args, kwargs, sub)
        self.depth += 1
        try:
            self.exec_block(node.body, sub)
        except _Return as r:
            self.last_return = '`%s` in %s' % (r.src, f.qual)
            return r.value
        finally:
            self.depth -= 1
        self.last_return = 'falls off the end of %s' % f.qual
        return Const(None)

    def _bind(self, a, f, args, kwargs, sub):
        params = [p.arg for p in a.posonlyargs + a.args]
        vals = list(args)
        if f.bound is not None:
            vals = [f.bound] + vals
        defaults = [None] * (len(params) - len(a.defaults)) + list(a.defaults)
        dfr = Frame(f.mod, f.cls, None, f.qual, closure=f.closure)
        for i, p in enumerate(params):
            if i < len(vals):
                sub.env[p] = vals[i]
            elif p in kwargs:
                sub.env[p] = kwargs[p]
            elif defaults[i] is not None:
                sub.env[p] = self.eval(defaults[i], dfr)
            else:
                sub.env[p] = UNKNOWN
        for p, d in zip(a.kwonlyargs, a.kw_defaults):
            if p.arg in kwargs:
                sub.env[p.arg] = kwargs[p.arg]
            elif d is not None:
                sub.env[p.arg] = self.eval(d, dfr)
            else:
                sub.env[p.arg] = UNKNOWN
        if a.vararg:
            sub.env[a.vararg.arg] = UNKNOWN
        if a.kwarg:
            sub.env[a.kwarg.arg] = UNKNOWN

    # ------------------------------------------------------------------ statements
    def nodekey(self, node, fr, extra=0):
        k = id(node)
        if k not in self._nodekeys:
            self._nodekeys[k] = '%s:%s@%d:%d' % (fr.mod.dotted, fr.qual, getattr(node, 'lineno', 0), getattr(node, 'col_offset', 0))
        return (self._nodekeys[k], extra)

    def exec_block(self, stmts, fr):
        for s in stmts:
            self.exec_stmt(s, fr)

    def exec_stmt(self, s, fr):
        self.steps += 1
        m = getattr(self, 's_' + type(s).__name__, None)
        if m is None:
            raise Unsupported('statement %s in %s' % (type(s).__name__, fr.qual))
        return m(s, fr)

    def s_Pass(self, s, fr):
        pass

    s_Global = s_Nonlocal = s_Delete = s_ClassDef = s_Pass

    def s_Assert(self, s, fr):
        self.note('assert statements in %s assumed to hold' % fr.qual)

    def s_Import(self, s, fr):
        for a in s.names:
            nm = a.asname or a.name.split('.')[0]
            fr.env[nm] = self.import_target(a.name if a.asname else a.name.split('.')[0])

    def s_ImportFrom(self, s, fr):
        base = s.module or ''
        if s.level:
            pk = fr.mod.dotted.split('.')[:-s.level]
            base = '.'.join(pk + ([s.module] if s.module else []))
        for a in s.names:
            fr.env[a.asname or a.name] = self.import_target(base + '.' + a.name)

    def s_FunctionDef(self, s, fr):
        fr.env[s.name] = FuncV(fr.mod, fr.cls, s, qual=fr.qual + '.' + s.name, closure=fr)

    def s_Expr(self, s, fr):
        self.eval(s.value, fr)

    def bind_target(self, t, v, fr):
        if isinstance(t, ast.Name):
            fr.env[t.id] = v
            if fr.falsy:
                fr.falsy = {x for x in fr.falsy if x != t.id and not x.startswith(t.id + '.')}
        elif isinstance(t, ast.Attribute):
            b = self.eval(t.value, fr)
            if isinstance(b, InstV):
                b.attrs[t.attr] = v
        elif isinstance(t, (ast.Tuple, ast.List)):
            items = v.items if isinstance(v, SeqV) and len(v.items) == len(t.elts) else [UNKNOWN] * len(t.elts)
            for e, x in zip(t.elts, items):
                self.bind_target(e, x, fr)
        elif isinstance(t, ast.Subscript):
            self.eval(t.value, fr)
            self.eval(t.slice, fr)
        elif isinstance(t, ast.Starred):
            self.bind_target(t.value, UNKNOWN, fr)

    def s_Assign(self, s, fr):
        v = self.eval(s.value, fr)
        for t in s.targets:
            self.bind_target(t, v, fr)

    def s_AnnAssign(self, s, fr):
        if s.value is not None:
            self.bind_target(s.target, self.eval(s.value, fr), fr)

    def s_AugAssign(self, s, fr):
        self.eval(s.value, fr)
        if isinstance(s.target, ast.Name):
            fr.env[s.target.id] = UNKNOWN
        else:
            self.bind_target(s.target, UNKNOWN, fr)

    def s_Return(self, s, fr):
        raise _Return(self.eval(s.value, fr) if s.value is not None else Const(None), ast.unparse(s)[:80])

    def s_Break(self, s, fr):
        raise _Break()

    def s_Continue(self, s, fr):
        raise _Continue()

    def s_Raise(self, s, fr):
        if s.exc is None:
            if self.exc_stack:
                self.raise_(self.exc_stack[-1])
            raise Unsupported('bare raise outside a handler in %s' % fr.qual)
        v = self.eval(s.exc, fr)
        if s.cause is not None:
            self.eval(s.cause, fr)
        if isinstance(v, ClsV):
            v = self.construct(v.key, [], {}, fr)
        if not isinstance(v, InstV):
            self.note('raise of an expression of unknown class in %s' % fr.qual)
            v = InstV('?unknown')
        self.fire('raise %s in %s' % (self.h.short(v.cls), fr.qual))
        self.raise_(v)

    # -- error blocks --------------------------------------------------------------------------
    def static_exc_class(self, expr, assigns, fr):
        if isinstance(expr, ast.Name) and expr.id in assigns:
            expr = assigns[expr.id]
        if isinstance(expr, ast.Call):
            k = self.h.resolve(fr.mod, ast.unparse(expr.func)) if isinstance(expr.func, (ast.Name, ast.Attribute)) else None
            if k is not None and self.h.is_exception(k):
                return k
        elif isinstance(expr, (ast.Name, ast.Attribute)):
            k = self.h.resolve(fr.mod, ast.unparse(expr))
            if k is not None and self.h.is_exception(k):
                return k
        return None

    def is_terminal_handler_call(self, call, fr):
        if not isinstance(call.func, (ast.Name, ast.Attribute)):
            return False
        src = ast.unparse(call.func)
        try:
            r = source.resolve_alias(fr.mod, src)
        except (KeyError, FileNotFoundError, RecursionError):
            r = None
        if r is None:
            return False
        return (r[0].dotted, r[1]) in self.model.terminal_handlers

    def error_block_tag(self, stmts, fr):
        """Tag of a block that consists of assignments/logging and ends in `raise X(...)` or in a terminal
        handler call `handle_exception(X(...), ctx)`; None if the block is not of that shape."""
        if not stmts:
            return None
        ck = (stmts[-1], len(stmts), self.model.terminal_handlers)
        if ck not in _SHAPE_CACHE:
            _SHAPE_CACHE[ck] = self._error_block_shape(stmts, fr)
        shape = _SHAPE_CACHE[ck]
        if shape is None:
            return None
        return self.model.classify(shape[0], fr.qual, shape[1], self)

    def _error_block_shape(self, stmts, fr):
        """(exception class key, ordinal) of an error block -- a function of the syntax only."""
        assigns = {}
        for st in stmts[:-1]:
            if isinstance(st, ast.Assign) and len(st.targets) == 1 and isinstance(st.targets[0], ast.Name):
                assigns[st.targets[0].id] = st.value
            elif isinstance(st, ast.Expr) and isinstance(st.value, (ast.Call, ast.Constant)):
                continue
            else:
                return None
        last = stmts[-1]
        cls = None
        if isinstance(last, ast.Raise) and last.exc is not None:
            cls = self.static_exc_class(last.exc, assigns, fr)
        elif isinstance(last, ast.Expr) and isinstance(last.value, ast.Call) and self.is_terminal_handler_call(last.value, fr) \
                and last.value.args:
            cls = self.static_exc_class(last.value.args[0], assigns, fr)
        if cls is None:
            return None
        return (cls, self.error_ordinal(last, cls, fr))

    def error_ordinal(self, last, cls, fr):
        """1-based ordinal of this error block among the error blocks of the same class in the function."""
        fn = fr.fn
        if fn is None:
            return 1
        ck = ('ord', id(fn))
        if ck not in self._nodekeys:
            sites = []
            for n in ast.walk(fn):
                body_lists = []
                if isinstance(n, (ast.If, ast.For, ast.While)):
                    body_lists = [n.body, n.orelse]
                elif isinstance(n, ast.Try):
                    body_lists = [n.body, n.orelse, n.finalbody] + [h.body for h in n.handlers]
                elif isinstance(n, (ast.With, ast.FunctionDef, ast.ExceptHandler)):
                    body_lists = [n.body]
                for bl in body_lists:
                    if bl:
                        sites.append(bl[-1])
            sites.sort(key=lambda x: (x.lineno, x.col_offset))
            self._nodekeys[ck] = sites
        n = 0
        for st in self._nodekeys[ck]:
            c = None
            if isinstance(st, ast.Raise) and st.exc is not None:
                c = self._site_class(st.exc, fn, fr)
            elif isinstance(st, ast.Expr) and isinstance(st.value, ast.Call) and st.value.args and \
                    self.is_terminal_handler_call(st.value, fr):
                c = self._site_class(st.value.args[0], fn, fr)
            if c == cls:
                n += 1
            if st is last:
                return max(n, 1)
        return max(n, 1)

    def _site_class(self, expr, fn, fr):
        if isinstance(expr, ast.Name):
            # nearest preceding assignment of that name in the function
            best = None
            for n in ast.walk(fn):
                if isinstance(n, ast.Assign) and len(n.targets) == 1 and isinstance(n.targets[0], ast.Name) \
                        and n.targets[0].id == expr.id and n.lineno <= expr.lineno:
                    if best is None or n.lineno > best.lineno:
                        best = n
            if best is None:
                return None
            expr = best.value
        return self.static_exc_class(expr, {}, fr)

    def chain_tags(self, orelse, fr):
        """Tags of the error block that ends an if/elif/.../else chain (empty if there is none)."""
        if not orelse:
            return [], False
        t = self.error_block_tag(orelse, fr)
        if t is not None:
            return [t], True
        if len(orelse) == 1 and isinstance(orelse[0], ast.If):
            tags, _ = self.chain_tags(orelse[0].orelse, fr)
            return tags, False
        return [], False

    def _effect_free(self, stmts, fr):
        """Only logging calls: the branch cannot influence the exception flow."""
        for st in stmts:
            if not (isinstance(st, ast.Expr) and isinstance(st.value, ast.Call)
                    and isinstance(st.value.func, ast.Attribute) and isinstance(st.value.func.value, ast.Name)
                    and fr.mod.imports.get(st.value.func.value.id, '').endswith('logging')):
                return False
        return True

    def _note_truth(self, test, t, fr):
        e, v = test, t
        while isinstance(e, ast.UnaryOp) and isinstance(e.op, ast.Not):
            e, v = e.operand, not v
        if isinstance(e, (ast.Name, ast.Attribute)):
            src = ast.unparse(e)
            if v:
                fr.falsy.discard(src)
            else:
                fr.falsy.add(src)

    def _named_errors_in(self, stmts, fr):
        """Directable error tags of the error blocks nested (syntactically) in a statement list."""
        ck = ('named', id(stmts[0]) if stmts else 0)
        if ck in self._nodekeys:
            return self._nodekeys[ck]
        out = set()
        for st in stmts:
            for n in ast.walk(st):
                if isinstance(n, ast.If):
                    for bl in (n.body, n.orelse):
                        t = self.error_block_tag(bl, fr) if bl else None
                        if t is not None and t in self.model.directable:
                            out.add(t)
        self._nodekeys[ck] = out
        return out

    def s_If(self, s, fr):
        if not s.orelse and self._effect_free(s.body, fr):
            self.eval(s.test, fr)
            return
        t = self.truth(self.eval(s.test, fr))
        if t is None:
            tb = self.error_block_tag(s.body, fr)
            tags, direct = self.chain_tags(s.orelse, fr)
            if tb is not None:
                t = self.direct(tb)
                if t is None:
                    t = self.oracle.decide(self.nodekey(s, fr))
                    if t:
                        self.opaque_errors.append(tb)
            elif tags:
                hit = [self.direct(x) for x in tags]
                if any(h is True for h in hit):
                    t = False
                elif direct and all(h is False for h in hit):
                    t = True
                elif direct:
                    t = self.oracle.decide(self.nodekey(s, fr))
                    if not t:
                        self.opaque_errors.extend(x for x, h in zip(tags, hit) if h is None)
        if t is None:
            # a named error condition of the state that is checked inside one arm only: the condition holding
            # means that the execution gets to that check
            a, b = self._named_errors_in(s.body, fr) & self.state, self._named_errors_in(s.orelse, fr) & self.state
            if a and not b:
                t = True
            elif b and not a:
                t = False
        if t is None:
            t = self.oracle.decide(self.nodekey(s, fr))
        self._note_truth(s.test, t, fr)
        self.exec_block(s.body if t else s.orelse, fr)

    def s_While(self, s, fr):
        it = 0
        while True:
            t = self.truth(self.eval(s.test, fr))
            if t is None:
                t = False if it >= 1 else self.oracle.decide(self.nodekey(s, fr))
            elif t and it >= 2:
                raise Unsupported('loop with a constant true condition does not terminate abstractly in %s' % fr.qual)
            if not t:
                self.exec_block(s.orelse, fr)
                return
            it += 1
            try:
                self.exec_block(s.body, fr)
            except _Break:
                return
            except _Continue:
                continue

    def s_For(self, s, fr):
        itv = self.eval(s.iter, fr)
        if isinstance(itv, SeqV):
            items = itv.items
        else:
            items = [UNKNOWN] if self.oracle.decide(self.nodekey(s, fr)) else []
        for x in items:
            self.bind_target(s.target, x, fr)
            try:
                self.exec_block(s.body, fr)
            except _Break:
                return
            except _Continue:
                continue
        self.exec_block(s.orelse, fr)

    def s_With(self, s, fr):
        for it in s.items:
            v = self.eval(it.context_expr, fr)
            if it.optional_vars is not None:
                self.bind_target(it.optional_vars, UNKNOWN if not isinstance(v, (InstV, Special)) else v, fr)
        self.exec_block(s.body, fr)

    def handler_matches(self, exc, h, fr):
        if h.type is None:
            return True
        keys = self._class_keys(self.eval(h.type, fr))
        if keys is None:
            self.note('except clause %s in %s not resolved: assumed not to match' % (ast.unparse(h.type), fr.qual))
            return False
        if exc.cls == '?unknown':
            return any(k in ('builtins.Exception', 'builtins.BaseException') for k in keys)
        return any(self.h.is_subclass(exc.cls, k) for k in keys)

    def s_Try(self, s, fr):
        try:
            try:
                self.exec_block(s.body, fr)
            except RaiseSignal as r:
                for h in s.handlers:
                    if self.handler_matches(r.exc, h, fr):
                        if h.name:
                            fr.env[h.name] = r.exc
                        self.exc_stack.append(r.exc)
                        try:
                            self.exec_block(h.body, fr)
                        finally:
                            self.exc_stack.pop()
                        break
                else:
                    raise
            else:
                self.exec_block(s.orelse, fr)
        finally:
            if s.finalbody:
                self.exec_block(s.finalbody, fr)


class Frame:
    def __init__(self, mod, cls, fn, qual, closure=None):
        self.mod, self.cls, self.fn, self.qual, self.closure = mod, cls, fn, qual, closure
        self.env = {}
        self.falsy = set()            # source text of expressions known to be falsy on this path


_SHAPE_CACHE = {}
_GEN_CACHE = {}


def _is_generator(fn):
    if fn not in _GEN_CACHE:
        _GEN_CACHE[fn] = _is_generator_uncached(fn)
    return _GEN_CACHE[fn]


def _is_generator_uncached(fn):
    stack = list(fn.body)
    while stack:
        n = stack.pop()
        if isinstance(n, (ast.Yield, ast.YieldFrom)):
            return True
        if isinstance(n, (ast.FunctionDef, ast.Lambda, ast.ClassDef, ast.AsyncFunctionDef)):
            continue
        stack.extend(ast.iter_child_nodes(n))
    return False


# ---------------------------------------------------------------------------------- the driver
def describe_outcome(interp, kind, value):
    h, model = interp.h, interp.model
    if kind == 'return':
        if isinstance(value, SeqV) and not value.items:
            return ('return', 'empty_' + value.kind)
        if isinstance(value, Const) and value.value is None:
            return ('return', 'none')
        return ('return', 'value')
    code = value.attrs.get('<code>')
    if code is None and value.cls != '?unknown':
        # a repository exception class that imitates an RpcError: ask its real `code()` method
        ci, k, n = interp.class_attr(value.cls, 'code')
        if k == 'method':
            try:
                code = interp.invoke(FuncV(ci.mod, ci, n, bound=value), [], {}, None)
            except (RaiseSignal, _Return):
                code = None
    cname = code.name.rsplit('.', 1)[1] if isinstance(code, Ext) else (None if code is None else '?')
    return ('raise', value.cls, cname)


def enumerate_paths(model, hier, entry, state, mode):
    """entry(interp) -> abstract value.  Returns the list of `Path`s of the entry point in `state`/`mode`."""
    work, out = [[]], []
    while work:
        prefix = work.pop()
        o = Oracle(prefix)
        it = Interp(model, hier, state, mode, o)
        model.setup_globals(it)
        exc = None
        v = None
        try:
            v = entry(it)
            outcome = describe_outcome(it, 'return', v)
        except RaiseSignal as r:
            outcome = describe_outcome(it, 'raise', r.exc)
            exc = r.exc
        except _Return as r:
            outcome = describe_outcome(it, 'return', r.value)
        out.append(Path(outcome, tuple(it.writes), dict(o.decisions), set(it.tags_seen), list(it.fired), set(it.notes),
                        it.opaque_errors, o.order, exc))
        out[-1].rpcs = set(it.rpcs)
        out[-1].last_return = it.last_return
        if outcome[0] == 'return' and isinstance(v, ExtInst):
            out[-1].ret_type = v.cls_name
        work.extend(o.pending)
        if len(out) > model.max_paths:
            raise PathLimit('more than %d paths' % model.max_paths)
    return out


def reduce_paths(paths):
    """Drop decisions that do not influence what a caller can observe (outcome, writes, unnamed error conditions).

    The paths of one enumeration form an ordered binary decision tree (the decision taken at position i is a
    function of the decisions before it).  A node whose two subtrees are identical is replaced by its subtree:
    the decision is irrelevant given the prefix.  The mapping "full decision vector -> observable" is unchanged.
    """
    if len(paths) <= 1:
        for p in paths:
            p.order, p.decisions = [], {}
        return paths

    def build(ps, depth):
        # all ps agree on the first `depth` decisions
        if len(ps) == 1 and len(ps[0].order) <= depth:
            return ('leaf', ps[0])
        keys = {p.order[depth][0] if len(p.order) > depth else None for p in ps}
        if len(keys) != 1 or None in keys:
            return ('opaque', ps)          # not a proper tree (should not happen): keep as is
        k = keys.pop()
        t = [p for p in ps if p.order[depth][1]]
        f = [p for p in ps if not p.order[depth][1]]
        if not t or not f:
            return build(t or f, depth + 1) if False else ('node1', k, bool(t), build(t or f, depth + 1))
        return ('node', k, build(t, depth + 1), build(f, depth + 1))

    def sig(n):
        if n[0] == 'leaf':
            return ('L', n[1].observable())
        if n[0] == 'opaque':
            return ('O', tuple(sorted((tuple(p.order), p.observable()) for p in n[1])))
        if n[0] == 'node1':
            return ('1', n[1], n[2], sig(n[3]))
        return ('N', n[1], sig(n[2]), sig(n[3]))

    def red(n):
        if n[0] in ('leaf', 'opaque'):
            return n
        if n[0] == 'node1':
            return ('node1', n[1], n[2], red(n[3]))
        a, b = red(n[2]), red(n[3])
        if sig(a) == sig(b):
            merge_info(a, b)
            return a
        return ('node', n[1], a, b)

    def leaves(n):
        if n[0] == 'leaf':
            return [n[1]]
        if n[0] == 'opaque':
            return list(n[1])
        if n[0] == 'node1':
            return leaves(n[3])
        return leaves(n[2]) + leaves(n[3])

    def merge_info(a, b):
        la, lb = leaves(a), leaves(b)
        for x, y in zip(la, lb):
            x.tags_seen |= y.tags_seen
            x.notes |= y.notes

    out = []

    def emit(n, order):
        if n[0] == 'leaf':
            p = n[1]
            p.order = list(order)
            p.decisions = dict(order)
            out.append(p)
        elif n[0] == 'opaque':
            out.extend(n[1])
        elif n[0] == 'node1':
            emit(n[3], order + [(n[1], n[2])])
        else:
            emit(n[2], order + [(n[1], True)])
            emit(n[3], order + [(n[1], False)])
    emit(red(build(list(paths), 0)), [])
    return out
