"""pyvc.mdmodel -- what the engine needs to execute the REAL `common.Namespace` / `common.Metadata` code
(vizier/_src/pyvizier/shared/common.py) symbolically.  Nothing of the two classes themselves is modelled: only the
library behaviour they inherit or generate:

  * tuples of str of *unknown length* (`SymTuple`, a z3 `Seq(Str)` term): `tuple(x)`, `+`, `==`, `len`, slicing -- so
    that namespace contracts are proved for namespaces of every depth;
  * attrs-generated `Namespace.__attrs_init__` / `__eq__` (derived from the single field `_as_tuple`, eq=True);
    iteration over a Namespace (collections.abc.Sequence mixin: the components in order);
  * `_MetadataSingleNameSpace` = a plain dict subclass with an empty body (checked on the AST), and
    `collections.defaultdict(_MetadataSingleNameSpace)` keyed by Namespace *value* (hash/eq of the tuple);
  * collections.abc.Mapping mixin methods of Metadata (`items/keys/values/__contains__`) defined from
    `__iter__` + `__getitem__` exactly as CPython's `_collections_abc.Mapping` does, and `dict.update(mapping)`.
"""
import ast

import z3

from . import engine as E
from . import models as M
from . import protomodel as pm
from .engine import Obj, PyRaise, Unsupported, Builtin, FuncVal, eq_values
from .protomodel import Str
from .source import ClassInfo, ModuleInfo

COMMON = 'vizier._src.pyvizier.shared.common'
TupStr = z3.SeqSort(Str)


# ------------------------------------------------------------------------------------------ symbolic tuples of str
class SymTuple:
    def __init__(self, term, spine=None):
        self.term = term
        self.spine = spine           # the python tuple when the length is concrete (kept for iteration)

    def __eq__(self, other):           # python `==` inside the engine's eq_values -> z3 Bool
        o = seq_of(other)
        if o is None:
            return False
        return self.term == o

    def __ne__(self, other):
        r = self.__eq__(other)
        return (not r) if isinstance(r, bool) else z3.Not(r)

    def __hash__(self):
        return id(self)

    def __repr__(self):
        return '<symtuple %s>' % self.term


def seq_of(v):
    """python tuple of str/Str terms | SymTuple -> z3 Seq(Str) term (None if not a tuple of strings)."""
    if isinstance(v, SymTuple):
        return v.term
    if isinstance(v, (tuple, list)):
        parts = []
        for x in v:
            if isinstance(x, str):
                parts.append(z3.Unit(pm.str_lit(x)))
            elif z3.is_expr(x) and x.sort() == Str:
                parts.append(z3.Unit(x))
            else:
                return None
        if not parts:
            return z3.Empty(TupStr)
        return z3.Concat(*parts) if len(parts) > 1 else parts[0]
    return None


def tuple_eq(a, b):
    """== of two tuples of str where either may be symbolic-length."""
    if isinstance(a, SymTuple) or isinstance(b, SymTuple):
        sa, sb = seq_of(a), seq_of(b)
        if sa is None or sb is None:
            return False
        return sa == sb
    return eq_values(tuple(a), tuple(b))


def fresh_tuple(run, name):
    return SymTuple(run.fresh(name, TupStr))


_orig_tuple = M.BUILTINS['tuple'].fn


def _b_tuple(it, args, kw):
    if args:
        v = args[0]
        if isinstance(v, SymTuple):
            return v
        if is_namespace(v):
            return v.attrs['_as_tuple']
    return _orig_tuple(it, args, kw)


M.BUILTINS['tuple'] = Builtin('tuple', _b_tuple)


def _binop(it, op, l, r, inplace):
    if isinstance(op, ast.Add) and (isinstance(l, SymTuple) or isinstance(r, SymTuple)):
        a, b = seq_of(l), seq_of(r)
        if a is None or b is None:
            raise Unsupported('+ on a symbolic tuple and %r' % (r if isinstance(l, SymTuple) else l,))
        return SymTuple(z3.Concat(a, b))
    return M.MISSING


def _len(it, v):
    if isinstance(v, SymTuple):
        return z3.Length(v.term)
    return M.MISSING


def _subscript(it, base, idx):
    if isinstance(base, SymTuple):
        n = z3.Length(base.term)
        if isinstance(idx, slice):
            if idx.step is not None:
                raise Unsupported('extended slice of a symbolic tuple')
            lo = idx.start if idx.start is not None else 0
            hi = idx.stop if idx.stop is not None else n
            lo = lo if z3.is_expr(lo) else z3.IntVal(lo)
            hi = hi if z3.is_expr(hi) else z3.IntVal(hi)
            if not it.truth(z3.And(lo >= 0, hi >= 0)):
                raise Unsupported('negative slice bound on a symbolic tuple')
            lo2 = z3.If(lo > n, n, lo)
            hi2 = z3.If(hi > n, n, hi)
            return SymTuple(z3.Extract(base.term, lo2, z3.If(hi2 > lo2, hi2 - lo2, 0)))
        i = idx if z3.is_expr(idx) else z3.IntVal(idx)
        if not it.truth(z3.And(i >= 0, i < n)):
            raise PyRaise(it.make_exc('IndexError', ['tuple index out of range']))
        return base.term[i]
    return M.MISSING


def _iterate(it, v):
    if is_namespace(v):
        v = v.attrs['_as_tuple']
    if isinstance(v, SymTuple):
        if v.spine is not None:
            return list(v.spine)
        raise Unsupported('iteration over a tuple of symbolic length')
    return M.MISSING


# ------------------------------------------------------------------------------------------ Namespace (attrs-generated parts)
def ns_class():
    return ModuleInfo.get(COMMON).classes['Namespace']


def is_namespace(v):
    return isinstance(v, Obj) and isinstance(v.cls, ClassInfo) and v.cls.name == 'Namespace' and v.cls.mod.dotted == COMMON


def _ns_attrs_init(it, args, kw):
    """attrs-generated __attrs_init__(self, as_tuple): the single field `_as_tuple` (the leading underscore is stripped
    from the init argument name by attrs)."""
    cls = ns_class()
    fields = [n for n in cls.field_order if n in cls.annotations]
    if fields != ['_as_tuple']:
        raise Unsupported('Namespace no longer has the single attrs field _as_tuple: %r' % (fields,))
    o = args[0]
    v = args[1] if len(args) > 1 else kw['as_tuple']
    if isinstance(v, tuple):
        t = seq_of(v)
        if t is None:
            raise Unsupported('Namespace components must be strings: %r' % (v,))
        v = SymTuple(t, spine=v)     # uniform representation: namespaces of known and of unknown depth mix freely
    o.attrs['_as_tuple'] = v
    return None


E.MODELS[COMMON + ':Namespace.__attrs_init__'] = _ns_attrs_init


def _attrs_eq(it, o, other):
    if is_namespace(o):
        deco = ' '.join(o.cls.decorators).replace(' ', '')
        if 'eq=True' not in deco:
            raise Unsupported('Namespace is no longer declared eq=True')
        if not is_namespace(other):
            return False
        return tuple_eq(o.attrs['_as_tuple'], other.attrs['_as_tuple'])
    return M.MISSING


def make_namespace(it, tup):
    """Namespace(tup) through the real __init__."""
    return M.construct(it, ns_class(), [tup], {})


# ------------------------------------------------------------------------------------------ Metadata: stores keyed by Namespace value
class NsDict(M.PyDict):
    """dict keyed by Namespace *value* (attrs eq=True, hash=True on the tuple of components)."""

    def find(self, it, k):
        for idx, (ek, _) in enumerate(self.items_):
            if is_namespace(k) and is_namespace(ek):
                c = tuple_eq(k.attrs['_as_tuple'], ek.attrs['_as_tuple'])
            else:
                c = eq_values(k, ek)
            if isinstance(c, bool):
                if c:
                    return idx
            elif it.truth(c):
                return idx
        return None


def _single_ns_class():
    return ModuleInfo.get(COMMON).classes.get('_MetadataSingleNameSpace')


def _single_ns_ctor(it, args, kw):
    c = _single_ns_class()
    if c is None or c.methods or not any(b.startswith('Dict[') or b in ('dict', 'Dict') for b in c.bases):
        raise Unsupported('_MetadataSingleNameSpace is no longer a plain dict subclass')
    return M.b_dict(it, args, kw)


E.MODELS[COMMON + ':_MetadataSingleNameSpace'] = _single_ns_ctor

_prev_defaultdict = E.EXTERNAL['collections.defaultdict']


def _defaultdict(it, args, kw):
    fac = args[0] if args else None
    if isinstance(fac, ClassInfo) and fac.mod.dotted == COMMON and fac.name == '_MetadataSingleNameSpace':
        return NsDict(default_factory=fac)
    return _prev_defaultdict.fn(it, args, kw)


E.EXTERNAL['collections.defaultdict'] = Builtin('collections.defaultdict', _defaultdict)


def is_metadata(v):
    return isinstance(v, Obj) and isinstance(v.cls, ClassInfo) and v.cls.name == 'Metadata' and v.cls.mod.dotted == COMMON


def _md_method(o, name):
    c, m = E.find_method(o.cls, name)
    if m is None:
        raise Unsupported('Metadata.%s not found' % name)
    return FuncVal(c.mod, m, c)


def md_keys(it, o):
    return M.iterate(it, it.invoke(_md_method(o, '__iter__'), [o], {}))


def _md_items(it, args, kw):
    o = args[0]
    return M.DictView([(k, it.invoke(_md_method(o, '__getitem__'), [o, k], {})) for k in md_keys(it, o)])


def _md_keys(it, args, kw):
    return M.DictView(md_keys(it, args[0]))


def _md_values(it, args, kw):
    o = args[0]
    return M.DictView([it.invoke(_md_method(o, '__getitem__'), [o, k], {}) for k in md_keys(it, o)])


def md_contains(it, o, key):
    """Mapping.__contains__: try self[key] except KeyError."""
    try:
        it.invoke(_md_method(o, '__getitem__'), [o, key], {})
        return True
    except PyRaise as pr:
        if E.is_subclass(pr.exc.cls, E.BuiltinClass('KeyError')):
            return False
        raise


for _n, _f in (('items', _md_items), ('keys', _md_keys), ('values', _md_values)):
    E.MODELS[COMMON + ':Metadata.' + _n] = _f
E.MODELS[COMMON + ':Metadata.__contains__'] = lambda it, args, kw: md_contains(it, args[0], args[1])


def _getattr(it, v, a):
    if isinstance(v, M.PyDict):
        if a == '__getitem__':
            return Builtin('dict.__getitem__', lambda it_, args, kw: v.get(it_, args[0]))
        if a == '__setitem__':
            return Builtin('dict.__setitem__', lambda it_, args, kw: v.set(it_, args[0], args[1]))
        if a == '__contains__':
            return Builtin('dict.__contains__', lambda it_, args, kw: v.find(it_, args[0]) is not None)
        if a == '__delitem__':
            return Builtin('dict.__delitem__', lambda it_, args, kw: M.delitem(it_, v, args[0]))
    return M.MISSING


def _contains(it, container, x):
    if is_metadata(container):
        return md_contains(it, container, x)
    return M.MISSING


def _mapping_items(it, src):
    if is_metadata(src):
        return [(k, it.invoke(_md_method(src, '__getitem__'), [src, k], {})) for k in md_keys(it, src)]
    return M.MISSING


def _chain(name, fn):
    prev = getattr(M, name)

    def hook(*a):
        r = fn(*a)
        if r is not M.MISSING:
            return r
        return prev(*a)
    setattr(M, name, hook)


_chain('value_getattr_hook', _getattr)
_chain('binop_hook', _binop)
_chain('len_hook', _len)
_chain('subscript_hook', _subscript)
_chain('iterate_hook', _iterate)
_chain('attrs_eq_hook', _attrs_eq)
_chain('contains_hook', _contains)
_chain('mapping_items_hook', _mapping_items)

TRUST = ['attrs-generated Namespace.__attrs_init__/__eq__ (single field _as_tuple, eq=True) and collections.abc.Sequence iteration of a Namespace',
         'collections.abc.Mapping mixin methods of Metadata (items/keys/values/__contains__) and dict.update(mapping) as in CPython',
         'collections.defaultdict / dict keyed by Namespace value (hash/eq of the component tuple)',
         'tuples of str of unknown length as z3 Seq(Str) (concatenation, length, slicing, equality)']
