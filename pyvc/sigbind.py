"""Signature conformance of call sites against the *real* signature of the callee (read from the AST).

A contract application must bind: `bind(sig, npos, kwnames)` implements CPython's argument binding
rules (positional-only, positional-or-keyword, *args, keyword-only, **kwargs, defaults).  Signatures are
read from `def`s, from `__init__` through the repo MRO, or - for attrs classes without an explicit
`__init__` - from the attrs field declarations (init=False skipped, kw_only, default/factory, leading
underscore stripped: documented attrs behaviour, assumed).
"""
import ast

from . import source


class Unsupported(Exception):
    pass


class Sig:
    def __init__(self, name):
        self.name = name
        self.posonly, self.pos, self.kwonly = [], [], []     # lists of (name, has_default)
        self.vararg = self.kwarg = None

    def describe(self):
        ps = ['%s%s' % (n, '=..' if d else '') for n, d in self.posonly]
        if self.posonly:
            ps.append('/')
        ps += ['%s%s' % (n, '=..' if d else '') for n, d in self.pos]
        if self.vararg:
            ps.append('*' + self.vararg)
        elif self.kwonly:
            ps.append('*')
        ps += ['%s%s' % (n, '=..' if d else '') for n, d in self.kwonly]
        if self.kwarg:
            ps.append('**' + self.kwarg)
        return '%s(%s)' % (self.name, ', '.join(ps))


def sig_of_def(fn, drop_first=False, name=None):
    s = Sig(name or fn.name)
    a = fn.args
    allpos = list(a.posonlyargs) + list(a.args)
    nd = len(a.defaults)
    flags = [False] * (len(allpos) - nd) + [True] * nd
    items = [(p.arg, f) for p, f in zip(allpos, flags)]
    npo = len(a.posonlyargs)
    s.posonly, s.pos = items[:npo], items[npo:]
    if drop_first:
        if s.posonly:
            s.posonly = s.posonly[1:]
        elif s.pos:
            s.pos = s.pos[1:]
    s.vararg = a.vararg.arg if a.vararg else None
    s.kwarg = a.kwarg.arg if a.kwarg else None
    s.kwonly = [(p.arg, d is not None) for p, d in zip(a.kwonlyargs, a.kw_defaults)]
    return s


def bind(sig, npos, kwnames):
    """-> (ok, reason, mapping param->('pos',i)|('kw',name)).  CPython binding rules."""
    mapping = {}
    params = [n for n, _ in sig.posonly] + [n for n, _ in sig.pos]
    if npos > len(params) and not sig.vararg:
        return False, ('too_many_positional', npos, len(params)), mapping
    for i in range(min(npos, len(params))):
        mapping[params[i]] = ('pos', i)
    posonly_names = {n for n, _ in sig.posonly}
    kwonly_names = {n for n, _ in sig.kwonly}
    for k in kwnames:
        if k in mapping:
            return False, ('multiple_values', k), mapping
        if (k in params and k not in posonly_names) or k in kwonly_names:
            mapping[k] = ('kw', k)
        elif sig.kwarg:
            mapping.setdefault('**' + sig.kwarg, []).append(k)
        else:
            return False, ('unexpected_keyword', k), mapping
    for n, d in sig.posonly + sig.pos + sig.kwonly:
        if not d and n not in mapping:
            return False, ('missing_required', n), mapping
    return True, None, mapping


# ------------------------------------------------------------------ resolution of callee expressions
def strip_subscript(e):
    while isinstance(e, ast.Subscript):
        e = e.value
    return e


def class_mro(mod, ci, depth=0):
    """Repo classes along the (linearised, depth-first) base chain: [(ModuleInfo, ClassInfo)]."""
    out = [(mod, ci)]
    if depth > 8:
        return out
    for b in ci.base_nodes:
        b = strip_subscript(b)
        r = source.resolve_alias(mod, ast.unparse(b))
        if r is None:
            continue
        m2, q = r
        try:
            c2 = m2.find_class(q)
        except (KeyError, IndexError):
            continue
        for x in class_mro(m2, c2, depth + 1):
            if all(x[1] is not y[1] for y in out):
                out.append(x)
    return out


def find_method(mod, ci, name):
    for m2, c2 in class_mro(mod, ci):
        if name in c2.methods:
            return m2, c2, c2.methods[name]
    return None


_ATTRS_DECOS = ('attr.define', 'attrs.define', 'attr.s', 'attr.attrs', 'attrs.frozen', 'attr.frozen', 'attr.mutable', 'attrs.mutable')
_ATTRS_FIELD = ('attr.field', 'attrs.field', 'attr.ib', 'attr.attrib')


def is_attrs_class(ci):
    return any(d.split('(')[0] in _ATTRS_DECOS for d in ci.decorators)


def _deco_kw(ci, key):
    for d in ci.node.decorator_list:
        if isinstance(d, ast.Call) and ast.unparse(d.func) in _ATTRS_DECOS:
            for k in d.keywords:
                if k.arg == key and isinstance(k.value, ast.Constant):
                    return k.value.value
    return None


def attrs_fields(ci):
    """[(field_name, init, kw_only, has_default)] in declaration order (this class only)."""
    out = []
    auto = _deco_kw(ci, 'auto_attribs')
    cls_kw_only = bool(_deco_kw(ci, 'kw_only'))
    for n in ci.node.body:
        name = value = None
        annotated = False
        if isinstance(n, ast.AnnAssign) and isinstance(n.target, ast.Name):
            name, value, annotated = n.target.id, n.value, True
        elif isinstance(n, ast.Assign) and len(n.targets) == 1 and isinstance(n.targets[0], ast.Name):
            name, value = n.targets[0].id, n.value
        if name is None:
            continue
        v = value
        while isinstance(v, ast.Tuple) and len(v.elts) == 1:
            v = v.elts[0]
        is_field = isinstance(v, ast.Call) and ast.unparse(v.func) in _ATTRS_FIELD
        if not is_field:
            if annotated and auto is not False:
                if 'ClassVar' in ast.unparse(n.annotation):
                    continue
                out.append((name, True, cls_kw_only, value is not None))
            continue
        init, kw_only, has_default = True, cls_kw_only, False
        for k in v.keywords:
            if k.arg == 'init' and isinstance(k.value, ast.Constant):
                init = bool(k.value.value)
            elif k.arg == 'kw_only' and isinstance(k.value, ast.Constant):
                kw_only = bool(k.value.value)
            elif k.arg in ('default', 'factory'):
                has_default = True
        out.append((name, init, kw_only, has_default))
    return out


def sig_of_class(mod, ci):
    """Signature of `C(...)`: explicit __init__ along the repo MRO, else attrs-generated."""
    for m2, c2 in class_mro(mod, ci):
        if '__init__' in c2.methods:
            return sig_of_def(c2.methods['__init__'], drop_first=True, name=ci.qualname), (m2, c2, '__init__')
        if is_attrs_class(c2) and _deco_kw(c2, 'init') is not False:
            s = Sig(ci.qualname)
            for m3, c3 in reversed(class_mro(m2, c2)):
                if not is_attrs_class(c3):
                    continue
                for name, init, kw_only, has_default in attrs_fields(c3):
                    if not init:
                        continue
                    pn = name.lstrip('_')
                    (s.kwonly if kw_only else s.pos).append((pn, has_default))
            return s, (m2, c2, '<attrs-generated __init__>')
    raise Unsupported('no __init__ found for %s in the repo MRO' % ci.qualname)


def resolve_callable(mod, expr, local_imports=None):
    """callee expression -> (Sig, description, (ModuleInfo, qualname)) for repo functions / classes / classmethods."""
    src = ast.unparse(strip_subscript(expr))
    r = _resolve(mod, src, local_imports or {})
    if r is None:
        raise Unsupported('cannot resolve callee %s' % src)
    m2, q = r
    parts = q.split('.')
    if parts[0] in m2.funcs and len(parts) == 1:
        return sig_of_def(m2.funcs[q]), '%s.%s' % (m2.dotted, q), (m2, q)
    # class or class.method
    try:
        ci = m2.find_class(q)
        s, where = sig_of_class(m2, ci)
        rec = (where[0], where[1].qualname + '.__init__') if where[2] == '__init__' else None
        return s, '%s.%s [%s.%s]' % (m2.dotted, q, where[1].qualname, where[2]), rec
    except (KeyError, IndexError):
        pass
    try:
        ci = m2.find_class('.'.join(parts[:-1]))
    except (KeyError, IndexError):
        raise Unsupported('cannot resolve %s in %s' % (q, m2.dotted))
    fm = find_method(m2, ci, parts[-1])
    if fm is None:
        raise Unsupported('method %s not found along the MRO of %s' % (parts[-1], ci.qualname))
    m3, c3, fn = fm
    decos = [ast.unparse(d) for d in fn.decorator_list]
    drop = 'staticmethod' not in decos        # classmethod via class / plain function via class: unbound plain methods are not used as factories
    if 'classmethod' not in decos and 'staticmethod' not in decos:
        raise Unsupported('%s is an instance method used unbound' % q)
    return sig_of_def(fn, drop_first=drop, name=q), '%s.%s.%s' % (m3.dotted, c3.qualname, fn.name), (m3, c3.qualname + '.' + fn.name)


def _resolve(mod, src, local_imports):
    head = src.split('.')[0]
    if head in local_imports:
        target = local_imports[head]
        rest = src.split('.')[1:]
        cand = target
        while True:
            if source.ModuleInfo.exists(cand):
                m2 = source.ModuleInfo.get(cand)
                remaining = [r for r in target[len(cand):].lstrip('.').split('.') if r] + rest
                return source._walk(m2, remaining, 0)
            if '.' not in cand:
                return None
            cand = cand.rsplit('.', 1)[0]
    return source.resolve_alias(mod, src)


def local_import_table(stmts):
    t = {}
    for n in stmts:
        if isinstance(n, ast.ImportFrom) and not n.level:
            for a in n.names:
                t[a.asname or a.name] = (n.module or '') + '.' + a.name
        elif isinstance(n, ast.Import):
            for a in n.names:
                if a.asname:
                    t[a.asname] = a.name
    return t
