"""pyvc.ckit -- small kit shared by contract checks that combine an *unbounded proof query* (symbolic sizes,
quantified invariants) with a *bounded model query* (DESIGN.md 2.5): the same real function is executed by the same
engine at small concrete sizes (loops unrolled, no quantifiers) only to obtain a definite `sat` and replayable inputs.

Verdict rule implemented by `Contract.finalize`:
    every instance `unsat`                                   -> proved
    bounded model query `sat` (+ native replay)              -> violated (reproduced = result of the replay)
    proof query `sat` without a bounded model                -> violated, no failing input
    otherwise (`unknown`, timeouts)                          -> undecided
Unsupported syntax on any path -> checker error (the bounded query still runs: a violation dominates).
"""
import json
import os
import subprocess
import time

import z3

from . import engine as E
from . import models as M
from . import protomodel as pm
from . import report, source

VENV_PY = '/venv/bin/python'
VERIF = report.VERIF


# ------------------------------------------------------------------------------------------ quantifier helpers
def conc(n):
    """int value of a length term if it is concrete, else None."""
    if isinstance(n, int):
        return n
    s = z3.simplify(n)
    return s.as_long() if z3.is_int_value(s) else None


def QA(n, body, name='q', lo=0):
    """forall lo <= j < n. body(j)   (expanded when n is concrete)"""
    c = conc(n)
    if c is not None:
        cs = [body(z3.IntVal(j)) for j in range(lo, c)]
        return z3.And(*cs) if cs else z3.BoolVal(True)
    j = z3.Int(name + '!qa')
    return z3.ForAll([j], z3.Implies(z3.And(j >= lo, j < n), body(j)))


def QE(n, body, name='q', lo=0):
    """exists lo <= j < n. body(j)"""
    c = conc(n)
    if c is not None:
        cs = [body(z3.IntVal(j)) for j in range(lo, c)]
        return z3.Or(*cs) if cs else z3.BoolVal(False)
    j = z3.Int(name + '!qe')
    return z3.Exists([j], z3.And(j >= lo, j < n, body(j)))


def QA2(n, body, name='q'):
    """forall 0 <= i < j < n. body(i, j)"""
    c = conc(n)
    if c is not None:
        cs = [body(z3.IntVal(i), z3.IntVal(j)) for i in range(c) for j in range(i + 1, c)]
        return z3.And(*cs) if cs else z3.BoolVal(True)
    i, j = z3.Int(name + '!qi'), z3.Int(name + '!qj')
    return z3.ForAll([i, j], z3.Implies(z3.And(i >= 0, i < j, j < n), body(i, j)))


def same_fields_except(schema, a, b, skip):
    """field-wise equality of two packed messages of `schema` except the proto fields named in `skip`."""
    cs = [pm.accessor(schema, zn)(a) == pm.accessor(schema, zn)(b) for zn, _, _, f in pm.msg_layout(schema)
          if not (hasattr(f, 'name') and f.name in skip)]
    return z3.And(*cs) if cs else z3.BoolVal(True)


# ------------------------------------------------------------------------------------------ strings of a model
def concretize_strings(model, terms, order=None, ordered_terms=None, literals=None):
    """Map Str terms to python strings such that equal model values get equal strings and distinct values distinct
    strings; the values of `ordered_terms` (on which `order` = models.str_lt is a total order in the model, because the
    ground order axioms were asserted on them) are named so that python's order agrees with the model's.
    literals: {python str: term} keep their text."""
    import functools
    reps, seen = [], set()
    ordered = []
    for t in list(ordered_terms or []):
        v = model.eval(t, model_completion=True)
        if v.get_id() not in seen:
            seen.add(v.get_id())
            ordered.append(v)
    for t in terms:
        v = model.eval(t, model_completion=True)
        if v.get_id() not in seen:
            seen.add(v.get_id())
            reps.append(v)
    lit_of = {}
    for s, t in (literals or {}).items():
        lit_of[model.eval(t, model_completion=True).get_id()] = s
    if order is not None and ordered:
        def cmp(a, b):
            if z3.is_true(model.eval(order(a, b), model_completion=True)):
                return -1
            if z3.is_true(model.eval(order(b, a), model_completion=True)):
                return 1
            return 0
        ordered.sort(key=functools.cmp_to_key(cmp))
    names = {}
    for rank, v in enumerate(ordered):
        names[v.get_id()] = lit_of.get(v.get_id(), 's%02d' % rank)
    for rank, v in enumerate(reps):
        names[v.get_id()] = lit_of.get(v.get_id(), 'v%02d' % rank)
    return lambda t: names[model.eval(t, model_completion=True).get_id()]


# ------------------------------------------------------------------------------------------ replay
def run_replay(script, args, payload=None, timeout=240):
    """Run /verif/replay/<script> under /venv/bin/python; returns (dict parsed from the last JSON line | None, raw)."""
    envv = dict(os.environ)
    envv['VERIF_REPO'] = source.REPO
    envv.setdefault('JAX_PLATFORMS', 'cpu')
    try:
        p = subprocess.run([VENV_PY, os.path.join(VERIF, 'replay', script)] + list(args), input=json.dumps(payload) if payload is not None else '',
                           capture_output=True, text=True, timeout=timeout, env=envv, cwd=VERIF)
    except (OSError, subprocess.TimeoutExpired) as e:
        return None, 'replay failed to run: %r' % (e,)
    out = None
    for l in p.stdout.splitlines():
        l = l.strip()
        if l.startswith('{'):
            try:
                out = json.loads(l)
            except ValueError:
                pass
    return out, (p.stdout[-2000:] + '\n--- stderr ---\n' + p.stderr[-2000:])


class ReplayPool:
    """replay drivers started early, collected late (they take 2-4 s each to import the real packages)."""

    def __init__(self):
        self.procs, self.results = {}, {}

    def start(self, key, script, args, payload=None):
        envv = dict(os.environ)
        envv['VERIF_REPO'] = source.REPO
        envv.setdefault('JAX_PLATFORMS', 'cpu')
        try:
            p = subprocess.Popen([VENV_PY, os.path.join(VERIF, 'replay', script)] + list(args), stdin=subprocess.PIPE, stdout=subprocess.PIPE,
                                 stderr=subprocess.PIPE, text=True, env=envv, cwd=VERIF)
            if payload is not None:
                p.stdin.write(json.dumps(payload))
            p.stdin.close()
            self.procs[key] = p
        except OSError as e:
            self.results[key] = (None, 'cannot start replay: %r' % (e,))

    def get(self, key, timeout=240):
        if key in self.results:
            return self.results[key]
        p = self.procs.pop(key)
        try:
            p.wait(timeout=timeout)
            so, se = p.stdout.read(), p.stderr.read()
        except subprocess.TimeoutExpired:
            p.kill()
            self.results[key] = (None, 'replay timed out')
            return self.results[key]
        out = None
        for l in so.splitlines():
            l = l.strip()
            if l.startswith('{'):
                try:
                    out = json.loads(l)
                except ValueError:
                    pass
        self.results[key] = (out, so[-2000:] + '\n--- stderr ---\n' + se[-2000:])
        return self.results[key]


# ------------------------------------------------------------------------------------------ solver calls with a hard deadline
def check_with_deadline(solver, timeout_ms):
    """solver.check() that really stops: z3's own `timeout` is only polled at certain points (quantifier instantiation can overrun
    it by minutes), so a watchdog interrupts the context at 1.5 x the budget.  An interrupted check is `unknown` (undecided)."""
    import threading
    solver.set('timeout', int(timeout_ms))
    lock, state = threading.Lock(), {'done': False}
    ctx = solver.ctx                      # the closure must not keep the solver alive (z3 objects have to die before their context)

    def fire():
        with lock:
            if not state['done']:
                ctx.interrupt()
    timer = threading.Timer(timeout_ms * 1.5 / 1000.0 + 0.5, fire)
    timer.daemon = True
    timer.start()
    try:
        r = solver.check()
    except z3.Z3Exception:
        r = z3.unknown
    finally:
        with lock:
            state['done'] = True
        timer.cancel()
        timer.join()
        timer.function = None
    return r


def discharge(run, formula, npc=None, nax=None, timeout_ms=10000, extra=()):
    """engine.discharge with the hard deadline: pc[:npc] & axioms[:nax] & extra |= formula -> ('unsat'|'sat'|'unknown', model|reason, s)"""
    t0 = time.time()
    s = z3.Solver()
    for c in (run.pc if npc is None else run.pc[:npc]):
        s.add(c)
    for c in (run.axioms if nax is None else run.axioms[:nax]):
        s.add(c)
    for c in extra:
        s.add(c)
    lits = pm.all_str_lits()
    if len(lits) > 1:
        s.add(z3.Distinct(*lits))
    s.add(z3.Not(formula) if not isinstance(formula, bool) else z3.BoolVal(not formula))
    r = check_with_deadline(s, timeout_ms)
    dt = time.time() - t0
    if r == z3.unsat:
        return 'unsat', None, dt
    if r == z3.sat:
        return 'sat', s.model(), dt
    try:
        why = s.reason_unknown()
    except z3.Z3Exception:
        why = 'interrupted'
    return 'unknown', why, dt


def arm_deadline(chk, seconds):
    """Safety net for the supervised child process: if the check is still running after `seconds` (a solver call that ignores both its
    timeout and the interrupt), report what was decided so far plus a checker error and leave.  Violations already recorded still
    dominate the exit code; a hang alone is never a verdict."""
    import sys
    import threading
    if os.environ.get('PYVC_CHILD') != '1':
        return None

    def expire():
        try:
            chk.error('%s.wall_clock' % chk.pid, 'the check did not finish within %d s (a solver call did not return); obligations decided so far are reported' % seconds)
            rc = chk.finish(min_obligations=0)
        except BaseException:       # noqa
            rc = 3
        sys.stdout.flush()
        sys.stderr.flush()
        os._exit(rc if rc in (1, 3) else 3)
    t = threading.Timer(seconds, expire)
    t.daemon = True
    t.start()
    return t


def leave(rc):
    """End of a check run as the supervised child process (pyvc.check): leave without interpreter teardown.  After a solver call was
    interrupted by the watchdog, z3's context destructor can hang or crash at exit (observed: minutes); the verdict is already written
    and printed at this point, so nothing is lost."""
    import sys
    if os.environ.get('PYVC_CHILD') == '1':
        sys.stdout.flush()
        sys.stderr.flush()
        os._exit(rc)
    return rc


# ------------------------------------------------------------------------------------------ contracts
class Inst:
    __slots__ = ('verdict', 'model', 'dt', 'path', 'formula')

    def __init__(self, verdict, model, dt, path, formula):
        self.verdict, self.model, self.dt, self.path, self.formula = verdict, model, dt, path, formula


class Contract:
    """One real function under contract: proof run + (on demand) bounded model runs."""

    def __init__(self, chk, fname, timeout_ms=10000, rename=None):
        self.chk, self.fname, self.timeout_ms = chk, fname, timeout_ms
        self.by_name = {}            # obligation name -> [Inst]
        self.order = []
        self.paths = []
        self.unsupported = []
        self.rename = rename or (lambda n: n)
        self.inlined = set()

    def prove(self, entry, post=None, expect_paths=1, max_paths=4000, path_timeout_ms=1500, deadline_s=None):
        paths = E.explore(entry, max_paths=max_paths, timeout_ms=path_timeout_ms, deadline_s=deadline_s)
        self.paths += paths
        for p in paths:
            self.inlined |= p.run.inlined
        bad = sorted({p.value for p in paths if p.kind == 'unsupported'})
        self.unsupported += bad
        live = [p for p in paths if p.kind in ('return', 'raise')]
        if len(live) < expect_paths and not bad:
            self.chk.obligation('%s.vacuity' % self.fname, self.fname, 'checker', report.ERROR, 0.0,
                                detail='only %d terminating paths explored (expected >= %d)' % (len(live), expect_paths))
        # vacuity guard (DESIGN 2.8): path condition + axioms of a terminating path must not be refutable
        for p in live[:3]:
            v, _, _ = discharge(p.run, z3.BoolVal(False), timeout_ms=400)
            if v == 'unsat':
                self.chk.obligation('%s.vacuity' % self.fname, self.fname, 'checker', report.ERROR, 0.0,
                                    detail='the assumptions/axioms of a terminating path are inconsistent (everything would be provable)')
                break
        for p in paths:
            if p.kind == 'unsupported':
                continue
            obs = [(n, f, npc, nax) for (n, f, npc, nax, info) in p.run.obligations]
            if post is not None and p.kind in ('return', 'raise'):
                obs += [(n, f, None, None) for n, f in post(p)]
            for n, f, npc, nax in obs:
                n = self.rename(n)
                if isinstance(f, bool):
                    f = z3.BoolVal(f)
                unk = getattr(self, '_unk', None)
                if unk is None:
                    unk = self._unk = {}
                if unk.get(n, 0) >= 2:
                    # already undecided twice: do not burn the budget again on every further path
                    v, m, dt = 'unknown', 'skipped after repeated solver budget exhaustion on other paths', 0.0
                else:
                    v, m, dt = discharge(p.run, f, npc, nax, timeout_ms=self.timeout_ms)
                    if v == 'unknown':
                        unk[n] = unk.get(n, 0) + 1
                if n not in self.by_name:
                    self.by_name[n] = []
                    self.order.append(n)
                self.by_name[n].append(Inst(v, m, dt, p, f))
        return paths

    def open_names(self):
        return [n for n in self.order if any(i.verdict != 'unsat' for i in self.by_name[n])]

    def finalize(self, bounded=None, known=None, backend='z3', spurious=None):
        """bounded: dict name -> {'model': text, 'replay': dict, 'reproduced': bool|None}   (definite sat of a bounded instance)
        known: dict name -> description  (obligation fails exactly because of a recorded finding; residual proved by the caller)"""
        chk = self.chk
        bounded = bounded or {}
        known = known or {}
        spurious = spurious or {}
        if self.unsupported:
            chk.obligation('%s.supported' % self.fname, self.fname, 'checker', report.ERROR, 0.0,
                           detail='the real code of %s left the supported subset: %s' % (self.fname, '; '.join(self.unsupported)[:1500]))
        names = list(self.order) + [n for n in bounded if n not in self.by_name]
        for n in names:
            insts = self.by_name.get(n, [])
            tsum = sum(i.dt for i in insts)
            detail = {'instances': len(insts)}
            if n in bounded:
                b = bounded[n]
                if n in known:
                    chk.obligation(n, self.fname, backend, report.KNOWN, tsum, detail=detail, finding=known[n])
                    continue
                chk.obligation(n, self.fname, backend, report.VIOLATED, tsum, detail=detail, model=b.get('model'),
                               replay=b.get('replay'), reproduced=b.get('reproduced'))
                continue
            sats = [i for i in insts if i.verdict == 'sat']
            unk = [i for i in insts if i.verdict == 'unknown']
            if n in spurious and (sats or unk):
                # DESIGN 2.5: `sat` whose model the real code does not reproduce = undecided (spurious model)
                detail['reason'] = 'model not reproduced on the real code: %s' % str(spurious[n].get('model'))[:600]
                chk.obligation(n, self.fname, backend, report.UNDECIDED, tsum, detail=detail)
                continue
            if sats:
                if n in known:
                    chk.obligation(n, self.fname, backend, report.KNOWN, tsum, detail=detail, finding=known[n])
                    continue
                i0 = sats[0]
                txt = 'path: %s\n%s' % (i0.path.describe(), str(i0.model)[:3000])
                chk.obligation(n, self.fname, backend, report.VIOLATED, tsum, detail=detail, model=txt, replay=None, reproduced=None)
            elif unk:
                detail['reason'] = str(unk[0].model)
                chk.obligation(n, self.fname, backend, report.UNDECIDED, tsum, detail=detail)
            else:
                chk.obligation(n, self.fname, backend, report.PROVED, tsum, detail=detail)
