"""pyvc.paths -- exhaustive intra-procedural path analysis of a real Python function against a finite
safety automaton over *event traces* (DESIGN.md section 6, "Event traces"; used by C05, reusable by C04/C06).

What it computes
----------------
For a function `fn` (an `ast.FunctionDef` taken from the current /repo source), a client that maps calls /
attribute loads / `with` items / stores to *events* and an automaton `step(state, event) -> state` supplied by the
client, `Engine.run` returns the set of **outcomes**

    (exit kind: 'return' | 'raise', exception class, raise origin, automaton state, constant facts, witness trace, #paths)

reachable over **all syntactic paths** of the function:

* branching statements (`if`, `while`, `for`, `try/except/else/finally`, `with`, `assert`, boolean short circuit,
  conditional expressions, comprehensions) are followed on every side; a branch is pruned only if its test is decided
  by constant facts about *local names assigned literal constants* on that path (so `flag = True ... if flag:` does
  not create an infeasible path) -- everything else is assumed feasible (over-approximation of the path set);
* loops are **not unrolled a bounded number of times**: the set of abstract states at the loop head is iterated to a
  fixed point.  The abstract state (automaton state x constant facts) ranges over a finite set, so the iteration
  terminates, and the result is *exact* for a finite-state safety automaton (every state reachable after any number of
  iterations is in the fixed point, and every state in the fixed point is reached by the recorded witness trace);
* calls are resolved by the client: `Emit` (events, cannot raise), `Fork` (alternative outcomes, each may raise a
  named exception class after its events), `Inline` (analyse the callee's real body in the caller's state: exact for
  non-recursive helpers) or `None` = **unknown call**: assumed to have no events and not to raise, *except* that it may
  raise each exception class that an enclosing `try` of the same call chain declares a handler for (a handler is
  the programmer's statement that the body can raise that class).  Unknown calls are reported to the client
  (`client.unknown_call`) so that they are printed as assumptions;
* exceptions are matched against `except` clauses with the client's class hierarchy; an undecidable match forks both
  ways and marks the path `approx` (a violation found only on an `approx` path is *undecided*, never a violation).

States are deduplicated on (automaton state, constant facts, approx) per program point; each keeps the first witness
trace that reached it and the number of syntactic paths merged into it.

Nothing here is specific to SQL or to vizier.
"""
import ast
from collections import namedtuple

FALL, RETURN, RAISE, BREAK, CONTINUE = 'fall', 'return', 'raise', 'break', 'continue'

Event = namedtuple('Event', 'kind data line text')
Outcome = namedtuple('Outcome', 'kind exc origin state consts approx trace n')


class Unsupported(Exception):
    """Syntax (or a state budget) outside what the engine decides: the caller must report `undecided`."""

    def __init__(self, node, msg):
        self.node, self.msg = node, msg
        Exception.__init__(self, '%s at line %s' % (msg, getattr(node, 'lineno', '?')))


class Emit:
    def __init__(self, events):
        self.events = list(events)


class Branch:
    def __init__(self, events=(), exc=None, origin=None):
        self.events, self.exc, self.origin = list(events), exc, origin


class Fork:
    def __init__(self, branches):
        self.branches = list(branches)


class Inline:
    def __init__(self, fn, data=None, label=None, pre_events=()):
        self.fn, self.data, self.label, self.pre_events = fn, data or {}, label or fn.name, list(pre_events)


# ------------------------------------------------------------------------------------------ exception classes
BUILTIN_HIERARCHY = {
    'Exception': 'BaseException', 'ArithmeticError': 'Exception', 'ZeroDivisionError': 'ArithmeticError',
    'OverflowError': 'ArithmeticError', 'AssertionError': 'Exception', 'AttributeError': 'Exception',
    'LookupError': 'Exception', 'KeyError': 'LookupError', 'IndexError': 'LookupError', 'NameError': 'Exception',
    'OSError': 'Exception', 'IOError': 'OSError', 'RuntimeError': 'Exception', 'NotImplementedError': 'RuntimeError',
    'StopIteration': 'Exception', 'TypeError': 'Exception', 'ValueError': 'Exception',
    'UnicodeError': 'ValueError', 'KeyboardInterrupt': 'BaseException', 'SystemExit': 'BaseException',
}


def last_name(node):
    """`a.b.C` -> 'C' ; `C` -> 'C' ; otherwise None."""
    if isinstance(node, ast.Attribute):
        return node.attr
    if isinstance(node, ast.Name):
        return node.id
    return None


def root_name(node):
    """Root local of an attribute/subscript/call chain: `x.a.b[0].c` -> 'x'."""
    while True:
        if isinstance(node, ast.Name):
            return node.id
        if isinstance(node, (ast.Attribute, ast.Subscript, ast.Starred)):
            node = node.value
        elif isinstance(node, ast.Call):
            node = node.func
        else:
            return None


class Client:
    """Default client: no events.  Subclass and override."""

    hierarchy = dict(BUILTIN_HIERARCHY)
    ctor_kwargs_as_attrs = True     # `x = C(done=False)` records the constant fact `x.done == False`

    def init_state(self):
        return None

    def step(self, state, ev, consts, frame):
        return state

    def call(self, node, frame):
        return None

    def attribute(self, node, frame):
        return ()

    def with_item(self, expr, frame):
        return (), ()

    def store(self, target, value, frame):
        return ()

    def unknown_call(self, node, frame):
        pass

    def is_subclass(self, cls, base):
        seen = 0
        while cls is not None and seen < 50:
            if cls == base:
                return True
            cls = self.hierarchy.get(cls)
            seen += 1
        return False

    def catches(self, type_node, exc, frame):
        """True / False / None (undecidable).  `exc` is the *representative* class raised."""
        if type_node is None:
            return True
        if isinstance(type_node, ast.Tuple):
            rs = [self.catches(t, exc, frame) for t in type_node.elts]
            if any(r is True for r in rs):
                return True
            return None if any(r is None for r in rs) else False
        h = last_name(type_node)
        if h is None:
            return None
        if h == 'BaseException':
            return True
        if h == 'Exception':
            return exc not in ('KeyboardInterrupt', 'SystemExit', 'GeneratorExit', 'BaseException')
        if exc == 'Exception':          # "some other exception": by construction not one of the specific handlers
            return False
        if self.is_subclass(exc, h):
            return True
        if exc in self.hierarchy or exc in ('BaseException',):
            # the raised class is known and `h` is not among its ancestors.  A representative class stands for
            # "exactly this class" so a handler for a *subclass* of it does not catch it.
            return False
        return None


# ------------------------------------------------------------------------------------------ paths and fronts
class Path:
    __slots__ = ('a', 'consts', 'approx', 'trace', 'n')

    def __init__(self, a, consts=frozenset(), approx=False, trace=None, n=1):
        self.a, self.consts, self.approx, self.trace, self.n = a, consts, approx, trace, n

    def key(self):
        return (self.a, self.consts, self.approx)

    def ext(self, item):
        return Path(self.a, self.consts, self.approx, (self.trace, item), self.n)

    def with_(self, **kw):
        p = Path(self.a, self.consts, self.approx, self.trace, self.n)
        for k, v in kw.items():
            setattr(p, k, v)
        return p


def trace_list(trace):
    out = []
    while trace is not None:
        trace, item = trace
        out.append(item)
    out.reverse()
    return out


class Front:
    """Set of paths at one program point, deduplicated on the abstract state."""

    def __init__(self, paths=()):
        self.d = {}
        for p in paths:
            self.add(p)

    def add(self, p):
        k = p.key()
        q = self.d.get(k)
        if q is None:
            self.d[k] = p
            return True
        self.d[k] = Path(q.a, q.consts, q.approx, q.trace, q.n + p.n)
        return False

    def update(self, other):
        for p in other:
            self.add(p)
        return self

    def __iter__(self):
        return iter(list(self.d.values()))

    def __len__(self):
        return len(self.d)

    def __bool__(self):
        return bool(self.d)


class Sink:
    """Abrupt completions (return / raise / break / continue) leaving a region."""

    def __init__(self):
        self.d = {}

    def add(self, kind, exc, origin, p):
        k = (kind, exc, origin, p.key())
        q = self.d.get(k)
        if q is None:
            self.d[k] = (kind, exc, origin, p)
        else:
            q = q[3]
            self.d[k] = (kind, exc, origin, Path(q.a, q.consts, q.approx, q.trace, q.n + p.n))

    def items(self):
        return list(self.d.values())


class Frame:
    def __init__(self, fn, qualname, data=None, depth=0, handlers=(), caught=None, stack=(), label=None):
        self.fn, self.qualname, self.data, self.depth = fn, qualname, data or {}, depth
        self.handlers, self.caught, self.stack = handlers, caught, stack
        self.label = label
        self._local_exc = None

    def child(self, **kw):
        f = Frame(self.fn, self.qualname, self.data, self.depth, self.handlers, self.caught, self.stack, self.label)
        f._local_exc = self._local_exc
        for k, v in kw.items():
            setattr(f, k, v)
        return f

    def local_exception_classes(self):
        """name -> class for locals assigned exactly one exception-constructor call (`e = ValueError(..)`)."""
        if self._local_exc is None:
            m = {}
            for n in ast.walk(self.fn):
                if isinstance(n, ast.Assign) and len(n.targets) == 1 and isinstance(n.targets[0], ast.Name):
                    nm = n.targets[0].id
                    c = last_name(n.value.func) if isinstance(n.value, ast.Call) else None
                    m.setdefault(nm, set()).add(c)
            self._local_exc = {k: next(iter(v)) for k, v in m.items() if len(v) == 1 and None not in v}
        return self._local_exc


# ------------------------------------------------------------------------------------------ constant facts
def _cdict(consts):
    return dict(consts)


def _kill(consts, name):
    if not consts:
        return consts
    pre1, pre2 = name + '.', name + '['
    out = frozenset((k, v) for k, v in consts if not (k == name or k.startswith(pre1) or k.startswith(pre2)))
    return out


def _set(consts, key, val):
    return frozenset([(k, v) for k, v in consts if k != key] + [(key, val)])


def _is_literal(node):
    return isinstance(node, ast.Constant) and (node.value is None or isinstance(node.value, (bool, int, str)))


def _const_of(node, cd):
    if _is_literal(node):
        return True, node.value
    if isinstance(node, (ast.Name, ast.Attribute)):
        try:
            k = ast.unparse(node)
        except Exception:
            return False, None
        if k in cd:
            return True, cd[k]
    return False, None


def decide(test, cd):
    """Three-valued evaluation of a branch test under constant facts: True / False / None."""
    if isinstance(test, ast.UnaryOp) and isinstance(test.op, ast.Not):
        r = decide(test.operand, cd)
        return None if r is None else (not r)
    if isinstance(test, ast.BoolOp):
        rs = [decide(v, cd) for v in test.values]
        if isinstance(test.op, ast.And):
            if any(r is False for r in rs):
                return False
            return True if all(r is True for r in rs) else None
        if any(r is True for r in rs):
            return True
        return False if all(r is False for r in rs) else None
    if isinstance(test, ast.Compare) and len(test.ops) == 1:
        ok1, a = _const_of(test.left, cd)
        ok2, b = _const_of(test.comparators[0], cd)
        if ok1 and ok2:
            op = test.ops[0]
            if isinstance(op, ast.Is):
                return a is b if (a is None or b is None or isinstance(a, bool) or isinstance(b, bool)) else None
            if isinstance(op, ast.IsNot):
                return a is not b if (a is None or b is None or isinstance(a, bool) or isinstance(b, bool)) else None
            if isinstance(op, ast.Eq):
                return a == b
            if isinstance(op, ast.NotEq):
                return a != b
        return None
    ok, v = _const_of(test, cd)
    if ok:
        return bool(v)
    return None


def _short(node, limit=70):
    try:
        s = ' '.join(ast.unparse(node).split())
    except Exception:
        s = type(node).__name__
    return s if len(s) <= limit else s[:limit - 3] + '...'


# ------------------------------------------------------------------------------------------ the engine
class Engine:
    def __init__(self, client, max_inline_depth=8, max_states=200000):
        self.client, self.max_inline_depth, self.max_states = client, max_inline_depth, max_states
        self.steps = 0

    # ---- public
    def run(self, fn, qualname=None, data=None, init=None, label=None):
        fr = Frame(fn, qualname or fn.name, data, 0, (), None, (fn.name,), label)
        start = Path(self.client.init_state() if init is None else init)
        sink = Sink()
        out = self._block(fn.body, Front([start]), fr, sink)
        res = {}

        def put(kind, exc, origin, p):
            k = (kind, exc, origin, p.key())
            if k in res:
                o = res[k]
                res[k] = o._replace(n=o.n + p.n)
            else:
                res[k] = Outcome(kind, exc, origin, p.a, p.consts, p.approx, p.trace, p.n)
        for p in out:
            put(RETURN, None, None, p.ext('L%d end of %s (implicit return)' % (fn.end_lineno or fn.lineno, fn.name)))
        for kind, exc, origin, p in sink.items():
            if kind in (BREAK, CONTINUE):
                raise Unsupported(fn, '%s outside a loop' % kind)
            put(kind, exc, origin, p)
        return list(res.values())

    # ---- helpers
    def _tag(self, fr):
        return '' if fr.depth == 0 else '[%s] ' % fr.fn.name

    def _budget(self, n=1):
        self.steps += n
        if self.steps > self.max_states:
            raise Unsupported(ast.Pass(), 'state budget exceeded (%d abstract states)' % self.max_states)

    def _apply(self, front, events, fr):
        if not events:
            return front
        out = Front()
        tag = self._tag(fr)
        for p in front:
            a, tr = p.a, p.trace
            for ev in events:
                a = self.client.step(a, ev, p.consts, fr)
                tr = (tr, 'L%d %s%s' % (ev.line, tag, ev.text))
            out.add(Path(a, p.consts, p.approx, tr, p.n))
            self._budget()
        return out

    def _note(self, front, fr, line, text):
        tag = self._tag(fr)
        return Front(p.ext('L%d %s%s' % (line, tag, text)) for p in front)

    # ---- statements
    def _block(self, stmts, front, fr, sink):
        for s in stmts:
            if not front:
                break
            front = self._stmt(s, front, fr, sink)
        return front

    def _stmt(self, s, front, fr, sink):
        self._budget(len(front))
        if isinstance(s, ast.Expr):
            return self._expr(s.value, front, fr, sink)
        if isinstance(s, ast.Assign):
            front = self._expr(s.value, front, fr, sink)
            for t in s.targets:
                front = self._store(t, s.value, front, fr, sink)
            return front
        if isinstance(s, ast.AnnAssign):
            if s.value is None:
                return front
            front = self._expr(s.value, front, fr, sink)
            return self._store(s.target, s.value, front, fr, sink)
        if isinstance(s, ast.AugAssign):
            front = self._expr(s.value, front, fr, sink)
            return self._store(s.target, None, front, fr, sink)
        if isinstance(s, ast.Return):
            front = self._expr(s.value, front, fr, sink) if s.value is not None else front
            for p in front:
                sink.add(RETURN, None, None, p.ext('L%d %sreturn' % (s.lineno, self._tag(fr))))
            return Front()
        if isinstance(s, ast.Raise):
            if s.exc is not None:
                front = self._expr(s.exc, front, fr, sink)
            if s.cause is not None:
                front = self._expr(s.cause, front, fr, sink)
            exc, origin = self._raise_class(s, fr)
            for p in front:
                sink.add(RAISE, exc, origin, p.ext('L%d %sraise %s' % (s.lineno, self._tag(fr), exc)))
            return Front()
        if isinstance(s, ast.If):
            front = self._expr(s.test, front, fr, sink)
            t, f = self._split(s.test, front, fr, s.lineno, 'if')
            out = Front()
            out.update(self._block(s.body, t, fr, sink))
            out.update(self._block(s.orelse, f, fr, sink) if s.orelse else f)
            return out
        if isinstance(s, ast.With):
            return self._with(s, front, fr, sink)
        if isinstance(s, (ast.For, ast.While)):
            return self._loop(s, front, fr, sink)
        if isinstance(s, ast.Try):
            return self._try(s, front, fr, sink)
        if isinstance(s, ast.Break):
            for p in front:
                sink.add(BREAK, None, None, p)
            return Front()
        if isinstance(s, ast.Continue):
            for p in front:
                sink.add(CONTINUE, None, None, p)
            return Front()
        if isinstance(s, ast.Assert):
            front = self._expr(s.test, front, fr, sink)
            for p in front:
                sink.add(RAISE, 'AssertionError', 'assert', p.ext('L%d %sassert fails' % (s.lineno, self._tag(fr))))
            return front
        if isinstance(s, ast.Delete):
            out = Front()
            for p in front:
                c = p.consts
                for t in s.targets:
                    r = root_name(t)
                    if r:
                        c = _kill(c, ast.unparse(t))
                out.add(p.with_(consts=c))
            return out
        if isinstance(s, (ast.FunctionDef, ast.ClassDef, ast.AsyncFunctionDef)):
            return Front(p.with_(consts=_kill(p.consts, s.name)) for p in front)
        if isinstance(s, (ast.Pass, ast.Import, ast.ImportFrom, ast.Global, ast.Nonlocal)):
            return front
        raise Unsupported(s, 'unsupported statement %s' % type(s).__name__)

    def _split(self, test, front, fr, line, word):
        t, f = Front(), Front()
        txt = _short(test, 50)
        tag = self._tag(fr)
        for p in front:
            r = decide(test, _cdict(p.consts)) if p.consts or _is_literal(test) else None
            if r is not False:
                t.add(p.ext('L%d %s%s %s -> taken' % (line, tag, word, txt)))
            if r is not True:
                f.add(p.ext('L%d %s%s %s -> not taken' % (line, tag, word, txt)))
        return t, f

    def _store(self, target, value, front, fr, sink):
        """Assignment to `target` (value already evaluated; None for augmented / loop / as targets)."""
        if isinstance(target, (ast.Tuple, ast.List)):
            for t in target.elts:
                front = self._store(t, None, front, fr, sink)
            return front
        if isinstance(target, ast.Starred):
            return self._store(target.value, None, front, fr, sink)
        if isinstance(target, ast.Attribute):
            front = self._expr(target.value, front, fr, sink)
        elif isinstance(target, ast.Subscript):
            front = self._expr(target.value, front, fr, sink)
            front = self._expr(target.slice, front, fr, sink)
        front = self._apply(front, self.client.store(target, value, fr), fr)
        # constant facts
        key = None
        if isinstance(target, ast.Name) or (isinstance(target, ast.Attribute) and root_name(target)):
            try:
                key = ast.unparse(target)
            except Exception:
                key = None
        out = Front()
        for p in front:
            c = p.consts
            if key is not None:
                c = _kill(c, key)
                if value is not None and _is_literal(value):
                    c = _set(c, key, value.value)
                elif value is not None and isinstance(value, (ast.Name, ast.Attribute)):
                    ok, v = _const_of(value, _cdict(p.consts))
                    if ok:
                        c = _set(c, key, v)
                elif (value is not None and isinstance(value, ast.Call) and self.client.ctor_kwargs_as_attrs
                      and isinstance(target, ast.Name)):
                    for kw in value.keywords:
                        if kw.arg and _is_literal(kw.value):
                            c = _set(c, key + '.' + kw.arg, kw.value.value)
            else:
                r = root_name(target)
                if r:
                    try:
                        c = _kill(c, ast.unparse(target))
                    except Exception:
                        c = _kill(c, r)
            out.add(p.with_(consts=c) if c is not p.consts else p)
        return out

    def _with(self, s, front, fr, sink):
        exits = []
        for item in s.items:
            front = self._expr(item.context_expr, front, fr, sink)
            ent, ext = self.client.with_item(item.context_expr, fr)
            front = self._apply(front, ent, fr)
            exits.append(list(ext))
            if item.optional_vars is not None:
                front = self._store(item.optional_vars, None, front, fr, sink)
        inner = Sink()
        front = self._block(s.body, front, fr, inner)
        ext_events = [e for ext in reversed(exits) for e in ext]
        front = self._apply(front, ext_events, fr)
        for kind, exc, origin, p in inner.items():
            for q in self._apply(Front([p]), ext_events, fr):
                sink.add(kind, exc, origin, q)
        return front

    def _loop(self, s, front, fr, sink):
        is_for = isinstance(s, ast.For)
        if is_for:
            front = self._expr(s.iter, front, fr, sink)
        head, work = Front(), Front()
        for p in front:
            if head.add(p):
                work.add(p)
        exit_front, break_front = Front(), Front()
        rounds = 0
        word = 'for' if is_for else 'while'
        while work:
            rounds += 1
            if rounds > 10000:
                raise Unsupported(s, 'loop fixpoint did not converge')
            f = work
            if is_for:
                exit_front.update(self._note(f, fr, s.lineno, 'for %s: iterator exhausted' % _short(s.target, 30)))
                f = self._note(f, fr, s.lineno, 'for %s: next iteration' % _short(s.target, 30))
                f = self._store(s.target, None, f, fr, sink)
            else:
                f = self._expr(s.test, f, fr, sink)
                f, ex = self._split(s.test, f, fr, s.lineno, 'while')
                exit_front.update(ex)
            inner = Sink()
            out = self._block(s.body, f, fr, inner)
            nxt = Front(out)
            for kind, exc, origin, p in inner.items():
                if kind == CONTINUE:
                    nxt.add(p)
                elif kind == BREAK:
                    break_front.add(p)
                else:
                    sink.add(kind, exc, origin, p)
            work = Front()
            for p in nxt:
                if p.key() not in head.d:
                    head.add(p)
                    work.add(p)
                else:
                    head.add(p)     # accumulate the path count only
        if s.orelse:
            exit_front = self._block(s.orelse, exit_front, fr, sink)
        exit_front.update(break_front)
        return exit_front

    def _handler_classes(self, s):
        out = []
        for h in s.handlers:
            if h.type is None:
                out.append('Exception')
            elif isinstance(h.type, ast.Tuple):
                out += [last_name(t) or 'Exception' for t in h.type.elts]
            else:
                out.append(last_name(h.type) or 'Exception')
        return out

    def _try(self, s, front, fr, sink):
        after = Sink()          # abrupt completions that leave try/except/else (still have to pass `finally`)
        body_sink = Sink()
        fr_body = fr.child(handlers=fr.handlers + (tuple(self._handler_classes(s)),)) if s.handlers else fr
        normal = self._block(s.body, front, fr_body, body_sink)
        if s.orelse:
            normal = self._block(s.orelse, normal, fr, after)
        out = Front(normal)
        for kind, exc, origin, p in body_sink.items():
            if kind != RAISE:
                after.add(kind, exc, origin, p)
                continue
            cur = p
            handled_definitely = False
            for h in s.handlers:
                r = self.client.catches(h.type, exc, fr)
                if r is False:
                    continue
                q = cur if r is True else cur.with_(approx=True)
                q = q.ext('L%d %sexcept %s catches %s%s' % (h.lineno, self._tag(fr), _short(h.type, 40) if h.type is not None else '',
                                                            exc, '' if r is True else ' (undecided match)'))
                if h.name:
                    q = q.with_(consts=_kill(q.consts, h.name))
                fr_h = fr.child(caught=(exc, origin, h.name))
                out.update(self._block(h.body, Front([q]), fr_h, after))
                if r is True:
                    handled_definitely = True
                    break
                cur = cur.with_(approx=True)
            if not handled_definitely:
                after.add(RAISE, exc, origin, cur)
        if s.finalbody:
            out = self._block(s.finalbody, out, fr, sink)
            for kind, exc, origin, p in after.items():
                for q in self._block(s.finalbody, Front([p]), fr, sink):
                    sink.add(kind, exc, origin, q)
        else:
            for kind, exc, origin, p in after.items():
                sink.add(kind, exc, origin, p)
        return out

    def _raise_class(self, s, fr):
        if s.exc is None:
            if fr.caught:
                return fr.caught[0], fr.caught[1]
            return 'Exception', 'raise'
        e = s.exc
        if isinstance(e, ast.Call):
            c = last_name(e.func)
            return (c or 'Exception'), 'raise %s' % (c or '?')
        if isinstance(e, ast.Name):
            if fr.caught and fr.caught[2] == e.id:
                return fr.caught[0], fr.caught[1]
            c = fr.local_exception_classes().get(e.id)
            if c:
                return c, 'raise %s' % c
            return 'Exception', 'raise %s' % e.id
        c = last_name(e)
        return (c or 'Exception'), 'raise %s' % (c or '?')

    # ---- expressions
    def _expr(self, node, front, fr, sink):
        if node is None or not front:
            return front
        if isinstance(node, (ast.Constant, ast.Name)):
            return front
        if isinstance(node, (ast.Lambda,)):
            return front             # body runs only when called; calls of local lambdas are unknown calls
        if isinstance(node, ast.BoolOp):
            cur = self._expr(node.values[0], front, fr, sink)
            out = Front()
            for v in node.values[1:]:
                out.update(cur)      # short circuit: the remaining operands are not evaluated
                cur = self._expr(v, cur, fr, sink)
            out.update(cur)
            return out
        if isinstance(node, ast.IfExp):
            f = self._expr(node.test, front, fr, sink)
            t, e = self._split(node.test, f, fr, node.lineno, 'if-expression')
            out = Front(self._expr(node.body, t, fr, sink))
            out.update(self._expr(node.orelse, e, fr, sink))
            return out
        if isinstance(node, ast.Call):
            return self._call(node, front, fr, sink)
        if isinstance(node, ast.Attribute):
            front = self._expr(node.value, front, fr, sink)
            if isinstance(node.ctx, ast.Load):
                front = self._apply(front, self.client.attribute(node, fr), fr)
            return front
        if isinstance(node, (ast.ListComp, ast.SetComp, ast.GeneratorExp, ast.DictComp)):
            return self._comp(node, front, fr, sink)
        if isinstance(node, ast.Dict):
            for k, v in zip(node.keys, node.values):
                if k is not None:
                    front = self._expr(k, front, fr, sink)
                front = self._expr(v, front, fr, sink)
            return front
        if isinstance(node, ast.NamedExpr):
            front = self._expr(node.value, front, fr, sink)
            return self._store(node.target, node.value, front, fr, sink)
        if isinstance(node, (ast.Await, ast.Yield, ast.YieldFrom)):
            raise Unsupported(node, 'unsupported expression %s' % type(node).__name__)
        for child in ast.iter_child_nodes(node):
            if isinstance(child, ast.expr):
                front = self._expr(child, front, fr, sink)
            elif isinstance(child, ast.keyword):
                front = self._expr(child.value, front, fr, sink)
            elif isinstance(child, ast.comprehension):
                raise Unsupported(node, 'comprehension outside a comprehension expression')
        return front

    def _comp(self, node, front, fr, sink):
        gens = node.generators
        front = self._expr(gens[0].iter, front, fr, sink)

        def body(f):
            for gi, g in enumerate(gens):
                if gi > 0:
                    f = self._expr(g.iter, f, fr, sink)
                f = self._store(g.target, None, f, fr, sink)
                for c in g.ifs:
                    f = self._expr(c, f, fr, sink)
            if isinstance(node, ast.DictComp):
                f = self._expr(node.key, f, fr, sink)
                return self._expr(node.value, f, fr, sink)
            return self._expr(node.elt, f, fr, sink)
        head, work = Front(front), Front(front)
        rounds = 0
        while work:
            rounds += 1
            if rounds > 10000:
                raise Unsupported(node, 'comprehension fixpoint did not converge')
            out = body(work)
            work = Front()
            for p in out:
                if p.key() not in head.d:
                    work.add(p)
                head.add(p)
        return head

    def _call(self, node, front, fr, sink):
        front = self._expr(node.func, front, fr, sink)
        for a in node.args:
            front = self._expr(a.value if isinstance(a, ast.Starred) else a, front, fr, sink)
        for kw in node.keywords:
            front = self._expr(kw.value, front, fr, sink)
        if not front:
            return front
        eff = self.client.call(node, fr)
        if isinstance(eff, Inline):
            if eff.fn.name in fr.stack or fr.depth >= self.max_inline_depth:
                eff = None
            else:
                return self._inline(eff, node, front, fr, sink)
        if eff is None:
            return self._unknown_call(node, front, fr, sink)
        if isinstance(eff, Emit):
            return self._apply(front, eff.events, fr)
        if isinstance(eff, Fork):
            out = Front()
            for b in eff.branches:
                g = self._apply(front, b.events, fr)
                if b.exc is None:
                    out.update(g)
                else:
                    for p in g:
                        sink.add(RAISE, b.exc, b.origin or _short(node.func, 40),
                                 p.ext('L%d %s%s raises %s' % (node.lineno, self._tag(fr), _short(node.func, 40), b.exc)))
            return out
        raise Unsupported(node, 'client returned an unknown effect %r' % (eff,))

    def _unknown_call(self, node, front, fr, sink):
        self.client.unknown_call(node, fr)
        # may raise what the enclosing handlers are written for
        seen = set()
        for level in fr.handlers:
            for cls in level:
                if cls in seen:
                    continue
                seen.add(cls)
                for p in front:
                    sink.add(RAISE, cls, 'implicit:' + _short(node.func, 40),
                             p.ext('L%d %s%s(...) raises %s (unknown call inside a try with such a handler)'
                                   % (node.lineno, self._tag(fr), _short(node.func, 40), cls)))
        # attribute constants of locals handed to unknown code are forgotten
        kills = []
        for a in list(node.args) + [k.value for k in node.keywords]:
            if isinstance(a, ast.Starred):
                a = a.value
            if isinstance(a, ast.Name):
                kills.append(a.id + '.')
        if isinstance(node.func, ast.Attribute):
            recv = node.func.value
            if isinstance(recv, (ast.Name, ast.Attribute)) and root_name(recv):
                try:
                    kills.append(ast.unparse(recv) + '.')
                except Exception:
                    pass
        if not kills:
            return front
        out = Front()
        for p in front:
            if p.consts:
                c = frozenset((k, v) for k, v in p.consts if not any(k.startswith(pre) for pre in kills))
                out.add(p.with_(consts=c) if c != p.consts else p)
            else:
                out.add(p)
        return out

    def _inline(self, eff, node, front, fr, sink):
        front = self._apply(front, eff.pre_events, fr)
        out = Front()
        fr2 = Frame(eff.fn, fr.qualname, eff.data, fr.depth + 1, fr.handlers, None, fr.stack + (eff.fn.name,), eff.label)
        for p in front:
            inner = Sink()
            start = Path(p.a, frozenset(), p.approx, (p.trace, 'L%d %senter %s' % (node.lineno, self._tag(fr), _short(node, 60))), p.n)
            res = self._block(eff.fn.body, Front([start]), fr2, inner)
            for q in res:
                out.add(Path(q.a, p.consts, q.approx, q.trace, q.n))
            for kind, exc, origin, q in inner.items():
                if kind == RETURN:
                    out.add(Path(q.a, p.consts, q.approx, q.trace, q.n))
                elif kind == RAISE:
                    sink.add(RAISE, exc, origin, Path(q.a, p.consts, q.approx, q.trace, q.n))
                else:
                    raise Unsupported(node, '%s escapes the inlined function %s' % (kind, eff.fn.name))
        return out


def format_trace(outcome, limit=80):
    items = trace_list(outcome.trace)
    if len(items) > limit:
        items = items[:limit // 2] + ['... (%d steps omitted)' % (len(items) - limit)] + items[-limit // 2:]
    return items
