"""pyvc.warp_model -- the float-array numpy / scipy fragment used by vizier's output warpers (C18), on top of pyvc.np_model.

Floats are `xreal.XReal` (fin(Real) | +inf | -inf | nan); + - * / ** on finite values are *mathematical* (assumption
"machine arithmetic treated as mathematical": no rounding, no overflow).  Division is numpy's total division
(x/0 = +-inf, 0/0 = nan).  Transcendental functions are uninterpreted functions over the reals (LOG1P, LOG, EXP, SQRT, PPF,
SOFTCLIP) with exactly the axioms listed in `MATH_AXIOMS` (strict monotonicity, sign, inverse pairs).

Every library function modelled here is an *assumed contract* (`CONTRACTS[key]` = text).  A contract that is used on a
path is recorded in `run.lib_used` (and `run.assumed`); the check that uses this module must run the native conformance
test of every used contract (replay/c18_conformance.py) -- an assumed contract that the installed library does not satisfy
must never be trusted silently.

Aliasing: `astype`, `flatten`, boolean-mask reads and every arithmetic result are fresh arrays (copies); writes go to the
python-side array object, whose `version` counts them (used for the "input not modified" frame obligations).
"""
import ast
import itertools

import z3

from . import engine as E
from . import models as M
from . import np_model as NP
from . import protomodel as pm
from . import xreal as X
from .engine import Unsupported, PyRaise, PathEnd, Builtin, EXTERNAL, Obj
from .np_model import NDArray

_uid = itertools.count()
R = z3.RealSort()
I = z3.IntSort()

# ------------------------------------------------------------------------------------------ what this module needs from pyvc.np_model
# np_model is edited by other checks.  The small pure helpers are PINNED here (own copies); the array core that must be shared with
# np_model (the NDArray value, boolean-mask enumeration, indexing, searchsorted, the hooks) is imported, and its presence and the two
# patch points are verified at import time (a clear ImportError -> checker error, never a wrong verdict).
_NP_API = ('NDArray', 'SORTS', 'mask_info', 'getitem', 'setitem', 'searchsorted', 'elementwise', '_scalar_op', '_result_dtype', '_binop', 'astype',
           'from_nested', 'same_dim', 'dtype_arg', 'dtype_of_scalar', '_np_max', '_chain', 'EnumList', 'reduce_bool', 'reduce_sum')
_missing = [a for a in _NP_API if not hasattr(NP, a)]
if _missing:
    raise ImportError('pyvc.warp_model: pyvc.np_model no longer provides %s (warp_model must be adapted)' % _missing)


def conc(n):
    """python int of an extent if it is concrete, else None."""
    if isinstance(n, bool):
        return int(n)
    if isinstance(n, int):
        return n
    s = z3.simplify(n)
    return s.as_long() if z3.is_int_value(s) else None


def zi(i):
    if isinstance(i, bool):
        return z3.IntVal(int(i))
    if isinstance(i, int):
        return z3.IntVal(i)
    if z3.is_expr(i) and i.sort() == z3.BoolSort():
        return z3.If(i, z3.IntVal(1), z3.IntVal(0))
    return i


def norm(n):
    c = conc(n)
    return c if c is not None else n


def _zb(c):
    return z3.BoolVal(c) if isinstance(c, bool) else c


def QA(n, body, lo=0):
    """forall lo <= j < n. body(j); expanded when n is concrete"""
    c, l = conc(n), conc(lo)
    if c is not None and l is not None:
        cs = [_zb(body(z3.IntVal(j))) for j in range(l, c)]
        return z3.And(*cs) if cs else z3.BoolVal(True)
    j = z3.Int('wq!%d' % next(_uid))
    return z3.ForAll([j], z3.Implies(z3.And(j >= lo, j < n), _zb(body(j))))


def QE(n, body, lo=0):
    c, l = conc(n), conc(lo)
    if c is not None and l is not None:
        cs = [_zb(body(z3.IntVal(j))) for j in range(l, c)]
        return z3.Or(*cs) if cs else z3.BoolVal(False)
    j = z3.Int('wq!%d' % next(_uid))
    return z3.Exists([j], z3.And(j >= lo, j < n, _zb(body(j))))


def QA2(n, body):
    """forall 0 <= a < b < n. body(a, b)"""
    c = conc(n)
    if c is not None:
        cs = [_zb(body(z3.IntVal(a), z3.IntVal(b))) for a in range(c) for b in range(a + 1, c)]
        return z3.And(*cs) if cs else z3.BoolVal(True)
    a, b = z3.Int('wq!%d' % next(_uid)), z3.Int('wq!%d' % next(_uid))
    return z3.ForAll([a, b], z3.Implies(z3.And(a >= 0, a < b, b < n), _zb(body(a, b))))


def fact(run, f):
    """library fact: quantified -> Run.axiom (never seen by the path solver), else Run.assume"""
    if isinstance(f, bool):
        if not f:
            raise PathEnd()
        return
    f = z3.simplify(f) if not E._has_quantifier(f) else f
    if z3.is_true(f):
        return
    if E._has_quantifier(f):
        run.axiom(f)
    else:
        run.assume(f)


def fresh_fn(run, name, arity, sort):
    run.fresh_n += 1
    return z3.Function('%s!%d' % (name, run.fresh_n), *([z3.IntSort()] * arity + [sort]))


def elem_of(v, dtype):
    """python scalar / z3 term -> z3 term of the element sort of `dtype`"""
    s = NP.SORTS[dtype]
    if z3.is_expr(v):
        if v.sort() == s:
            return v
        if dtype == 'float':
            return X.lift(v)
        if dtype == 'int' and v.sort() == z3.BoolSort():
            return zi(v)
        if dtype == 'bool' and v.sort() == z3.IntSort():
            return v != 0
        raise Unsupported('array element of sort %s stored into a %s array' % (v.sort(), dtype))
    return pm._lift(v, s)


def implied(it, cond):
    """is `cond` implied by the current path condition (quantifier-free check)?"""
    if isinstance(cond, bool):
        return cond
    if it.pure:
        return False
    c = z3.simplify(cond)
    if z3.is_true(c):
        return True
    if z3.is_false(c):
        return False
    return not it.run.feasible(z3.Not(c))


def const_array(shape, dtype, v):
    t = elem_of(v, dtype)
    return NDArray(shape, dtype, lambda *idx: t)


def fresh_array(run, name, shape, dtype):
    f = fresh_fn(run, name, len(shape), NP.SORTS[dtype])
    return NDArray(shape, dtype, lambda *idx: f(*idx))


def shape_arg(it, s):
    if isinstance(s, (list, tuple)):
        return tuple(norm(zi(x)) for x in s)
    if isinstance(s, NDArray):
        raise Unsupported('array used as a shape')
    return (norm(zi(s)),)


def map1(fn_scalar, out_dtype):
    """element-wise application of a scalar function to an array / nested list / scalar"""
    def fn(it, args, kw):
        a = args[0]
        if isinstance(a, NDArray):
            f = a.fn
            return NDArray(a.shape, out_dtype or a.dtype, lambda *i: fn_scalar(it, f(*i)))
        xs = None if (z3.is_expr(a) or isinstance(a, (bool, int, float))) else M.try_iterate(it, a)
        if xs is not None:
            return fn(it, [NP.from_nested(it, xs)], kw)
        return fn_scalar(it, a)
    return fn

CONTRACTS = {}     # key -> text of the assumed library contract


def contract(key, text):
    CONTRACTS[key] = text
    return key


def use(it, key):
    run = it.run
    run.__dict__.setdefault('lib_used', set()).add(key)
    run.assumed.add('library contract %s: %s' % (key, CONTRACTS[key]))


# ------------------------------------------------------------------------------------------ real-valued uninterpreted functions
LOG1P = z3.Function('LOG1P', R, R)
LOG = z3.Function('LOG', R, R)
EXP = z3.Function('EXP', R, R)
SQRT = z3.Function('SQRT', R, R)
PPF = z3.Function('PPF', R, R)
SOFTCLIP = z3.Function('SOFTCLIP', R, R)

MATH_AXIOMS = [
    'LOG1P is strictly increasing on (-1, oo) and LOG1P(0) = 0',
    'LOG is strictly increasing on (0, oo) and LOG(1) = 0',
    'EXP is strictly increasing, EXP(x) > 0, EXP(LOG1P(x)) = 1 + x for x > -1, EXP(LOG(x)) = x for x > 0',
    'SQRT(x) >= 0 and SQRT(x)*SQRT(x) = x for x >= 0 (hence SQRT(x) = 0 iff x = 0, SQRT strictly increasing)',
    'PPF (standard normal quantile) is strictly increasing on (0, 1) and PPF(1/2) = 0',
    'SOFTCLIP (tfp SoftClip.forward for fixed low < high) is strictly increasing and maps into (low, high)',
]


def _mono(F, lo=None, hi=None):
    x, y = z3.Real('mx!%s' % F.name()), z3.Real('my!%s' % F.name())
    dom = []
    for v in (x, y):
        if lo is not None:
            dom.append(v > lo)
        if hi is not None:
            dom.append(v < hi)
    return z3.ForAll([x, y], z3.Implies(z3.And(*(dom + [x < y])), F(x) < F(y)), patterns=[z3.MultiPattern(F(x), F(y))])


def math_axioms():
    """the quantified axioms (with explicit patterns) about the uninterpreted real functions"""
    x = z3.Real('ax!x')
    out = [
        _mono(LOG1P, lo=-1), LOG1P(0) == 0,
        _mono(LOG, lo=0), LOG(1) == 0,
        _mono(EXP), z3.ForAll([x], EXP(x) > 0, patterns=[EXP(x)]),
        z3.ForAll([x], z3.Implies(x > -1, EXP(LOG1P(x)) == 1 + x), patterns=[LOG1P(x)]),
        z3.ForAll([x], z3.Implies(x > 0, EXP(LOG(x)) == x), patterns=[LOG(x)]),
        z3.ForAll([x], z3.Implies(x >= 0, z3.And(SQRT(x) >= 0, SQRT(x) * SQRT(x) == x)), patterns=[SQRT(x)]),
        _mono(PPF, lo=0, hi=1), PPF(z3.Q(1, 2)) == 0,
    ]
    return out


def ground_math(formulas):
    """ground instances of the monotonicity axioms for all pairs of applications occurring in `formulas` (helps when
    E-matching does not fire inside If-terms); sound: instances of MATH_AXIOMS."""
    apps = {}
    seen = set()
    todo = list(formulas)
    while todo:
        t = todo.pop()
        if not z3.is_expr(t) or t.get_id() in seen:
            continue
        seen.add(t.get_id())
        if z3.is_quantifier(t):
            continue
        if z3.is_app(t):
            nm = t.decl().name()
            if nm in ('LOG1P', 'LOG', 'EXP', 'SQRT', 'PPF', 'SOFTCLIP') and t.num_args() == 1:
                apps.setdefault(nm, {})[t.arg(0).get_id()] = t.arg(0)
            todo.extend(t.children())
    out = []
    doms = {'LOG1P': (-1, None), 'LOG': (0, None), 'EXP': (None, None), 'SQRT': (0, None), 'PPF': (0, 1), 'SOFTCLIP': (None, None)}
    fns = {'LOG1P': LOG1P, 'LOG': LOG, 'EXP': EXP, 'SQRT': SQRT, 'PPF': PPF, 'SOFTCLIP': SOFTCLIP}
    for nm, args in apps.items():
        F, (lo, hi) = fns[nm], doms[nm]
        al = list(args.values())
        for a in al:
            if nm == 'EXP':
                out.append(EXP(a) > 0)
            if nm == 'SQRT':
                out.append(z3.Implies(a >= 0, z3.And(SQRT(a) >= 0, SQRT(a) * SQRT(a) == a)))
            if nm == 'LOG1P':
                out.append(z3.Implies(a > -1, EXP(LOG1P(a)) == 1 + a))
                out.append(z3.Implies(a > -1, z3.And(z3.Implies(a > 0, LOG1P(a) > 0), z3.Implies(a < 0, LOG1P(a) < 0), z3.Implies(a == 0, LOG1P(a) == 0))))
            if nm == 'LOG':
                out.append(z3.Implies(a > 0, EXP(LOG(a)) == a))
                out.append(z3.Implies(a > 0, z3.And(z3.Implies(a > 1, LOG(a) > 0), z3.Implies(a < 1, LOG(a) < 0), z3.Implies(a == 1, LOG(a) == 0))))
            if nm == 'PPF':
                h = z3.Q(1, 2)
                out.append(z3.Implies(z3.And(a > 0, a < 1), z3.And(z3.Implies(a > h, PPF(a) > 0), z3.Implies(a < h, PPF(a) < 0), z3.Implies(a == h, PPF(a) == 0))))
        for a in al:
            for b in al:
                if a.get_id() == b.get_id():
                    continue
                dom = [a < b]
                for v in (a, b):
                    if lo is not None:
                        dom.append(v > lo if nm != 'SQRT' else v >= lo)
                    if hi is not None:
                        dom.append(v < hi)
                out.append(z3.Implies(z3.And(*dom), F(a) < F(b)))
    return out


# ------------------------------------------------------------------------------------------ XReal arithmetic beyond + - *
def xdiv(a, b):
    """numpy float division: total (x/0 = +-inf by the sign of x, 0/0 = nan); signed zeros are not modelled"""
    ra, rb = X.r(a), X.r(b)
    return z3.If(z3.Or(X.is_nan(a), X.is_nan(b)), X.nan,
                 z3.If(z3.And(X.is_fin(a), X.is_fin(b)),
                       z3.If(rb != 0, X.fin(ra / rb), z3.If(ra == 0, X.nan, z3.If(ra > 0, X.pinf, X.ninf))),
                       z3.If(X.is_fin(b), z3.If(X.is_pinf(a) == (rb >= 0), X.pinf, X.ninf),
                             z3.If(X.is_fin(a), X.fin(z3.RealVal(0)), X.nan))))


def xpow2(a):
    return X.mul(a, a)


def xabs(a):
    return z3.If(X.is_fin(a), X.fin(z3.If(X.r(a) < 0, -X.r(a), X.r(a))), z3.If(X.is_nan(a), X.nan, X.pinf))


def xlog1p(a):
    ra = X.r(a)
    return z3.If(X.is_fin(a), z3.If(ra > -1, X.fin(LOG1P(ra)), z3.If(ra == -1, X.ninf, X.nan)), z3.If(X.is_pinf(a), X.pinf, X.nan))


def xlog(a):
    ra = X.r(a)
    return z3.If(X.is_fin(a), z3.If(ra > 0, X.fin(LOG(ra)), z3.If(ra == 0, X.ninf, X.nan)), z3.If(X.is_pinf(a), X.pinf, X.nan))


def xexp(a):
    return z3.If(X.is_fin(a), X.fin(EXP(X.r(a))), z3.If(X.is_pinf(a), X.pinf, z3.If(X.is_ninf(a), X.fin(z3.RealVal(0)), X.nan)))


def xsqrt(a):
    ra = X.r(a)
    return z3.If(X.is_fin(a), z3.If(ra >= 0, X.fin(SQRT(ra)), X.nan), z3.If(X.is_pinf(a), X.pinf, X.nan))


def xppf(a):
    ra = X.r(a)
    return z3.If(X.is_fin(a), z3.If(z3.And(ra > 0, ra < 1), X.fin(PPF(ra)), z3.If(ra == 0, X.ninf, z3.If(ra == 1, X.pinf, X.nan))), X.nan)


def _is_intlike(v):
    return (isinstance(v, int) and not isinstance(v, bool)) or (z3.is_expr(v) and v.sort() == I)


def fdiv(it, l, r):
    if not z3.is_expr(l) and not z3.is_expr(r):
        return M.binop(it, ast.Div(), l, r)
    if _is_intlike(l) and _is_intlike(r):
        return NP._binop(it, ast.Div(), l, r, False)      # python int / int (raises ZeroDivisionError)
    return z3.simplify(xdiv(X.lift(l), X.lift(r)))


def fpow(it, l, r):
    if not z3.is_expr(l) and not z3.is_expr(r):
        return l ** r
    if isinstance(r, int) and not isinstance(r, bool) and r == 2:
        if z3.is_expr(l) and l.sort() == I:
            return l * l
        return xpow2(X.lift(l))
    raise Unsupported('power with exponent %r' % (r,))


_np_scalar_op = NP._scalar_op
_np_result_dtype = NP._result_dtype


def _scalar_op(it, op, x, y):
    if isinstance(op, ast.Div):
        return fdiv(it, x, y)
    if isinstance(op, ast.Pow):
        return fpow(it, x, y)
    return _np_scalar_op(it, op, x, y)


def _result_dtype(op, a, b):
    if isinstance(op, ast.Div):
        return 'float'
    if isinstance(op, ast.Pow):
        return a.dtype if isinstance(a, NDArray) else NP.dtype_of_scalar(a)
    return _np_result_dtype(op, a, b)


NP._scalar_op = _scalar_op
NP._result_dtype = _result_dtype

_prev_binop = M.binop_hook


def _binop(it, op, l, r, inplace):
    if isinstance(l, NDArray) or isinstance(r, NDArray):
        return _prev_binop(it, op, l, r, inplace)
    if isinstance(op, ast.Div) and (z3.is_expr(l) or z3.is_expr(r)):
        return fdiv(it, l, r)
    if isinstance(op, ast.Pow) and (z3.is_expr(l) or z3.is_expr(r)):
        return fpow(it, l, r)
    return _prev_binop(it, op, l, r, inplace)


M.binop_hook = _binop

# `a[idx] op= v` on an array: python evaluates tmp = a[idx]; tmp = tmp op v; a[idx] = tmp (the engine's generic in-place path would
# update the temporary only)
_orig_augassign = E.Interp.s_AugAssign


def _s_augassign(self, fr, s):
    if isinstance(s.target, ast.Subscript) and isinstance(s.target.value, ast.Name):
        base = self.eval(fr, s.target.value)
        if isinstance(base, NDArray):
            idx = self.e_Slice(fr, s.target.slice) if isinstance(s.target.slice, ast.Slice) else self.eval(fr, s.target.slice)
            cur = M.subscript(self, base, idx)
            new = M.binop(self, s.op, cur, self.eval(fr, s.value))
            M.setitem(self, base, idx, new)
            return
    return _orig_augassign(self, fr, s)


E.Interp.s_AugAssign = _s_augassign


# ------------------------------------------------------------------------------------------ element-wise library functions
def _lift_map(fn_x, out_dtype='float', tag=None):
    """element-wise function on XReal scalars, applied to arrays / scalars"""
    def scalar(it, v):
        return fn_x(X.lift(v))

    def fn(it, args, kw):
        a = args[0]
        r = map1(scalar, out_dtype)(it, [a], kw)
        if tag is not None and isinstance(a, NDArray) and isinstance(r, NDArray):
            r.pred_of = (tag, a.fn, a.shape)          # ghost: r == tag(a) element-wise for this (immutable) content of a
        return r
    return fn


_isfinite = _lift_map(lambda x: X.is_fin(x), 'bool', 'isfinite')
_isnan = _lift_map(lambda x: X.is_nan(x), 'bool', 'isnan')
_isposinf = _lift_map(lambda x: X.is_pinf(x), 'bool', 'isposinf')
_isneginf = _lift_map(lambda x: X.is_ninf(x), 'bool', 'isneginf')


def _np_isclose(it, args, kw):
    a, b = args[0], args[1]
    rtol, atol = kw.get('rtol', 1e-05), kw.get('atol', 1e-08)
    if isinstance(a, NDArray) or isinstance(b, NDArray):
        raise Unsupported('np.isclose on arrays')
    a, b = X.lift(a), X.lift(b)
    ra, rb = X.r(a), X.r(b)
    ab = lambda t: z3.If(t < 0, -t, t)
    return z3.If(z3.And(X.is_fin(a), X.is_fin(b)), ab(ra - rb) <= X.r(X.lit(atol)) + X.r(X.lit(rtol)) * ab(rb),
                 z3.And(z3.Not(X.is_nan(a)), a == b))


for _pkg in ('numpy', 'jax.numpy'):
    EXTERNAL[_pkg + '.isfinite'] = Builtin('np.isfinite', _isfinite)
    EXTERNAL[_pkg + '.isnan'] = Builtin('np.isnan', _isnan)
    EXTERNAL[_pkg + '.isposinf'] = Builtin('np.isposinf', _isposinf)
    EXTERNAL[_pkg + '.isneginf'] = Builtin('np.isneginf', _isneginf)
    EXTERNAL[_pkg + '.log1p'] = Builtin('np.log1p', _lift_map(xlog1p))
    EXTERNAL[_pkg + '.log'] = Builtin('np.log', _lift_map(xlog))
    EXTERNAL[_pkg + '.exp'] = Builtin('np.exp', _lift_map(xexp))
    EXTERNAL[_pkg + '.sqrt'] = Builtin('np.sqrt', _lift_map(xsqrt))
    EXTERNAL[_pkg + '.abs'] = Builtin('np.abs', _lift_map(xabs))
    EXTERNAL[_pkg + '.isclose'] = Builtin('np.isclose', _np_isclose)
    EXTERNAL[_pkg + '.newaxis'] = None
EXTERNAL['scipy.stats.norm.ppf'] = Builtin('scipy.stats.norm.ppf', _lift_map(xppf))


# ------------------------------------------------------------------------------------------ quantification over all elements
def _rank12(a, what):
    if not isinstance(a, NDArray):
        raise Unsupported('%s of %r' % (what, a))
    if a.rank not in (1, 2):
        raise Unsupported('%s of a rank-%d array' % (what, a.rank))
    if a.dtype != 'float':
        a = NP.astype(a, 'float')
    return a


def forall_elems(a, body):
    f = a.fn
    if a.rank == 1:
        return QA(a.shape[0], lambda i: body(f(i)))
    return QA(a.shape[0], lambda i: QA(a.shape[1], lambda k: body(f(i, k))))


def exists_elem(a, body):
    f = a.fn
    if a.rank == 1:
        return QE(a.shape[0], lambda i: body(f(i)))
    return QE(a.shape[0], lambda i: QE(a.shape[1], lambda k: body(f(i, k))))


def total_size(a):
    n = zi(a.shape[0])
    for s in a.shape[1:]:
        n = n * zi(s)
    return norm(z3.simplify(n))


def witness(it, a, name):
    """a fresh position of `a` (Skolem witness of an existential library fact): returns (element term, in-range fact)"""
    run = it.run
    if a.rank == 1:
        w = run.fresh(name, I)
        return a.fn(w), z3.And(w >= 0, w < zi(a.shape[0]))
    w, k = run.fresh(name, I), run.fresh(name + 'k', I)
    return a.fn(w, k), z3.And(w >= 0, w < zi(a.shape[0]), k >= 0, k < zi(a.shape[1]))


def named_bool(it, f, name='npb'):
    """name a (possibly quantified) formula by a fresh Bool with a defining axiom"""
    if isinstance(f, bool) or not E._has_quantifier(f):
        return f
    b = it.run.fresh(name, z3.BoolSort())
    it.run.axiom(b == f)
    return b


# ------------------------------------------------------------------------------------------ reductions over float arrays
contract('numpy.nanmin/nanmax', 'nanmin(a)/nanmax(a): ValueError for an empty a; NaN when a has no non-NaN element; otherwise a non-NaN element of a that is <= / >= every '
         'non-NaN element of a')
contract('numpy.min/max', 'np.min(a)/np.max(a): ValueError for an empty a; NaN when a contains NaN; otherwise an element of a that is <= / >= every element')
contract('numpy.nanmedian', 'nanmedian(a): NaN when a has no non-NaN element; otherwise (non-NaN elements all finite) a finite value m with '
         'min <= m <= max over the non-NaN elements (so some element is >= m and some element is <= m)')
contract('numpy.median', 'median(a) (a non-empty): NaN when a contains NaN, otherwise as nanmedian')
contract('numpy.nanmean', 'nanmean(a): NaN when a has no non-NaN element; otherwise (non-NaN elements finite) finite with min <= mean <= max')
contract('numpy.nanstd', 'nanstd(a): NaN when a has no non-NaN element; otherwise (non-NaN elements finite) finite, >= 0, and == 0 exactly '
         'when all non-NaN elements are equal (real arithmetic)')
contract('ndarray.sum', 'a.sum() of a float array: NaN if some element is NaN; for finite elements a finite value; when all elements are '
         'finite and >= 0: >= every element and == 0 iff all elements are 0 (empty: 0)')


def _extreme(it, a, which, nan_aware, name):
    a = _rank12(a, name)
    run = it.run
    use(it, 'numpy.nanmin/nanmax' if nan_aware else 'numpy.min/max')
    if it.pure:
        raise Unsupported('%s in pure mode' % name)
    if not it.truth(zi(total_size(a)) > 0):
        raise PyRaise(it.make_exc('ValueError', ['zero-size array to reduction operation which has no identity']))
    m = run.fresh(name, X.XReal)
    le = (lambda x: X.le(m, x)) if which == 'min' else (lambda x: X.le(x, m))
    notnan = lambda x: z3.Not(X.is_nan(x))
    some = named_bool(it, exists_elem(a, notnan), 'somenum')
    anynan = named_bool(it, exists_elem(a, X.is_nan), 'anynan')
    wv, wr = witness(it, a, 'w' + name)
    bound = forall_elems(a, lambda x: z3.Implies(notnan(x), le(x)))
    if nan_aware:
        fact(run, z3.Implies(z3.Not(zb(some)), X.is_nan(m)))
        fact(run, z3.Implies(zb(some), z3.And(wr, wv == m, notnan(m))))
        fact(run, bound)
    else:
        fact(run, z3.Implies(zb(anynan), X.is_nan(m)))
        fact(run, z3.Implies(z3.Not(zb(anynan)), z3.And(wr, wv == m, notnan(m))))
        fact(run, z3.Implies(z3.Not(zb(anynan)), bound))
    return m


def zb(c):
    return z3.BoolVal(c) if isinstance(c, bool) else c


def _central(it, a, kind, nan_aware, name):
    """nanmedian / median / nanmean: a value between the extremes"""
    a = _rank12(a, name)
    run = it.run
    use(it, {'median': 'numpy.nanmedian' if nan_aware else 'numpy.median', 'mean': 'numpy.nanmean'}[kind])
    if it.pure:
        raise Unsupported('%s in pure mode' % name)
    m = run.fresh(name, X.XReal)
    notnan = lambda x: z3.Not(X.is_nan(x))
    some = named_bool(it, exists_elem(a, notnan), 'somenum')
    allfin = named_bool(it, forall_elems(a, lambda x: z3.Or(X.is_nan(x), X.is_fin(x))), 'allfin')
    lo_v, lo_r = witness(it, a, 'wlo_' + name)
    hi_v, hi_r = witness(it, a, 'whi_' + name)
    ok = z3.And(zb(some), zb(allfin))
    if nan_aware:
        fact(run, z3.Implies(z3.Not(zb(some)), X.is_nan(m)))
    else:
        anynan = named_bool(it, exists_elem(a, X.is_nan), 'anynan')
        fact(run, z3.Implies(z3.Or(zb(anynan), z3.Not(zb(some))), X.is_nan(m)))
        ok = z3.And(ok, z3.Not(zb(anynan)))
    fact(run, z3.Implies(ok, z3.And(X.is_fin(m), lo_r, hi_r, X.is_fin(lo_v), X.is_fin(hi_v), X.le(lo_v, m), X.le(m, hi_v))))
    return m


def _nanstd(it, a):
    a = _rank12(a, 'nanstd')
    run = it.run
    use(it, 'numpy.nanstd')
    s = run.fresh('nanstd', X.XReal)
    notnan = lambda x: z3.Not(X.is_nan(x))
    some = named_bool(it, exists_elem(a, notnan), 'somenum')
    allfin = named_bool(it, forall_elems(a, lambda x: z3.Or(X.is_nan(x), X.is_fin(x))), 'allfin')
    # all non-NaN elements equal  <=>  all equal to the witness element
    wv, wr = witness(it, a, 'wstd')
    alleq = named_bool(it, forall_elems(a, lambda x: z3.Implies(notnan(x), x == wv)), 'alleq')
    fact(run, z3.Implies(z3.Not(zb(some)), X.is_nan(s)))
    fact(run, z3.Implies(z3.And(zb(some), zb(allfin)), z3.And(X.is_fin(s), X.r(s) >= 0, wr, notnan(wv), (X.r(s) == 0) == zb(alleq))))
    return s


def float_sum(it, a):
    a = _rank12(a, 'sum')
    run = it.run
    use(it, 'ndarray.sum')
    if it.pure:
        raise Unsupported('float sum in pure mode')
    s = run.fresh('fsum', X.XReal)
    anynan = named_bool(it, exists_elem(a, X.is_nan), 'anynan')
    allfin = named_bool(it, forall_elems(a, X.is_fin), 'allfin')
    nonneg = named_bool(it, forall_elems(a, lambda x: z3.And(X.is_fin(x), X.r(x) >= 0)), 'nonneg')
    allzero = named_bool(it, forall_elems(a, lambda x: x == X.fin(z3.RealVal(0))), 'allzero')
    fact(run, z3.Implies(zb(anynan), X.is_nan(s)))
    fact(run, z3.Implies(zb(allfin), X.is_fin(s)))
    fact(run, z3.Implies(zb(nonneg), z3.And(X.is_fin(s), X.r(s) >= 0, (X.r(s) == 0) == zb(allzero))))
    fact(run, z3.Implies(zb(nonneg), forall_elems(a, lambda x: X.r(x) <= X.r(s))))
    return s


def _np_fn(f):
    return lambda it, args, kw: f(it, args[0])


for _pkg in ('numpy', 'jax.numpy'):
    EXTERNAL[_pkg + '.nanmin'] = Builtin('np.nanmin', lambda it, args, kw: _extreme(it, args[0], 'min', True, 'nanmin'))
    EXTERNAL[_pkg + '.nanmax'] = Builtin('np.nanmax', lambda it, args, kw: _extreme(it, args[0], 'max', True, 'nanmax'))
    EXTERNAL[_pkg + '.nanmedian'] = Builtin('np.nanmedian', lambda it, args, kw: _central(it, args[0], 'median', True, 'nanmedian'))
    EXTERNAL[_pkg + '.median'] = Builtin('np.median', lambda it, args, kw: _central(it, args[0], 'median', False, 'median'))
    EXTERNAL[_pkg + '.nanmean'] = Builtin('np.nanmean', lambda it, args, kw: _central(it, args[0], 'mean', True, 'nanmean'))
    EXTERNAL[_pkg + '.nanstd'] = Builtin('np.nanstd', _np_fn(_nanstd))


def _np_minmax(which):
    def fn(it, args, kw):
        if kw.get('axis', args[1] if len(args) > 1 else None) is not None:
            raise Unsupported('np.%s with an axis' % which)
        a = args[0]
        if isinstance(a, NDArray) and a.dtype == 'float':
            return _extreme(it, a, which, False, which)
        if which == 'max':
            return NP._np_max(it, args, kw)
        raise Unsupported('np.min of %r' % (a,))
    return fn


for _pkg in ('numpy', 'jax.numpy'):
    EXTERNAL[_pkg + '.min'] = Builtin('np.min', _np_minmax('min'))
    EXTERNAL[_pkg + '.max'] = Builtin('np.max', _np_minmax('max'))


# ------------------------------------------------------------------------------------------ array methods / attributes
def copy_of(a):
    """a fresh array object with the same content (numpy copy semantics)"""
    r = NDArray(a.shape, a.dtype, a.fn)
    for g in ('pred_of', 'finite_vals_of', 'valid_for'):
        if hasattr(a, g):
            setattr(r, g, getattr(a, g))
    return r


def flatten(it, a):
    if a.rank == 1:
        return copy_of(a)
    n, d = a.shape
    if implied(it, zi(d) == 1):
        f = a.fn
        r = NDArray((n,), a.dtype, lambda i: f(i, z3.IntVal(0)))
        r.flat_of = (a.fn,)
        return r
    if implied(it, zi(n) == 1):
        f = a.fn
        return NDArray((d,), a.dtype, lambda k: f(z3.IntVal(0), k))
    raise Unsupported('flatten() of an (n, d) array with d != 1')


def col0(it, m):
    """the (n,) view of an (n, 1) array; cached per content so that mask enumerations are shared"""
    hit = m.__dict__.get('_col0')
    if hit is not None and hit[0] is m.fn:
        return hit[1]
    if not implied(it, zi(m.shape[1]) == 1):
        raise Unsupported('boolean mask of shape (n, d) with d != 1')
    f = m.fn
    r = NDArray((m.shape[0],), m.dtype, lambda i: f(i, z3.IntVal(0)))
    if hasattr(m, 'pred_of'):
        r.pred_of = m.pred_of + ('col0',)
    r._src2 = m.fn            # remember the (n, 1) source so that `isfinite(a2d)` used as a mask on a2d itself is recognised
    m.__dict__['_col0'] = (m.fn, r)
    return r


def item(it, a):
    if not it.truth(zi(total_size(a)) == 1):
        raise PyRaise(it.make_exc('ValueError', ['can only convert an array of size 1 to a Python scalar']))
    return a.fn(*([z3.IntVal(0)] * a.rank))


def reshape(it, a, shape):
    shape = tuple(shape) if isinstance(shape, (tuple, list)) else (shape,)
    shape = tuple(norm(zi(s)) for s in shape)
    if len(shape) == a.rank and all(implied(it, zi(x) == zi(y)) for x, y in zip(shape, a.shape)):
        return copy_of(a)
    if a.rank == 1 and len(shape) == 2 and implied(it, zi(shape[1]) == 1) and implied(it, zi(shape[0]) == zi(a.shape[0])):
        f = a.fn
        return NDArray((a.shape[0], 1), a.dtype, lambda i, k: f(i))
    if a.rank == 2 and len(shape) == 1:
        return flatten(it, a)
    raise Unsupported('reshape %r -> %r' % (a.shape, shape))


_DTYPE = Obj('numpy.dtype', {'name': 'float64'})
_np_dtype_arg = NP.dtype_arg


def _dtype_arg(d, default=None):
    if d is _DTYPE:
        return 'float'
    return _np_dtype_arg(d, default)


NP.dtype_arg = _dtype_arg


def _getattr(it, v, a):
    if not isinstance(v, NDArray):
        return M.MISSING
    if a == 'astype':
        def astype(it_, args, kw):
            dt = NP.dtype_arg(args[0] if args else kw.get('dtype'))
            f = v.fn
            if dt == v.dtype:
                return copy_of(v)
            return NDArray(v.shape, dt, lambda *i: elem_of(f(*i), dt))
        return Builtin('astype', astype)
    if a == 'flatten':
        return Builtin('flatten', lambda it_, args, kw: flatten(it_, v))
    if a == 'size':
        return total_size(v)
    if a == 'dtype':
        return _DTYPE
    if a == 'item':
        return Builtin('item', lambda it_, args, kw: item(it_, v))
    if a == 'copy':
        return Builtin('copy', lambda it_, args, kw: copy_of(v))
    if a == 'searchsorted':
        return Builtin('searchsorted', lambda it_, args, kw: searchsorted(it_, v, args[0], kw.get('side', args[1] if len(args) > 1 else 'left')))
    if a == 'sum' and v.dtype == 'float':
        def fsum(it_, args, kw):
            if args or kw.get('axis') is not None:
                raise Unsupported('float sum with an axis')
            return float_sum(it_, v)
        return Builtin('sum', fsum)
    if a == 'reshape':
        return Builtin('reshape', lambda it_, args, kw: reshape(it_, v, args[0] if len(args) == 1 else tuple(args)))
    if a in ('min', 'max') and v.dtype == 'float':
        return Builtin(a, lambda it_, args, kw: _extreme(it_, v, a, False, a))
    return M.MISSING


NP._chain('value_getattr_hook', _getattr)

contract('numpy.searchsorted', "searchsorted(a, v, side) on an ascending NaN-free a (ascending order is a proof obligation): the s in [0, len(a)] "
         "with a[:s] < v <= a[s:] ('left') / a[:s] <= v < a[s:] ('right')")


def searchsorted(it, a, v, side='left'):
    use(it, 'numpy.searchsorted')
    s = NP.searchsorted(it, a, v, side)
    return s


EXTERNAL['numpy.searchsorted'] = Builtin('np.searchsorted', lambda it, args, kw: searchsorted(it, args[0], args[1], kw.get('side', args[2] if len(args) > 2 else 'left')))


def _np_reshape(it, args, kw):
    a = args[0]
    if not isinstance(a, NDArray):
        raise Unsupported('np.reshape of %r' % (a,))
    return reshape(it, a, args[1] if len(args) > 1 else kw.get('shape', kw.get('newshape')))


def _np_full(value):
    def fn(it, args, kw):
        shape = shape_arg(it, args[0] if args else kw['shape'])
        if len(shape) > 2:
            raise Unsupported('arrays of rank > 2')
        return const_array(shape, NP.dtype_arg(kw.get('dtype', args[1] if len(args) > 1 else None), 'float'), value)
    return fn


_prev_np_array = EXTERNAL['numpy.array'].fn


def _np_array(it, args, kw):
    v = args[0]
    dt = NP.dtype_arg(kw.get('dtype', args[1] if len(args) > 1 else None)) if (kw.get('dtype') is not None or len(args) > 1) else None
    if isinstance(v, NDArray):
        r = copy_of(v)
        return r if dt in (None, r.dtype) else NP.astype(r, dt)
    if z3.is_expr(v) or isinstance(v, (bool, int, float)):
        return X.lift(v) if dt == 'float' else v       # 0-d array identified with the scalar
    return _prev_np_array(it, args, kw)


def _np_asarray(it, args, kw):
    v = args[0]
    if isinstance(v, NDArray):
        dt = NP.dtype_arg(kw.get('dtype', args[1] if len(args) > 1 else None)) if (kw.get('dtype') is not None or len(args) > 1) else None
        if dt in (None, v.dtype):
            return v                                   # np.asarray of an array of the requested dtype is the SAME object (no copy)
    return _np_array(it, args, kw)


for _pkg in ('numpy', 'jax.numpy'):
    EXTERNAL[_pkg + '.reshape'] = Builtin('np.reshape', _np_reshape)
    EXTERNAL[_pkg + '.zeros'] = Builtin('np.zeros', _np_full(0.0))
    EXTERNAL[_pkg + '.ones'] = Builtin('np.ones', _np_full(1.0))
    EXTERNAL[_pkg + '.array'] = Builtin('np.array', _np_array)
    EXTERNAL[_pkg + '.asarray'] = Builtin('np.asarray', _np_asarray)


# ------------------------------------------------------------------------------------------ indexing extensions
def _is_full_slice(s):
    return isinstance(s, slice) and s.start is None and s.stop is None and s.step in (None, 1)


def _subscript(it, base, idx):
    if not isinstance(base, NDArray):
        return M.MISSING
    # a[:, np.newaxis]
    if isinstance(idx, tuple) and len(idx) == 2 and _is_full_slice(idx[0]) and idx[1] is None and base.rank == 1:
        f = base.fn
        r = NDArray((base.shape[0], 1), base.dtype, lambda i, k: f(i))
        r.col_of = base
        r.view_of = base
        return r
    # (n, 1) array indexed by an (n, 1) boolean mask
    if isinstance(idx, NDArray) and idx.dtype == 'bool' and idx.rank == 2 and base.rank == 2:
        NP.same_dim(it, base.shape[0], idx.shape[0])
        NP.same_dim(it, base.shape[1], idx.shape[1])
        a1, m1 = col0(it, base), col0(it, idx)
        return _subscript(it, a1, m1)
    if isinstance(idx, NDArray) and idx.dtype == 'bool' and idx.rank == 1 and base.rank == 1:
        r = NP.getitem(it, base, idx)
        po = getattr(idx, 'pred_of', None)
        if po is not None and po[0] == 'isfinite' and (po[1] is base.fn or (po[-1] == 'col0' and getattr(base, '_src2', None) is po[1])):
            r.finite_vals_of = base          # ghost: the elements of r are exactly the finite elements of `base` (in order)
        r.mask_read = (base.fn, idx)
        return r
    # gather through an integer index array with a known valid range
    if isinstance(idx, NDArray) and idx.dtype == 'int' and idx.rank == 1 and base.rank == 1 and getattr(idx, 'valid_for', None) is not None:
        if not implied(it, zi(idx.valid_for) == zi(base.shape[0])):
            raise Unsupported('integer index array whose valid range is not the extent of the indexed axis')
        f, g = base.fn, idx.fn
        r = NDArray((idx.shape[0],), base.dtype, lambda t: f(g(t)))
        r.gather_of = (base, idx)         # ghost: r[t] == base[idx[t]]
        return r
    return M.MISSING


def _setitem(it, base, idx, v):
    if not isinstance(base, NDArray):
        return M.MISSING
    if base.rank == 2 and isinstance(idx, NDArray) and idx.dtype == 'bool' and idx.rank == 2:
        NP.same_dim(it, base.shape[0], idx.shape[0])
        NP.same_dim(it, base.shape[1], idx.shape[1])
        m1 = col0(it, idx)
        cnt, sel, rnk = NP.mask_info(it, m1)
        old, mf, dt = base.fn, idx.fn, base.dtype
        if isinstance(v, NDArray):
            if v.rank != 1:
                raise Unsupported('masked assignment of a rank-%d array' % v.rank)
            NP.same_dim(it, v.shape[0], cnt)
            vf = v.fn
            val = lambda i: elem_of(vf(rnk(i)), dt)
        else:
            sv = elem_of(v, dt)
            val = lambda i: sv
        base.fn = lambda i, k: z3.If(mf(i, k), val(i), old(i, k))
        base.version += 1
        return True
    if base.rank == 2 and _is_full_slice(idx) and not isinstance(v, NDArray):
        sv = elem_of(v, base.dtype)
        base.fn = lambda i, k: sv
        base.version += 1
        return True
    return M.MISSING


NP._chain('subscript_hook', _subscript)
NP._chain('setitem_hook', _setitem)


# ------------------------------------------------------------------------------------------ distinct finite values of an array (ghost)
class ValueSet:
    """cnt(v) = number of distinct finite elements of A that are < v;  K = number of distinct finite elements;  mem(v) = v is one"""

    def __init__(self, it, A):
        run = it.run
        run.fresh_n += 1
        k = run.fresh_n
        self.A, self.n = A.fn, A.shape[0]
        self.cnt = z3.Function('cnt!%d' % k, R, I)
        self.mem = z3.Function('mem!%d' % k, R, z3.BoolSort())
        self.K = run.fresh('K', I)
        cnt, mem, K, f, n = self.cnt, self.mem, self.K, self.A, self.n
        v, w = z3.Real('vs!v%d' % k), z3.Real('vs!w%d' % k)
        run.assume(z3.And(K >= 0, K <= zi(n)))
        run.axiom(z3.ForAll([v], z3.And(cnt(v) >= 0, cnt(v) <= K), patterns=[cnt(v)]))
        run.axiom(z3.ForAll([v, w], z3.Implies(v <= w, cnt(v) <= cnt(w)), patterns=[z3.MultiPattern(cnt(v), cnt(w))]))
        run.axiom(z3.ForAll([v, w], z3.Implies(z3.And(mem(v), v < w), cnt(v) < cnt(w)), patterns=[z3.MultiPattern(mem(v), cnt(w))]))
        run.axiom(z3.ForAll([v], z3.Implies(mem(v), cnt(v) < K), patterns=[mem(v)]))
        fact(run, QA(n, lambda j: z3.Implies(X.is_fin(f(j)), mem(X.r(f(j))))))
        nofin = named_bool(it, QA(n, lambda j: z3.Not(X.is_fin(f(j)))), 'nofin')
        fact(run, (K == 0) == zb(nofin))


VALUE_SET_FACTS = ('for the counting function cnt(v) = #{distinct finite elements of A below v} and K = #{distinct finite elements of A}: '
                   '0 <= cnt(v) <= K; v <= w -> cnt(v) <= cnt(w); for an element x of A and x < w: cnt(x) < cnt(w); cnt(x) < K; K <= len(A); '
                   'K = 0 iff A has no finite element (mathematical facts about finite sets, not about a library)')


def value_set(it, A):
    cache = it.run.__dict__.setdefault('vsets', {})
    hit = cache.get(id(A.fn))
    if hit is not None and hit[0] is A.fn:
        return hit[1]
    vs = ValueSet(it, A)
    it.run.assumed.add(VALUE_SET_FACTS)
    cache[id(A.fn)] = (A.fn, vs)
    return vs


contract('numpy.unique', 'np.unique(a) of a finite-valued array (flattened): the strictly ascending array u of the K distinct values of a; '
         'u[cnt(x)] == x for every element x; with return_index=True additionally idx with a[idx[t]] == u[t] and idx[t] the first such position')
contract('scipy.stats.rankdata', "rankdata(a, method='dense') (1-d float a): with the default nan_policy='propagate' every rank is NaN as soon as a "
         "contains a NaN; otherwise (or with nan_policy='omit' on the non-NaN entries, NaN entries ranking NaN) rank[j] == 1 + #{distinct non-NaN values "
         "of a below a[j]} as a float")


def np_unique(it, args, kw):
    a = args[0]
    if not isinstance(a, NDArray) or a.dtype != 'float':
        raise Unsupported('np.unique of %r' % (a,))
    for k in kw:
        if k != 'return_index':
            raise Unsupported('np.unique(%s=...)' % k)
    if it.pure:
        raise Unsupported('np.unique in pure mode')
    use(it, 'numpy.unique')
    run = it.run
    if a.rank == 2:
        a = flatten(it, a)
    root = getattr(a, 'finite_vals_of', None)
    if root is None:
        run.oblige('numpy.unique.requires_finite_values', forall_elems(a, X.is_fin))
        root = a
    vs = value_set(it, root)
    K, cnt, mem = vs.K, vs.cnt, vs.mem
    f, n = root.fn, root.shape[0]
    u = fresh_fn(run, 'uniq', 1, X.XReal)
    wit = fresh_fn(run, 'uwit', 1, I)
    fact(run, QA(n, lambda j: z3.Implies(X.is_fin(f(j)), u(cnt(X.r(f(j)))) == f(j))))
    t = z3.Int('uq!t%d' % next(_uid))
    run.axiom(z3.ForAll([t], z3.Implies(z3.And(t >= 0, t < K), z3.And(wit(t) >= 0, wit(t) < zi(n), X.is_fin(f(wit(t))), f(wit(t)) == u(t),
                                                                     X.is_fin(u(t)), cnt(X.r(u(t))) == t, mem(X.r(u(t))))), patterns=[u(t)]))
    t1, t2 = z3.Int('uq!a%d' % next(_uid)), z3.Int('uq!b%d' % next(_uid))
    asc = z3.ForAll([t1, t2], z3.Implies(z3.And(t1 >= 0, t1 < t2, t2 < K), X.r(u(t1)) < X.r(u(t2))), patterns=[z3.MultiPattern(u(t1), u(t2))])
    run.axiom(asc)
    res = NDArray((K,), 'float', lambda t_: u(t_))
    res.unique_of = (root, vs, u, wit)
    res.strictly_ascending = True
    run.__dict__.setdefault('np_uniques', []).append(res)
    if not kw.get('return_index', False):
        return res
    g, m = a.fn, a.shape[0]
    idx = fresh_fn(run, 'uidx', 1, I)
    j = z3.Int('uq!j%d' % next(_uid))
    run.axiom(z3.ForAll([t], z3.Implies(z3.And(t >= 0, t < K), z3.And(idx(t) >= 0, idx(t) < zi(m), g(idx(t)) == u(t))), patterns=[idx(t)]))
    run.axiom(z3.ForAll([t, j], z3.Implies(z3.And(t >= 0, t < K, j >= 0, j < idx(t)), g(j) != u(t))))
    ri = NDArray((K,), 'int', lambda t_: idx(t_))
    ri.valid_for = m
    ri.index_of = (a, res)
    return (res, ri)


def rankdata(it, args, kw):
    a = args[0]
    method = kw.get('method', args[1] if len(args) > 1 else 'average')
    policy = kw.get('nan_policy', 'propagate')
    for k in kw:
        if k not in ('method', 'nan_policy'):
            raise Unsupported('rankdata(%s=...)' % k)
    if method != 'dense' or policy not in ('propagate', 'omit'):
        raise Unsupported("rankdata(method=%r, nan_policy=%r): only method='dense' with nan_policy propagate/omit is modelled" % (method, policy))
    if not isinstance(a, NDArray) or a.rank != 1 or a.dtype != 'float':
        raise Unsupported('rankdata of %r' % (a,))
    use(it, 'scipy.stats.rankdata')
    run = it.run
    vs = value_set(it, a)
    f, n, cnt = a.fn, a.shape[0], vs.cnt
    rk = fresh_fn(run, 'ranks', 1, X.XReal)
    anynan = named_bool(it, QE(n, lambda j: X.is_nan(f(j))), 'anynan')
    dense = lambda j: z3.If(X.is_fin(f(j)), rk(j) == X.fin(z3.ToReal(cnt(X.r(f(j))) + 1)), z3.Implies(X.is_nan(f(j)), X.is_nan(rk(j))))
    if policy == 'propagate':
        fact(run, z3.Implies(zb(anynan), QA(n, lambda j: X.is_nan(rk(j)))))
        fact(run, z3.Implies(z3.Not(zb(anynan)), QA(n, dense)))
    else:
        fact(run, QA(n, dense))
    r = NDArray((n,), 'float', lambda j: rk(j))
    r.ranks_of = (a, vs, policy)
    run.__dict__.setdefault('np_ranks', []).append(r)
    return r


def np_argmin(it, args, kw):
    c = args[0]
    if not isinstance(c, NDArray) or c.rank != 1 or c.dtype != 'float':
        raise Unsupported('np.argmin of %r' % (c,))
    use(it, 'numpy.argmin')
    run = it.run
    n, f = c.shape[0], c.fn
    if not it.truth(zi(n) > 0):
        raise PyRaise(it.make_exc('ValueError', ['attempt to get argmin of an empty sequence']))
    b = run.fresh('argmin', I)
    run.assume(z3.And(b >= 0, b < zi(n)))
    anynan = named_bool(it, QE(n, lambda j: X.is_nan(f(j))), 'anynan')
    fact(run, z3.Implies(z3.Not(zb(anynan)), QA(n, lambda t: z3.And(X.le(f(b), f(t)), z3.Implies(t < b, X.lt(f(b), f(t)))))))
    fact(run, z3.Implies(zb(anynan), z3.And(X.is_nan(f(b)), QA(n, lambda t: z3.Implies(t < b, z3.Not(X.is_nan(f(t))))))))
    run.__dict__.setdefault('np_argmins', []).append((c, b))        # ghost: lets a contract name the result
    return b


contract('numpy.argmin', 'np.argmin(c) of a non-empty 1-d float array: the first position of the minimum (of the first NaN if there is one)')
contract('numpy.interp', 'np.interp(x, (x0, x1), (f0, f1)) with finite x0 < x1: f0 for x <= x0, f1 for x >= x1, f0 + (x - x0) * (f1 - f0) / (x1 - x0) '
         'in between (NaN for NaN)')


def np_interp(it, args, kw):
    x, xp, fp = args[0], args[1], args[2]
    if not (isinstance(xp, (tuple, list)) and isinstance(fp, (tuple, list)) and len(xp) == 2 and len(fp) == 2):
        raise Unsupported('np.interp with other than two sample points')
    use(it, 'numpy.interp')
    x0, x1, f0, f1 = [X.lift(v) for v in (xp[0], xp[1], fp[0], fp[1])]
    it.run.oblige('numpy.interp.requires_increasing_xp', z3.And(X.is_fin(x0), X.is_fin(x1), X.r(x0) < X.r(x1)))

    def one(it_, v):
        v = X.lift(v)
        mid = X.add(f0, xdiv(X.mul(X.sub(v, x0), X.sub(f1, f0)), X.sub(x1, x0)))
        return z3.If(X.is_nan(v), X.nan, z3.If(X.le(v, x0), f0, z3.If(X.le(x1, v), f1, mid)))
    return map1(one, 'float')(it, [x], {})


for _pkg in ('numpy', 'jax.numpy'):
    EXTERNAL[_pkg + '.unique'] = Builtin('np.unique', np_unique)
    EXTERNAL[_pkg + '.argmin'] = Builtin('np.argmin', np_argmin)
    EXTERNAL[_pkg + '.interp'] = Builtin('np.interp', np_interp)
EXTERNAL['scipy.stats.rankdata'] = Builtin('scipy.stats.rankdata', rankdata)


# ------------------------------------------------------------------------------------------ naming of float scalars
# proof engineering (definitional extension, sound): a float scalar that is assigned to a variable / attribute is named by a fresh constant
# with a defining equation, so that big arithmetic terms (e.g. the shift of InfeasibleWarperComponent) are not duplicated in every array element
_orig_assign = E.Interp.assign
NAME_SCALARS = True


def _term_size(t, limit=12):
    n, todo, seen = 0, [t], set()
    while todo and n <= limit:
        x = todo.pop()
        if x.get_id() in seen:
            continue
        seen.add(x.get_id())
        n += 1
        todo.extend(x.children())
    return n


def _assign(self, fr, t, v):
    if NAME_SCALARS and not self.pure and isinstance(t, (ast.Name, ast.Attribute)) and z3.is_expr(v) and v.sort() == X.XReal \
            and not z3.is_const(v) and _term_size(v) > 12:
        nm = t.id if isinstance(t, ast.Name) else t.attr
        c = self.run.fresh('v_' + nm.strip('_'), X.XReal)
        self.run.assume(c == v)
        self.run.__dict__.setdefault('named_defs', {})[c.get_id()] = v       # ghost: the defining term of a named scalar
        v = c
    return _orig_assign(self, fr, t, v)


E.Interp.assign = _assign


# ------------------------------------------------------------------------------------------ `for i in range(<symbolic>)` under a loop contract
_orig_symbolic_loop = E.Interp.symbolic_loop


ROLE_LOOPS = []      # fn(interp, frame, loop node, iterable) -> LoopSpec | None : loop contracts bound by the ROLE of the loop, wherever it lives


def _symbolic_loop(self, fr, s, it):
    key = self.loop_key(fr, s)
    if key not in E.LOOPS:
        for match in ROLE_LOOPS:
            spec = match(self, fr, s, it)
            if spec is not None:
                E.LOOPS[key] = spec          # bound for this run of the checker (the key is the loop's position in the current source)
                break
    if isinstance(it, M.SymRange) and conc(it.step) == 1:
        lo, hi = zi(it.lo), zi(it.hi)
        n = z3.If(hi > lo, hi - lo, 0) if not implied(self, hi >= lo) else hi - lo
        it = NP.EnumList(norm(z3.simplify(n)), (lambda i: i) if conc(lo) == 0 else (lambda i: z3.simplify(lo + i)))
    return _orig_symbolic_loop(self, fr, s, it)


E.Interp.symbolic_loop = _symbolic_loop


# ------------------------------------------------------------------------------------------ tensorflow_probability pieces used by TransformToGaussian
contract('tfp.bijectors.SoftClip', 'tfp.bijectors.SoftClip(low, high, hinge_softness).forward (low < high): element-wise, strictly increasing on the reals, '
         'with values strictly between low and high; NaN for NaN')
contract('tfp.distributions.Normal.quantile', 'tfp.distributions.Normal(0, 1).quantile is the standard normal quantile function (scipy.stats.norm.ppf) element-wise')
TFP = 'tensorflow_probability.substrates.jax.'


def _softclip(it, args, kw):
    low, high = X.lift(kw.get('low', args[0] if args else None)), X.lift(kw.get('high', args[1] if len(args) > 1 else None))
    run = it.run
    run.fresh_n += 1
    SC = z3.Function('SOFTCLIP!%d' % run.fresh_n, R, R)
    x, y = z3.Real('sc!x%d' % run.fresh_n), z3.Real('sc!y%d' % run.fresh_n)
    ok = z3.And(X.is_fin(low), X.is_fin(high), X.r(low) < X.r(high))
    run.axiom(z3.ForAll([x, y], z3.Implies(z3.And(ok, x < y), SC(x) < SC(y)), patterns=[z3.MultiPattern(SC(x), SC(y))]))
    run.axiom(z3.ForAll([x], z3.Implies(ok, z3.And(X.r(low) < SC(x), SC(x) < X.r(high))), patterns=[SC(x)]))

    def fwd(it_, a, k):
        use(it_, 'tfp.bijectors.SoftClip')
        return _lift_map(lambda v: z3.If(X.is_fin(v), X.fin(SC(X.r(v))), z3.If(X.is_nan(v), X.nan, z3.If(X.is_pinf(v), high, low))))(it_, a, k)
    return Obj('tfp.SoftClip', {'forward': Builtin('SoftClip.forward', fwd), 'low': low, 'high': high})


def _normal(it, args, kw):
    loc, scale = (list(args) + [kw.get('loc'), kw.get('scale')])[:2] if len(args) < 2 else args[:2]
    if not (isinstance(loc, (int, float)) and isinstance(scale, (int, float)) and float(loc) == 0.0 and float(scale) == 1.0):
        raise Unsupported('tfp Normal(%r, %r): only the standard normal is modelled' % (loc, scale))

    def quantile(it_, a, k):
        use(it_, 'tfp.distributions.Normal.quantile')
        return _lift_map(xppf)(it_, a, k)
    return Obj('tfp.Normal', {'quantile': Builtin('Normal.quantile', quantile)})


EXTERNAL[TFP + 'bijectors.SoftClip'] = Builtin('tfp.bijectors.SoftClip', _softclip)
EXTERNAL[TFP + 'distributions.Normal'] = Builtin('tfp.distributions.Normal', _normal)

# np.min / np.max of an integer array (argsort result): through the float contract
_minmax_float = _np_minmax


def _np_minmax_any(which):
    inner = _minmax_float(which)

    def fn(it, args, kw):
        a = args[0]
        if isinstance(a, NDArray) and a.dtype == 'int' and kw.get('axis', args[1] if len(args) > 1 else None) is None:
            return _extreme(it, NP.astype(a, 'float'), which, False, which)
        return inner(it, args, kw)
    return fn


for _pkg in ('numpy', 'jax.numpy'):
    EXTERNAL[_pkg + '.min'] = Builtin('np.min', _np_minmax_any('min'))
    EXTERNAL[_pkg + '.max'] = Builtin('np.max', _np_minmax_any('max'))


# ------------------------------------------------------------------------------------------ import-time self-check of the np_model patch points
def _self_check():
    """array / scalar must go through the patched scalar operation (true division is not modelled by np_model itself)"""
    class _Run:
        fresh_n = 0
    a = NDArray((2,), 'float', lambda i: X.fin(z3.RealVal(6)))
    try:
        r = NP.elementwise(None, ast.Div(), a, X.fin(z3.RealVal(3)))
        v = z3.simplify(r.at(0))
        ok = r.dtype == 'float' and v.eq(X.fin(z3.RealVal(2)))
    except Exception as e:  # noqa: BLE001
        ok, v = False, e
    if not ok:
        raise ImportError('pyvc.warp_model: np_model.elementwise no longer dispatches through np_model._scalar_op/_result_dtype (%r)' % (v,))




# ------------------------------------------------------------------------------------------ wider vocabulary (what a realistic edit of output_warpers.py uses)
contract('numpy.mean', 'np.mean(a) / a.mean() of a float array: NaN for an empty array (RuntimeWarning) and when some element is NaN; for finite elements a finite '
         'value with min <= mean <= max; when all elements are finite and >= 0: mean >= 0 and mean == 0 iff all elements are 0 (mean = sum / n over the reals)')
contract('numpy.nansum', 'np.nansum(a): the sum with NaN elements counted as 0')
contract('numpy.var/std', 'np.var / np.std (nan-variants: over the non-NaN elements): NaN for no (non-NaN) element or, for the plain variants, when some element is '
         'NaN; for finite elements finite, >= 0, and == 0 exactly when all (non-NaN) elements are equal (real arithmetic)')
contract('numpy.where', 'np.where(c, x, y): element-wise x where c else y (scalars broadcast); the result is a new array')
contract('numpy.elementwise_misc', 'np.maximum/np.minimum (NaN if either is NaN), np.sign, np.square, np.count_nonzero: element-wise / counting definitions')
contract('numpy.views', 'reshape / ravel / a[:, np.newaxis] may return a VIEW: writing through the result is not modelled (reported as unsupported, never guessed); '
         'flatten / astype / copy / boolean-mask reads are copies')


def _truthy(dtype, t):
    if dtype == 'bool':
        return t
    if dtype == 'int':
        return t != 0
    return X.truth(t)


def float_mean(it, a, nan_aware=False):
    a = _rank12(a, 'mean')
    if nan_aware:
        return _central(it, a, 'mean', True, 'nanmean')
    run = it.run
    use(it, 'numpy.mean')
    if it.pure:
        raise Unsupported('mean in pure mode')
    m = run.fresh('mean', X.XReal)
    empty = zi(total_size(a)) == 0
    anynan = named_bool(it, exists_elem(a, X.is_nan), 'anynan')
    allfin = named_bool(it, forall_elems(a, X.is_fin), 'allfin')
    nonneg = named_bool(it, forall_elems(a, lambda x: z3.And(X.is_fin(x), X.r(x) >= 0)), 'nonneg')
    allzero = named_bool(it, forall_elems(a, lambda x: x == X.fin(z3.RealVal(0))), 'allzero')
    lo_v, lo_r = witness(it, a, 'wlo_mean')
    hi_v, hi_r = witness(it, a, 'whi_mean')
    fact(run, z3.Implies(z3.Or(empty, zb(anynan)), X.is_nan(m)))
    fact(run, z3.Implies(z3.And(z3.Not(empty), zb(allfin)), z3.And(X.is_fin(m), lo_r, hi_r, X.is_fin(lo_v), X.is_fin(hi_v), X.le(lo_v, m), X.le(m, hi_v))))
    fact(run, z3.Implies(z3.And(z3.Not(empty), zb(allfin)), forall_elems(a, lambda x: z3.And(X.le(lo_v, x), X.le(x, hi_v)))))
    fact(run, z3.Implies(z3.And(z3.Not(empty), zb(nonneg)), z3.And(X.r(m) >= 0, (X.r(m) == 0) == zb(allzero))))
    return m


def _spread(it, a, nan_aware, name):
    """np.var / np.std / nan-variants: only sign and the zero case are specified"""
    a = _rank12(a, name)
    run = it.run
    use(it, 'numpy.var/std')
    s = run.fresh(name, X.XReal)
    notnan = lambda x: z3.Not(X.is_nan(x))
    some = named_bool(it, exists_elem(a, notnan), 'somenum')
    anynan = named_bool(it, exists_elem(a, X.is_nan), 'anynan')
    allfin = named_bool(it, forall_elems(a, lambda x: z3.Or(X.is_nan(x), X.is_fin(x))), 'allfin')
    wv, wr = witness(it, a, 'w' + name)
    alleq = named_bool(it, forall_elems(a, lambda x: z3.Implies(notnan(x), x == wv)), 'alleq')
    bad = z3.Not(zb(some)) if nan_aware else z3.Or(z3.Not(zb(some)), zb(anynan))
    fact(run, z3.Implies(bad, X.is_nan(s)))
    fact(run, z3.Implies(z3.And(z3.Not(bad), zb(allfin)), z3.And(X.is_fin(s), X.r(s) >= 0, wr, notnan(wv), (X.r(s) == 0) == zb(alleq))))
    return s


def np_where(it, args, kw):
    if len(args) != 3:
        raise Unsupported('np.where with %d argument(s) (only the 3-argument select is modelled)' % len(args))
    use(it, 'numpy.where')
    c, x, y = args
    arrs = [v for v in (c, x, y) if isinstance(v, NDArray)]
    if not arrs:
        return M.ite(it, it.truth_term(c), x, y)
    shape, rank = arrs[0].shape, arrs[0].rank
    for v in arrs[1:]:
        if v.rank != rank:
            raise Unsupported('np.where with operands of different ranks')
        for p, q in zip(shape, v.shape):
            NP.same_dim(it, p, q)
    dts = [(v.dtype if isinstance(v, NDArray) else NP.dtype_of_scalar(v)) for v in (x, y)]
    dt = 'float' if 'float' in dts else ('int' if 'int' in dts else 'bool')
    at = lambda v, i: v.fn(*i) if isinstance(v, NDArray) else v

    def fn(*i):
        ci = at(c, i)
        ci = ci if (z3.is_expr(ci) and ci.sort() == z3.BoolSort()) or isinstance(ci, bool) else _truthy(NP.dtype_of_scalar(ci), E.to_z3(ci))
        return z3.If(_zb(ci), elem_of(at(x, i), dt), elem_of(at(y, i), dt))
    return NDArray(shape, dt, fn)


def _binary_map(fn_x):
    def fn(it, args, kw):
        use(it, 'numpy.elementwise_misc')
        a, b = args[0], args[1]
        if isinstance(a, NDArray) and isinstance(b, NDArray):
            if a.rank != b.rank:
                raise Unsupported('element-wise function on arrays of different ranks')
            for p, q in zip(a.shape, b.shape):
                NP.same_dim(it, p, q)
            f, g = a.fn, b.fn
            return NDArray(a.shape, 'float', lambda *i: fn_x(X.lift(f(*i)), X.lift(g(*i))))
        if isinstance(a, NDArray):
            f = a.fn
            return NDArray(a.shape, 'float', lambda *i: fn_x(X.lift(f(*i)), X.lift(b)))
        if isinstance(b, NDArray):
            g = b.fn
            return NDArray(b.shape, 'float', lambda *i: fn_x(X.lift(a), X.lift(g(*i))))
        return fn_x(X.lift(a), X.lift(b))
    return fn


def xmaximum(a, b):
    return z3.If(z3.Or(X.is_nan(a), X.is_nan(b)), X.nan, z3.If(X.lt(a, b), b, a))


def xminimum(a, b):
    return z3.If(z3.Or(X.is_nan(a), X.is_nan(b)), X.nan, z3.If(X.lt(b, a), b, a))


def xsign(a):
    z = z3.RealVal
    return z3.If(X.is_nan(a), X.nan, z3.If(X.sign_pos(a), X.fin(z(1)), z3.If(X.sign_neg(a), X.fin(z(-1)), X.fin(z(0)))))


def _as_float_array(it, a, what):
    if not isinstance(a, NDArray):
        xs = None if (z3.is_expr(a) or isinstance(a, (bool, int, float))) else M.try_iterate(it, a)
        if xs is None:
            raise Unsupported('%s of %r' % (what, a))
        a = NP.from_nested(it, xs)
    return a


def _no_axis(name, args, kw):
    if kw.get('axis', args[1] if len(args) > 1 else None) is not None:
        raise Unsupported('%s with an axis' % name)
    for k in kw:
        if k not in ('axis',):
            raise Unsupported('%s(%s=...)' % (name, k))


def _np_sum(it, args, kw):
    a = _as_float_array(it, args[0], 'np.sum')
    if a.dtype == 'float':
        _no_axis('np.sum', args, kw)
        return float_sum(it, a)
    return NP.reduce_sum(it, a, kw.get('axis', args[1] if len(args) > 1 else None))


def _np_nansum(it, args, kw):
    a = _as_float_array(it, args[0], 'np.nansum')
    _no_axis('np.nansum', args, kw)
    use(it, 'numpy.nansum')
    f = _rank12(a, 'nansum').fn
    return float_sum(it, NDArray(a.shape, 'float', lambda *i: z3.If(X.is_nan(f(*i)), X.fin(z3.RealVal(0)), f(*i))))


def _np_mean(nan_aware):
    def fn(it, args, kw):
        _no_axis('np.mean', args, kw)
        return float_mean(it, _as_float_array(it, args[0], 'np.mean'), nan_aware)
    return fn


def _np_spread(nan_aware, name):
    def fn(it, args, kw):
        _no_axis('np.' + name, args, kw)
        return _spread(it, _as_float_array(it, args[0], name), nan_aware, name)
    return fn


def _np_count_nonzero(it, args, kw):
    a = _as_float_array(it, args[0], 'np.count_nonzero')
    use(it, 'numpy.elementwise_misc')
    f, dt = a.fn, a.dtype
    return NP.reduce_sum(it, NDArray(a.shape, 'bool', lambda *i: _truthy(dt, f(*i))), kw.get('axis', args[1] if len(args) > 1 else None))


for _pkg in ('numpy', 'jax.numpy'):
    EXTERNAL[_pkg + '.mean'] = Builtin('np.mean', _np_mean(False))
    EXTERNAL[_pkg + '.nanmean'] = Builtin('np.nanmean', _np_mean(True))
    EXTERNAL[_pkg + '.sum'] = Builtin('np.sum', _np_sum)
    EXTERNAL[_pkg + '.nansum'] = Builtin('np.nansum', _np_nansum)
    EXTERNAL[_pkg + '.var'] = Builtin('np.var', _np_spread(False, 'var'))
    EXTERNAL[_pkg + '.nanvar'] = Builtin('np.nanvar', _np_spread(True, 'nanvar'))
    EXTERNAL[_pkg + '.std'] = Builtin('np.std', _np_spread(False, 'std'))
    EXTERNAL[_pkg + '.nanstd'] = Builtin('np.nanstd', _np_spread(True, 'nanstd'))
    EXTERNAL[_pkg + '.where'] = Builtin('np.where', np_where)
    EXTERNAL[_pkg + '.maximum'] = Builtin('np.maximum', _binary_map(xmaximum))
    EXTERNAL[_pkg + '.minimum'] = Builtin('np.minimum', _binary_map(xminimum))
    EXTERNAL[_pkg + '.sign'] = Builtin('np.sign', _lift_map(xsign))
    EXTERNAL[_pkg + '.square'] = Builtin('np.square', _lift_map(xpow2))
    EXTERNAL[_pkg + '.absolute'] = Builtin('np.absolute', _lift_map(xabs))
    EXTERNAL[_pkg + '.count_nonzero'] = Builtin('np.count_nonzero', _np_count_nonzero)
    EXTERNAL[_pkg + '.copy'] = Builtin('np.copy', lambda it, args, kw: copy_of(args[0]) if isinstance(args[0], NDArray) else args[0])
    EXTERNAL[_pkg + '.ravel'] = Builtin('np.ravel', lambda it, args, kw: ravel(it, args[0]))


def as_view(r, base):
    r.view_of = base          # ghost: numpy may return a view of `base`; a write through it is refused (Unsupported), never mis-modelled
    return r


def ravel(it, a):
    if not isinstance(a, NDArray):
        raise Unsupported('ravel of %r' % (a,))
    if a.rank == 1:
        return a              # ravel of a contiguous 1-d array is the array itself
    return as_view(flatten(it, a), a)


_reshape_plain = reshape


def reshape(it, a, shape):          # noqa: F811
    shape = tuple(shape) if isinstance(shape, (tuple, list)) else (shape,)
    if any(isinstance(x, int) and x == -1 for x in shape):
        if len(shape) == 1:
            return ravel(it, a)
        if len(shape) == 2 and shape[0] == -1 and conc(shape[1]) == 1:
            shape = (total_size(a), 1)
        elif len(shape) == 2 and shape[1] == -1 and conc(shape[0]) == 1 and a.rank == 1:
            f = a.fn
            return as_view(NDArray((1, a.shape[0]), a.dtype, lambda i, k: f(k)), a)
        else:
            raise Unsupported('reshape%r' % (shape,))
    if a.rank == 2 and len(shape) == 2 and not all(implied(it, zi(x) == zi(y)) for x, y in zip(shape, a.shape)):
        a = flatten(it, a)
    return as_view(_reshape_plain(it, a, shape), a)


_getattr_prev = _getattr


def _getattr2(it, v, a):
    if not isinstance(v, NDArray):
        return M.MISSING
    if a == 'mean' and v.dtype == 'float':
        return Builtin('mean', lambda it_, args, kw: (_no_axis('mean', [v] + list(args), kw), float_mean(it_, v))[1])
    if a in ('std', 'var') and v.dtype == 'float':
        return Builtin(a, lambda it_, args, kw: (_no_axis(a, [v] + list(args), kw), _spread(it_, v, False, a))[1])
    if a == 'ravel':
        return Builtin('ravel', lambda it_, args, kw: ravel(it_, v))
    if a == 'reshape':
        return Builtin('reshape', lambda it_, args, kw: reshape(it_, v, args[0] if len(args) == 1 else tuple(args)))
    if a == 'T' and v.rank == 1:
        return v
    return M.MISSING


NP._chain('value_getattr_hook', _getattr2)
for _pkg in ('numpy', 'jax.numpy'):
    EXTERNAL[_pkg + '.reshape'] = Builtin('np.reshape', lambda it, args, kw: reshape(it, args[0], args[1] if len(args) > 1 else kw.get('shape', kw.get('newshape'))))

_setitem_prev_views = M.setitem_hook


def _setitem_views(it, base, idx, v):
    if isinstance(base, NDArray) and getattr(base, 'view_of', None) is not None:
        raise Unsupported('item assignment through reshape/ravel/newaxis result (numpy may alias the source array; views are not modelled)')
    return _setitem_prev_views(it, base, idx, v)


M.setitem_hook = _setitem_views


_self_check()
