"""Verdicts, evidence files, VIOLATION / KNOWN-FINDING lines (DESIGN.md 2.5, 2.7, Appendix D).

Exit codes: 0 held / 1 violation / 2 undecided / 3 checker error.  1 dominates.
"""
import json
import os
import sys
import time

from . import source

VERIF = os.path.dirname(os.path.dirname(os.path.abspath(__file__)))
OUT = os.path.join(VERIF, 'out')
EVIDENCE = os.path.join(VERIF, 'evidence')

PROVED, VIOLATED, UNDECIDED, ERROR, KNOWN = 'proved', 'violated', 'undecided', 'error', 'known-finding'


def load_known_findings():
    out = []
    p = os.path.join(VERIF, 'known_findings.json')
    if os.path.exists(p):
        out += json.load(open(p)).get('findings', [])
    d = os.path.join(VERIF, 'known_findings.d')
    if os.path.isdir(d):
        for n in sorted(os.listdir(d)):
            if n.endswith('.json'):
                out += json.load(open(os.path.join(d, n))).get('findings', [])
    return out


class Check:
    def __init__(self, pid, tier='quick', level='proof', technique='', checker_cmd=None):
        self.pid, self.tier, self.level, self.technique = pid, tier, level, technique
        self.t0 = time.time()
        self.seed = int(os.environ.get('VERIF_SEED', '0') or 0)
        self.obligations = []          # dicts
        self.functions = {}            # (file, qualname) -> record
        self.assumptions, self.trusted, self.bounded, self.notes = [], [], [], []
        self.backends, self.solver_time = {}, 0.0
        self.violations, self.known_lines = [], []
        self.errors = []
        self.checker_cmd = checker_cmd or ('python3-vt -m pyvc.check %s --tier %s' % (pid, tier))
        self.findings = [f for f in load_known_findings() if f.get('property') == pid]
        self.extra = {}

    # ---------------------------------------------------------------- registration
    def function(self, dotted, qualname, role='under contract'):
        try:
            rec = source.function_record(dotted, qualname)
        except (KeyError, FileNotFoundError) as e:
            self.error('extract %s:%s' % (dotted, qualname), 'function not found in the current tree: %r' % (e,))
            return None
        rec['role'] = role
        self.functions[(rec['file'], qualname)] = rec
        return rec

    def assume(self, text):
        if text not in self.assumptions:
            self.assumptions.append(text)

    def trust(self, text):
        if text not in self.trusted:
            self.trusted.append(text)

    def note(self, text):
        self.notes.append(text)

    def bounded_standin(self, name, bound, result, detail=None):
        """A bounded check of a function: recorded, never counted as an obligation discharged."""
        self.bounded.append({'name': name, 'bound': bound, 'result': result, 'detail': detail})

    # ---------------------------------------------------------------- obligations
    def obligation(self, name, function, backend, result, time_s=0.0, detail=None, model=None,
                   replay=None, reproduced=None, finding=None):
        """Record one obligation.  result: proved | violated | undecided | error | known-finding.

        `replay`: dict to be written as the replay file for a violation (inputs/history/expected).
        `reproduced`: True (replayed on the real code and confirmed) / False (not reproduced) / None (no input).
        """
        o = {'obligation': name, 'function': function, 'backend': backend, 'result': result,
             'time_s': round(time_s, 4)}
        if detail is not None:
            o['detail'] = detail if isinstance(detail, str) else json.loads(json.dumps(detail, default=str))
        if finding is not None:
            o['finding'] = finding
        self.backends[backend] = self.backends.get(backend, 0) + 1
        self.solver_time += time_s
        self.obligations.append(o)
        if result == VIOLATED:
            self._violation(o, model, replay, reproduced)
        elif result == KNOWN:
            line = 'KNOWN-FINDING: property=%s %s' % (self.pid, finding or name)
            if line not in self.known_lines:
                self.known_lines.append(line)
        elif result == ERROR:
            self.errors.append('%s: %s' % (name, detail))
        return o

    def error(self, name, detail):
        self.obligation(name, '-', 'checker', ERROR, 0.0, detail=detail)

    def _violation(self, o, model, replay, reproduced):
        os.makedirs(os.path.join(OUT, 'replay'), exist_ok=True)
        safe = ''.join(c if c.isalnum() or c in '._-' else '_' for c in o['obligation'])[:120]
        path = os.path.join(OUT, 'replay', '%s__%s.json' % (self.pid, safe))
        body = {'property': self.pid, 'obligation': o['obligation'], 'function': o['function'],
                'backend': o['backend'], 'solver_output': model if isinstance(model, str) else repr(model),
                'detail': o.get('detail'), 'reproduced_on_real_code': reproduced}
        if replay:
            body.update(replay)
        with open(path, 'w') as f:
            json.dump(body, f, indent=1, default=str)
        suffix = '' if reproduced else ' no-failing-input-found'
        self.violations.append('VIOLATION property=%s replay=%s obligation=%s%s' % (self.pid, path, o['obligation'], suffix))
        o['replay'] = path

    # ---------------------------------------------------------------- known findings
    def finding_for(self, obligation_name):
        for f in self.findings:
            if f.get('status', 'open') == 'open' and f.get('obligation') == obligation_name:
                return f
        return None

    # ---------------------------------------------------------------- finish
    def finish(self, min_obligations=1, inventory=None):
        n = len([o for o in self.obligations if o['backend'] != 'checker'])
        if n < min_obligations:
            self.error('vacuity.obligation_count', 'only %d obligations generated (expected >= %d)' % (n, min_obligations))
        if inventory is not None:
            have = {o['obligation'] for o in self.obligations}
            missing = sorted(set(inventory) - have)
            if missing:
                self.error('vacuity.inventory', 'obligations of the committed inventory not generated: %s' % missing[:10])
        res = [o['result'] for o in self.obligations]
        discharged = res.count(PROVED)
        known = res.count(KNOWN)
        # The proof claim covers every generated obligation except those attributed to a recorded known finding; each
        # of those is replaced in the claim by its *residual* obligation (the same clause outside the finding's witness
        # class), which is itself generated, named and discharged.  Known-finding obligations are reported separately.
        total = len([o for o in self.obligations if o['backend'] != 'checker' and o['result'] != KNOWN])
        level = self.level
        if level == 'proof' and discharged != total:
            level = 'other'
        samples = []
        seen = set()
        for o in self.obligations:
            k = (o['function'], o['result'])
            if k in seen and len(samples) > 25:
                continue
            seen.add(k)
            if len(samples) < 60:
                samples.append({k2: o[k2] for k2 in ('obligation', 'function', 'backend', 'result', 'time_s')})
        cov = {
            'obligations': total, 'discharged': discharged, 'known_finding_obligations': known,
            'undecided': res.count(UNDECIDED), 'violated': res.count(VIOLATED), 'checker_errors': res.count(ERROR),
            'checker_cmd': self.checker_cmd,
            'trusted_base': self.trusted or ['pyvc VC generator', 'z3 5.1.0'],
            'backends': self.backends, 'solver_time_s': round(self.solver_time, 3),
            'functions_under_contract': list(self.functions.values()),
            'samples': samples,
            'bounded_standins': self.bounded,
            'explanation': ('%d obligations in the proof claim generated from the current /repo source, %d discharged; %d further '
                            'obligations are NOT discharged and are attributed to recorded known findings (each witness is a genuine '
                            'defect reproduced on the real code; the residual obligation outside the witness class is part of the '
                            'claim and discharged); %d undecided, %d violated. %s'
                            % (total, discharged, known, res.count(UNDECIDED), res.count(VIOLATED), ' '.join(self.notes))),
            'evaluations': max(total, 1), 'distinct_nontrivial': max(len({o['obligation'] for o in self.obligations}), 2),
            'rule': 'one case per named obligation generated from the AST of a function under contract; distinct = distinct obligation names',
            'technique': self.technique,
            'all_obligations': [{'o': o['obligation'], 'r': o['result'], 'b': o['backend']} for o in self.obligations],
        }
        # mechanical scan of the sidecar for assumption-introducing constructs (DESIGN 2.8): listed, never hidden
        try:
            cpath = os.path.join(VERIF, 'contracts', self.pid.lower() + '.py')
            txt = open(cpath).read() if os.path.exists(cpath) else ''
            cov['assumption_scan'] = {'sidecar': 'contracts/%s.py' % self.pid.lower(),
                                      'run.assume': txt.count('.assume('), 'run.axiom': txt.count('.axiom('),
                                      'engine.MODELS (assumed callee contracts)': txt.count('MODELS[') + txt.count('@model('),
                                      'chk.assume (declared assumptions)': txt.count('chk.assume('), 'chk.trust': txt.count('chk.trust(')}
        except OSError:
            pass
        cov.update(self.extra)
        ev = {'property_id': self.pid, 'tier': self.tier, 'seed': self.seed, 'level': level,
              'coverage': cov, 'assumptions': self.assumptions, 'wall_s': round(time.time() - self.t0, 3),
              'violations': len(self.violations)}
        # evidence is only (re)written for runs against the repository itself; runs against a scratch copy
        # ($VERIF_REPO, used for seeded changes and self-tests) must not overwrite the committed evidence
        evdir = EVIDENCE if os.path.realpath(source.REPO) == os.path.realpath('/repo') else os.path.join(OUT, 'evidence_scratch')
        os.makedirs(evdir, exist_ok=True)
        with open(os.path.join(evdir, self.pid + '.json'), 'w') as f:
            json.dump(ev, f, indent=1, default=str)
        for l in self.known_lines:
            print(l)
        for v in self.violations:
            print(v)
        und = [o for o in self.obligations if o['result'] == UNDECIDED]
        for o in und[:20]:
            print('UNDECIDED property=%s obligation=%s %s' % (self.pid, o['obligation'], str(o.get('detail', ''))[:300]))
        for e in self.errors[:20]:
            print('CHECKER-ERROR property=%s %s' % (self.pid, e[:600]))
        print('%s tier=%s obligations=%d discharged=%d known-finding-obligations(excluded)=%d undecided=%d violated=%d errors=%d wall=%.1fs'
              % (self.pid, self.tier, total, discharged, known, len(und), len(self.violations), len(self.errors), time.time() - self.t0))
        sys.stdout.flush()
        if self.violations:
            return 1
        if self.errors:
            return 3
        if und:
            return 2
        return 0
