"""pyvc.np_model -- the comparison-only numpy / jax.numpy fragment of DESIGN.md 4.5 as engine models.

An array is a *total function* from indices to scalars with a (possibly symbolic) shape:

    NDArray(shape, dtype, fn)      shape: tuple of python ints | z3 Int terms (rank 1 or 2)
                                   dtype: 'float' (xreal.XReal) | 'bool' | 'int'
                                   fn:    python closure  (z3 Int, ...) -> z3 term      (no z3 arrays, no lambdas)

Element-wise operations, slices, gathers and reductions compose closures; nothing is materialised.  Reductions
(`np.all/any`) are bounded quantifiers over the axis: expanded when the extent is a concrete python int (the bounded
*model queries* are therefore quantifier-free), a `ForAll/Exists` otherwise.  A quantified scalar that the code branches
on is named by a fresh Bool with a defining axiom (`Run.axiom`), so the path solver stays quantifier-free.

Library facts stated here (trusted; exercised against the real numpy/jax through the bounded model queries and the
exhaustive small-scope enumerations of contracts/c11.py, whose verdicts are compared on the real functions):
  * boolean-mask read `a[m]` / write `a[m] = v`: order-preserving enumeration `sel : [0,cnt) -> {j | m[j]}` with inverse `rnk`;
  * `argsort`: a permutation `p` with inverse `q`, `x[p]` ascending, NaN last (stability is not modelled: any sorting
    permutation is allowed, which only over-approximates);
  * `searchsorted(a, v, side='right')` on an ascending `a`: the unique `s` with `a[:s] <= v < a[s:]`
    (ascending order of `a` is emitted as a proof obligation, not assumed);
  * `np.max`: an upper bound that is attained; NaN if any element is NaN;
  * `np.sum` of booleans along an axis: exact for a concrete extent, otherwise a count `c >= 0` with
    `c == 0  <=>  no element is true` (the only property the code under contract uses: comparison with 0);
  * `jax.vmap(f, in_axes, 0)` is the pointwise map, `jax.jit` the identity, `functools.partial` partial application.
Arithmetic beyond negation is not modelled.  `squeeze()` of an (n, 1) array is identified with the (n,) array (for
n == 1 numpy returns a 0-d array, which broadcasts identically in the operations modelled here).

Everything registers itself through `engine.EXTERNAL` and the hooks of `pyvc.models` (previous hooks are chained).  Four
functions of `pyvc.models` that have no hook are wrapped (not edited): `compare`, `unary`, `comprehension`, `fresh_like`.
"""
import ast
import itertools

import z3

from . import engine as E
from . import models as M
from . import protomodel as pm
from . import xreal
from .engine import Unsupported, PyRaise, PathEnd, Builtin, EXTERNAL
from .protomodel import SymList

_uid = itertools.count()
SORTS = {'float': xreal.XReal, 'bool': z3.BoolSort(), 'int': z3.IntSort()}


# ------------------------------------------------------------------------------------------ small helpers
def conc(n):
    """python int of an extent if it is concrete, else None."""
    if isinstance(n, bool):
        return int(n)
    if isinstance(n, int):
        return n
    s = z3.simplify(n)
    return s.as_long() if z3.is_int_value(s) else None


def zi(i):
    if isinstance(i, bool):
        return z3.IntVal(int(i))
    if isinstance(i, int):
        return z3.IntVal(i)
    if z3.is_expr(i) and i.sort() == z3.BoolSort():
        return z3.If(i, z3.IntVal(1), z3.IntVal(0))
    return i


def norm(n):
    """extent -> python int when concrete, else the z3 term."""
    c = conc(n)
    return c if c is not None else n


def zb(c):
    return z3.BoolVal(c) if isinstance(c, bool) else c


def QA(n, body, lo=0):
    """forall lo <= j < n. body(j); expanded when n is concrete; the bound variable has a unique name."""
    c, l = conc(n), conc(lo)
    if c is not None and l is not None:
        cs = [zb(body(z3.IntVal(j))) for j in range(l, c)]
        return z3.And(*cs) if cs else z3.BoolVal(True)
    j = z3.Int('q!%d' % next(_uid))
    return z3.ForAll([j], z3.Implies(z3.And(j >= lo, j < n), zb(body(j))))


def QE(n, body, lo=0):
    c, l = conc(n), conc(lo)
    if c is not None and l is not None:
        cs = [zb(body(z3.IntVal(j))) for j in range(l, c)]
        return z3.Or(*cs) if cs else z3.BoolVal(False)
    j = z3.Int('q!%d' % next(_uid))
    return z3.Exists([j], z3.And(j >= lo, j < n, zb(body(j))))


def QA2(n, body):
    """forall 0 <= a < b < n. body(a, b)"""
    c = conc(n)
    if c is not None:
        cs = [zb(body(z3.IntVal(a), z3.IntVal(b))) for a in range(c) for b in range(a + 1, c)]
        return z3.And(*cs) if cs else z3.BoolVal(True)
    a, b = z3.Int('q!%d' % next(_uid)), z3.Int('q!%d' % next(_uid))
    return z3.ForAll([a, b], z3.Implies(z3.And(a >= 0, a < b, b < n), zb(body(a, b))))


def fact(run, f):
    """library/language fact: quantified -> Run.axiom (never seen by the path solver), else Run.assume."""
    if isinstance(f, bool):
        if not f:
            raise PathEnd()
        return
    f = z3.simplify(f) if not E._has_quantifier(f) else f
    if z3.is_true(f):
        return
    if E._has_quantifier(f):
        run.axiom(f)
    else:
        run.assume(f)


def scalar_bool(it, f):
    """a Bool the code may branch on: a quantified formula is named by a fresh Bool with a defining axiom."""
    if isinstance(f, bool) or it.pure or not E._has_quantifier(f):
        return f
    b = it.run.fresh('npb', z3.BoolSort())
    it.run.axiom(b == f)
    return b


def fresh_fn(run, name, arity, sort):
    run.fresh_n += 1
    return z3.Function('%s!%d' % (name, run.fresh_n), *([z3.IntSort()] * arity + [sort]))


def elem_of(v, dtype):
    """python scalar / z3 term -> z3 term of the element sort of `dtype`."""
    s = SORTS[dtype]
    if z3.is_expr(v):
        if v.sort() == s:
            return v
        if dtype == 'float':
            return xreal.lift(v)
        if dtype == 'int' and v.sort() == z3.BoolSort():
            return zi(v)
        if dtype == 'bool' and v.sort() == z3.IntSort():
            return v != 0
        raise Unsupported('array element of sort %s stored into a %s array' % (v.sort(), dtype))
    return pm._lift(v, s)


def dtype_of_scalar(v):
    if isinstance(v, bool):
        return 'bool'
    if isinstance(v, int):
        return 'int'
    if isinstance(v, float):
        return 'float'
    if z3.is_expr(v):
        for k, s in SORTS.items():
            if v.sort() == s:
                return k
        if v.sort() == z3.RealSort():
            return 'float'
    raise Unsupported('array element %r' % (v,))


def dtype_arg(d, default=None):
    """dtype=bool / np.bool_ / float / np.float32 / np.int32 ... -> 'bool' | 'float' | 'int'."""
    if d is None:
        return default
    name = d.name if isinstance(d, Builtin) else d.dotted.split('.')[-1] if isinstance(d, E.ExtRef) else \
        d.name if isinstance(d, E.BuiltinClass) else str(d)
    if 'bool' in name:
        return 'bool'
    if 'int' in name:
        return 'int'
    if 'float' in name or 'double' in name:
        return 'float'
    raise Unsupported('dtype %r' % (d,))


# ------------------------------------------------------------------------------------------ the array value
class NDArray:
    def __init__(self, shape, dtype, fn, kind='ndarray'):
        self.shape = tuple(norm(s) for s in shape)
        self.dtype, self.fn, self.kind = dtype, fn, kind
        self.version = 0
        self.perm = None        # (p, q, n, lo): this int array is p[lo : lo+len] of a permutation p of [0,n) with inverse q
        self.win = None         # (base fn, row offset, column offset): ghost, see getitem
        self.origin = None      # (root fn, row map, column offset): ghost, self[i, k] == root(rowmap(i), k + cofs)
        self.rowof = None       # (root fn, row index, column offset): ghost of a rank-1 array that is (a column window of) a row
        self.awin = None        # (G, offsets): ghost, self[i0, i1, ..] == G(i0 + offsets[0], i1 + offsets[1], ..); reductions over an
        #                         axis with an offset quantify over the base range (no shifted index terms under the quantifier)

    @property
    def rank(self):
        return len(self.shape)

    def at(self, *idx):
        return self.fn(*[zi(i) for i in idx])

    def copy(self):
        r = NDArray(self.shape, self.dtype, self.fn)
        r.perm, r.win, r.origin, r.awin = self.perm, self.win, self.origin, self.awin
        return r

    def row(self, i):
        f, i = self.fn, zi(i)
        r = NDArray(self.shape[1:], self.dtype, lambda k: f(i, k))
        if self.rank == 2:
            root, rmap, cofs = self.origin if self.origin is not None else (f, (lambda t: t), 0)
            r.rowof = (root, z3.simplify(zi(rmap(i))), cofs)       # ghost: r[k] == root(row, k + cofs)
        return r

    def __repr__(self):
        return '<ndarray %s %s>' % (self.dtype, 'x'.join(str(s) for s in self.shape))


def const_array(shape, dtype, v):
    t = elem_of(v, dtype)
    return NDArray(shape, dtype, lambda *idx: t)


def fresh_array(run, name, shape, dtype):
    """array with arbitrary content: a fresh uninterpreted function."""
    f = fresh_fn(run, name, len(shape), SORTS[dtype])
    return NDArray(shape, dtype, lambda *idx: f(*idx))


def from_nested(it, v, dtype=None):
    """np.array / np.asarray of a nested python list / NDArray / list of NDArrays / scalar list."""
    if isinstance(v, NDArray):
        r = v.copy()
        if dtype is not None and dtype != r.dtype:
            r = astype(r, dtype)
        return r
    if isinstance(v, SymList) and not isinstance(v.elem, pm.MsgSchema) and v.elem in ('float', 'bool', 'int'):
        arr = v.arr
        return NDArray((v.n,), v.elem, lambda j: z3.Select(arr, j))
    xs = M.try_iterate(it, v)
    if xs is None:
        raise Unsupported('np.array of %r' % (v,))
    if not xs:
        return NDArray((0,), dtype or 'float', lambda j: pm._default_term(SORTS[dtype or 'float']))
    if all(isinstance(x, NDArray) for x in xs) or all(isinstance(x, (list, tuple)) for x in xs):
        rows = [from_nested(it, x, dtype) for x in xs]
        if any(r.rank != 1 for r in rows):
            raise Unsupported('np.array of rank > 2')
        d = rows[0].shape[0]
        for r in rows[1:]:
            same_dim(it, d, r.shape[0])
        dts = {r.dtype for r in rows}
        dt = dtype or ('float' if 'float' in dts else 'int' if 'int' in dts else 'bool')
        rows = [astype(r, dt) for r in rows]

        def fn(i, k):
            out = rows[-1].at(k)
            for a in range(len(rows) - 2, -1, -1):
                out = z3.If(i == a, rows[a].at(k), out)
            return out
        return NDArray((len(rows), d), dt, fn)
    dts = {dtype_of_scalar(x) for x in xs}
    dt = dtype or ('float' if 'float' in dts else 'int' if 'int' in dts else 'bool')
    ts = [elem_of(x, dt) for x in xs]

    def fn1(j):
        out = ts[-1]
        for a in range(len(ts) - 2, -1, -1):
            out = z3.If(j == a, ts[a], out)
        return out
    return NDArray((len(ts),), dt, fn1)


def astype(a, dt):
    if a.dtype == dt:
        return a
    f = a.fn
    r = NDArray(a.shape, dt, lambda *idx: elem_of(f(*idx), dt))
    r.perm = a.perm if dt == 'int' else None
    return r


def same_dim(it, x, y):
    """numpy raises ValueError when two extents that must agree differ."""
    if isinstance(x, int) and isinstance(y, int):
        ok = x == y
    elif z3.is_expr(x) and z3.is_expr(y) and x.eq(y):
        ok = True
    else:
        ok = it.truth(zi(x) == zi(y))
    if not ok:
        raise PyRaise(it.make_exc('ValueError', ['operands could not be broadcast together']))


# ------------------------------------------------------------------------------------------ element-wise operations
_orig_compare = M.compare
_orig_unary = M.unary


def _scalar_op(it, op, x, y):
    """one element-wise binary operation on scalars -> z3 term / python value."""
    if isinstance(op, (ast.Lt, ast.LtE, ast.Gt, ast.GtE, ast.Eq, ast.NotEq)):
        return zb(_orig_compare(it, op, x, y))
    bx = isinstance(x, bool) or (z3.is_expr(x) and x.sort() == z3.BoolSort())
    by = isinstance(y, bool) or (z3.is_expr(y) and y.sort() == z3.BoolSort())
    if isinstance(op, ast.BitAnd) and bx and by:
        return zb(E.zand(x, y))
    if isinstance(op, ast.BitOr) and bx and by:
        return zb(E.zor(x, y))
    if isinstance(op, ast.BitXor) and bx and by:
        return z3.Xor(zb(x), zb(y))
    if isinstance(op, (ast.Add, ast.Sub, ast.Mult)):
        return M.binop(it, op, x, y)
    raise Unsupported('element-wise operator %s' % type(op).__name__)


def _result_dtype(op, a, b):
    if isinstance(op, (ast.Lt, ast.LtE, ast.Gt, ast.GtE, ast.Eq, ast.NotEq)):
        return 'bool'
    da = a.dtype if isinstance(a, NDArray) else dtype_of_scalar(a)
    db = b.dtype if isinstance(b, NDArray) else dtype_of_scalar(b)
    if isinstance(op, (ast.BitAnd, ast.BitOr, ast.BitXor)):
        if da == db == 'bool':
            return 'bool'
        raise Unsupported('bitwise operator on non-boolean arrays')
    return 'float' if 'float' in (da, db) else 'int'


def elementwise(it, op, a, b):
    """numpy broadcasting for (array, scalar), equal ranks, and (n,d) with (d,)."""
    dt = _result_dtype(op, a, b)
    A, B = isinstance(a, NDArray), isinstance(b, NDArray)
    if A and not B:
        f = a.fn
        return NDArray(a.shape, dt, lambda *i: _scalar_op(it, op, f(*i), b))
    if B and not A:
        g = b.fn
        return NDArray(b.shape, dt, lambda *i: _scalar_op(it, op, a, g(*i)))
    f, g = a.fn, b.fn
    if max(a.rank, b.rank) > 2 or any(conc(x) == 1 for x in a.shape + b.shape):
        return _broadcast_general(it, op, a, b, dt)
    if a.rank == b.rank:
        for x, y in zip(a.shape, b.shape):
            same_dim(it, x, y)
        return NDArray(a.shape, dt, lambda *i: _scalar_op(it, op, f(*i), g(*i)))
    if a.rank == 2 and b.rank == 1:
        same_dim(it, a.shape[1], b.shape[0])
        return NDArray(a.shape, dt, lambda i, k: _scalar_op(it, op, f(i, k), g(k)))
    if a.rank == 1 and b.rank == 2:
        same_dim(it, a.shape[0], b.shape[1])
        return NDArray(b.shape, dt, lambda i, k: _scalar_op(it, op, f(k), g(i, k)))
    raise Unsupported('broadcast of ranks %d and %d' % (a.rank, b.rank))


def _broadcast_general(it, op, a, b, dt):
    """numpy broadcasting in general: shapes aligned from the right; an axis of (concrete) extent 1 is repeated"""
    r = max(a.rank, b.rank)
    sa = (1,) * (r - a.rank) + tuple(a.shape)
    sb = (1,) * (r - b.rank) + tuple(b.shape)
    shape, pa, pb = [], [], []          # per output axis: does the operand follow the output index (True) or stay at 0 (False)
    for x, y in zip(sa, sb):
        if conc(x) == 1 and conc(y) != 1:
            shape.append(y), pa.append(False), pb.append(True)
        elif conc(y) == 1 and conc(x) != 1:
            shape.append(x), pa.append(True), pb.append(False)
        else:
            same_dim(it, x, y)
            shape.append(x), pa.append(True), pb.append(True)
    f, g, ra, rb = a.fn, b.fn, a.rank, b.rank
    zero = z3.IntVal(0)

    def pick(idx, follow, rank):
        full = [i if fl else zero for i, fl in zip(idx, follow)]
        return full[len(full) - rank:]
    return NDArray(tuple(shape), dt, lambda *i: _scalar_op(it, op, f(*pick(i, pa, ra)), g(*pick(i, pb, rb))))


def _compare(it, op, l, r):
    if isinstance(l, NDArray) or isinstance(r, NDArray):
        if isinstance(op, (ast.Lt, ast.LtE, ast.Gt, ast.GtE, ast.Eq, ast.NotEq)):
            return elementwise(it, op, l, r)
        if isinstance(op, (ast.Is, ast.IsNot)):
            return (l is r) == isinstance(op, ast.Is)
        raise Unsupported('comparison %s on arrays' % type(op).__name__)
    return _orig_compare(it, op, l, r)


def _unary(it, op, v):
    if isinstance(v, NDArray):
        f = v.fn
        if isinstance(op, ast.Invert) and v.dtype == 'bool':
            return NDArray(v.shape, 'bool', lambda *i: z3.Not(f(*i)))
        if isinstance(op, ast.USub) and v.dtype in ('float', 'int'):
            return NDArray(v.shape, v.dtype, lambda *i: _orig_unary(it, op, f(*i)))
        if isinstance(op, ast.UAdd):
            return v.copy()
        raise Unsupported('unary %s on a %s array' % (type(op).__name__, v.dtype))
    if isinstance(op, ast.Invert) and z3.is_expr(v) and v.sort() == z3.BoolSort():
        return z3.Not(v)      # ~ on a numpy bool scalar
    return _orig_unary(it, op, v)


M.compare = _compare
M.unary = _unary

_prev_binop = M.binop_hook


def _binop(it, op, l, r, inplace):
    if isinstance(l, NDArray) or isinstance(r, NDArray):
        res = elementwise(it, op, l, r)
        if inplace and isinstance(l, NDArray):
            l.fn, l.dtype = res.fn, res.dtype
            l.version += 1
            return M.INPLACE_DONE
        return res
    if isinstance(op, ast.Div):
        # int / int (true division) on a symbolic int: exact rational (the only use: round(len(x) / 2))
        zl, zr = z3.is_expr(l) and l.sort() == z3.IntSort(), z3.is_expr(r) and r.sort() == z3.IntSort()
        if (zl or zr) and (zl or isinstance(l, int)) and (zr or isinstance(r, int)) and not isinstance(l, bool) and not isinstance(r, bool):
            if zr:
                if it.truth(r == 0):
                    raise PyRaise(it.make_exc('ZeroDivisionError'))
            elif r == 0:
                raise PyRaise(it.make_exc('ZeroDivisionError'))
            return xreal.fin(z3.ToReal(zi(l)) / z3.ToReal(zi(r)))
    return _prev_binop(it, op, l, r, inplace)


M.binop_hook = _binop


# ------------------------------------------------------------------------------------------ reductions
def _axis(a, axis):
    if axis is None:
        return None
    ax = conc(axis)
    if ax is None:
        raise Unsupported('symbolic axis')
    if ax < 0:
        ax += a.rank
    if not 0 <= ax < a.rank:
        raise PyRaise(E.ExcObj(E.BuiltinClass('ValueError'), {'args': ('axis out of bounds',)}))
    return ax


def _truthy(dtype, t):
    if dtype == 'bool':
        return t
    if dtype == 'int':
        return t != 0
    return xreal.truth(t)


def reduce_bool(it, a, axis, which):
    """np.all / np.any"""
    Q = QA if which == 'all' else QE
    if not isinstance(a, NDArray):
        xs = M.try_iterate(it, a)
        if xs is not None:
            a = from_nested(it, xs)
        else:
            return it.truth_term(a)
    f, dt = a.fn, a.dtype
    ax = _axis(a, axis)
    if a.rank == 0:
        return _truthy(dt, f())

    def Qw(axis_, extent, body_local, body_base):
        """quantify over one axis; over the base range when that axis is an offset window (ghost awin)"""
        off = a.awin[1][axis_] if a.awin is not None else 0
        if a.awin is None or conc(off) == 0:
            return Q(extent, body_local)
        return Q(norm(z3.simplify(zi(off) + zi(extent))), body_base, lo=off)
    if a.awin is not None:
        G, offs = a.awin
        sh = lambda i, ax_: i if conc(offs[ax_]) == 0 else z3.simplify(i + zi(offs[ax_]))
    if a.rank == 1:
        return scalar_bool(it, Qw(0, a.shape[0], lambda j: _truthy(dt, f(j)), lambda t: _truthy(dt, a.awin[0](t)) if a.awin else None))
    if a.rank > 2:
        if ax is None:
            raise Unsupported('np.all/any over all axes of a rank-%d array' % a.rank)
        ext = a.shape[ax]
        rest = tuple(x for k_, x in enumerate(a.shape) if k_ != ax)
        return NDArray(rest, 'bool', lambda *i: Q(ext, lambda t: _truthy(dt, f(*(list(i[:ax]) + [t] + list(i[ax:]))))))
    n, d = a.shape
    if ax is None:
        return scalar_bool(it, Q(n, lambda i: Q(d, lambda k: _truthy(dt, f(i, k)))))
    if ax == 1:
        return NDArray((n,), 'bool', lambda i: Qw(1, d, lambda k: _truthy(dt, f(i, k)), lambda t: _truthy(dt, G(sh(i, 0), t))))
    return NDArray((d,), 'bool', lambda k: Qw(0, n, lambda i: _truthy(dt, f(i, k)), lambda t: _truthy(dt, G(t, sh(k, 1)))))


def _count_terms(ts):
    out = z3.IntVal(0)
    for t in ts:
        out = out + zi(t)
    return out


def reduce_sum(it, a, axis):
    """np.sum of a bool/int array (cardinality): exact for a concrete extent, otherwise only `== 0 <=> none true`."""
    if not isinstance(a, NDArray):
        a = from_nested(it, a)
    if a.dtype == 'float':
        raise Unsupported('np.sum of a float array (arithmetic is not modelled)')
    f, dt = a.fn, a.dtype
    ax = _axis(a, axis)
    run = it.run

    def total(n, elem, tag):
        """sum_{j<n} elem(j) as a term (concrete n) or None"""
        c = conc(n)
        if c is not None:
            return _count_terms([elem(z3.IntVal(j)) for j in range(c)])
        return None

    if a.rank == 1 or ax is None:
        if a.rank == 2:
            raise Unsupported('np.sum over both axes')
        n = a.shape[0]
        t = total(n, lambda j: f(j), 'sum')
        if t is not None:
            return t
        if it.pure or dt != 'bool':
            raise Unsupported('np.sum over a symbolic extent (pure mode / non-boolean)')
        c = run.fresh('npsum', z3.IntSort())
        fact(run, z3.And(c >= 0, c <= zi(n)))
        run.axiom((c == 0) == z3.Not(QE(n, lambda j: f(j))))
        return c
    n, d = a.shape
    red, keep = (n, d) if ax == 0 else (d, n)
    g = (lambda i, j: f(j, i)) if ax == 0 else (lambda i, j: f(i, j))      # g(kept index, reduced index)
    if conc(red) is not None:
        return NDArray((keep,), 'int', lambda i: total(red, lambda j: g(i, j), 'sum'))
    if it.pure or dt != 'bool':
        raise Unsupported('np.sum over a symbolic extent (pure mode / non-boolean)')
    cf = fresh_fn(run, 'npsum', 1, z3.IntSort())
    fact(run, QA(keep, lambda i: z3.And(cf(i) >= 0, cf(i) <= zi(red), (cf(i) == 0) == z3.Not(QE(red, lambda j: g(i, j))))))
    r = NDArray((keep,), 'int', lambda i: cf(i))
    r.count_of = (g, red)       # ghost: what is being counted (used by specifications)
    return r


def reduce_max(it, a, initial=None):
    """np.max(a[, initial=v]) over all elements: with `initial` the maximum of v and the elements (an empty array is allowed)."""
    if not isinstance(a, NDArray):
        a = from_nested(it, a)
    if a.dtype != 'float':
        a = astype(a, 'float')
    f = a.fn
    run = it.run
    if a.rank == 1:
        n = a.shape[0]
        allq = lambda body: QA(n, lambda i: body(f(i)))
        exq = lambda body: QE(n, lambda i: body(f(i)))
        nonempty = zi(n) > 0
    else:
        n, d = a.shape
        allq = lambda body: QA(n, lambda i: QA(d, lambda k: body(f(i, k))))
        exq = lambda body: QE(n, lambda i: QE(d, lambda k: body(f(i, k))))
        nonempty = z3.And(zi(n) > 0, zi(d) > 0)
    if initial is None and not it.truth(nonempty):
        raise PyRaise(it.make_exc('ValueError', ['zero-size array to reduction operation maximum which has no identity']))
    if it.pure:
        raise Unsupported('np.max in pure mode')
    mx = run.fresh('npmax', xreal.XReal)
    anynan = exq(lambda x: xreal.is_nan(x))
    if initial is None:
        fact(run, z3.Implies(anynan, xreal.is_nan(mx)))
        fact(run, z3.Implies(z3.Not(anynan), z3.And(allq(lambda x: xreal.le(x, mx)), exq(lambda x: x == mx))))
    else:
        iv = elem_of(initial, 'float')
        anynan = z3.Or(anynan, xreal.is_nan(iv))
        fact(run, z3.Implies(anynan, xreal.is_nan(mx)))
        fact(run, z3.Implies(z3.Not(anynan), z3.And(xreal.le(iv, mx), allq(lambda x: xreal.le(x, mx)), z3.Or(mx == iv, exq(lambda x: x == mx)))))
    return mx


# ------------------------------------------------------------------------------------------ boolean masks
def implied(it, cond):
    """is `cond` implied by the current path condition (quantifier-free check)?  Only used to keep terms small."""
    if isinstance(cond, bool):
        return cond
    if it.pure:
        return False
    c = z3.simplify(cond)
    if z3.is_true(c):
        return True
    if z3.is_false(c):
        return False
    return not it.run.feasible(z3.Not(c))


def mask_info(it, m):
    """(cnt, sel, rnk) of a rank-1 boolean mask: sel enumerates {j | m[j]} in increasing order, rnk is its inverse."""
    if m.rank != 1 or m.dtype != 'bool':
        raise Unsupported('boolean mask of rank %d / dtype %s' % (m.rank, m.dtype))
    if it.pure:
        raise Unsupported('boolean-mask indexing in pure mode')
    run = it.run
    cache = run.__dict__.setdefault('np_masks', {})
    hit = cache.get(id(m.fn))
    if hit is not None and hit[0] is m.fn:
        return hit[1]
    n, f = m.shape[0], m.fn
    if conc(n) is None:
        jp = z3.Int('j!probe')
        tp = f(jp)
        if z3.is_expr(tp) and E._has_quantifier(tp):
            # a mask whose elements are quantified formulas: the enumeration facts mention a named copy F (F[j] == m[j],
            # instantiated on demand), so that they have triggers
            F = fresh_fn(run, 'maskbit', 1, z3.BoolSort())
            f0 = f
            ax = z3.ForAll([jp], F(jp) == f0(jp), patterns=[F(jp)])
            run.axiom(ax)
            f = lambda j: F(j)
            run.__dict__.setdefault('np_named_masks', {})[id(m.fn)] = (m.fn, F)
    cnt = run.fresh('cnt', z3.IntSort())
    sel, rnk = fresh_fn(run, 'sel', 1, z3.IntSort()), fresh_fn(run, 'rnk', 1, z3.IntSort())
    fact(run, z3.And(cnt >= 0, cnt <= zi(n)))
    body_t = lambda t: z3.And(sel(t) >= 0, sel(t) < zi(n), f(sel(t)), rnk(sel(t)) == t)
    if conc(n) is not None:
        fs = [QA(n, lambda t: z3.Implies(t < cnt, body_t(t))), QA2(n, lambda a, b: z3.Implies(b < cnt, sel(a) < sel(b)))]
    else:
        fs = [QA(cnt, body_t), QA2(cnt, lambda a, b: sel(a) < sel(b))]
    fs.append(QA(n, lambda j: z3.Implies(f(j), z3.And(rnk(j) >= 0, rnk(j) < cnt, sel(rnk(j)) == j))))
    tag = 'mask%d' % (len(cache) + 1)
    for ff in fs:
        fact(run, ff)
        if z3.is_expr(ff) and E._has_quantifier(ff):
            run.__dict__.setdefault('np_fact_tags', {})[ff.get_id()] = tag      # ghost: lets a contract select relevant facts
    info = (cnt, sel, rnk)
    cache[id(m.fn)] = (m.fn, info)
    return info


# ------------------------------------------------------------------------------------------ indexing
def _index(it, i, n):
    """bounds-checked scalar index -> z3 Int position."""
    iz, nz = zi(i), zi(n)
    if isinstance(i, int) and not isinstance(i, bool):
        ok, pos = (nz > i, z3.IntVal(i)) if i >= 0 else (nz >= -i, nz + i)
    else:
        ok, pos = z3.And(iz < nz, iz >= -nz), iz
        if not implied(it, iz >= 0):
            pos = z3.If(iz < 0, nz + iz, iz)
    if it.pure:
        return z3.simplify(pos)      # inside a quantifier the index ranges over the valid positions by construction
    if not it.truth(ok):
        raise PyRaise(it.make_exc('IndexError', ['index out of bounds']))
    return z3.simplify(pos)


def _clip_index(it, x, n, default):
    """python slice bound -> position in [0, n]"""
    if x is None:
        return default
    if isinstance(x, int) and isinstance(n, int):
        if x < 0:
            x += n
        return min(max(x, 0), n)
    xz, nz = zi(x), zi(n)
    if implied(it, z3.And(xz >= 0, xz <= nz)):
        return norm(xz)
    return norm(z3.If(xz < 0, z3.If(xz + nz < 0, 0, xz + nz), z3.If(xz > nz, nz, xz)))


def _slice(it, s, n):
    """(start, length) of a unit-step slice of an axis of extent n."""
    if s.step not in (None, 1):
        raise Unsupported('slice with a step')
    lo = _clip_index(it, s.start, n, 0)
    hi = _clip_index(it, s.stop, n, n)
    if isinstance(lo, int) and isinstance(hi, int):
        return lo, max(hi - lo, 0)
    ln = zi(hi) - zi(lo)
    if not implied(it, ln >= 0):
        ln = z3.If(ln < 0, 0, ln)
    return lo, norm(z3.simplify(ln))


def _axis_select(it, sel, n):
    """one component of an index -> ('scalar', pos) | ('map', length, fn: out index -> source index, perm)"""
    if isinstance(sel, slice):
        lo, ln = _slice(it, sel, n)
        lz = zi(lo)
        return ('map', ln, (lambda t: t + lz) if not (isinstance(lo, int) and lo == 0) else (lambda t: t), None, lo)
    if isinstance(sel, NDArray):
        if sel.rank != 1:
            raise Unsupported('index array of rank %d' % sel.rank)
        if sel.dtype == 'bool':
            same_dim(it, sel.shape[0], n)
            cnt, s, r = mask_info(it, sel)
            return ('map', cnt, lambda t: s(t), None, None)
        if sel.dtype == 'int':
            if sel.perm is None or not (implied(it, zi(sel.perm[2]) == zi(n))):
                raise Unsupported('integer index array that is not (a slice of) an argsort permutation of this axis')
            g = sel.fn
            return ('map', sel.shape[0], lambda t: g(t), sel.perm, None)
        raise Unsupported('float index array')
    if isinstance(sel, (list, tuple)) or isinstance(sel, SymList):
        raise Unsupported('list used as an index')
    return ('scalar', _index(it, sel, n))


def getitem(it, a, idx):
    f = a.fn
    if not isinstance(idx, tuple):
        idx = (idx,)
    if any(x is None for x in idx) or a.rank > 2:
        return _getitem_general(it, a, idx)
    if len(idx) > a.rank:
        raise PyRaise(it.make_exc('IndexError', ['too many indices for array']))
    if a.rank == 1:
        s = _axis_select(it, idx[0], a.shape[0])
        if s[0] == 'scalar':
            return f(s[1])
        _, ln, mp, perm, lo = s
        r = NDArray((ln,), a.dtype, lambda t: f(mp(t)))
        if a.perm is not None and lo is not None:
            p, q, n, off = a.perm
            r.perm = (p, q, n, norm(z3.simplify(zi(off) + zi(lo))))
        return r
    n, d = a.shape
    s0 = _axis_select(it, idx[0], n)
    s1 = _axis_select(it, idx[1], d) if len(idx) > 1 else ('map', d, lambda t: t, None, 0)
    if s0[0] == 'scalar' and s1[0] == 'scalar':
        return f(s0[1], s1[1])
    if s0[0] == 'scalar':
        i, mp = s0[1], s1[2]
        return NDArray((s1[1],), a.dtype, lambda k: f(i, mp(k)))
    if s1[0] == 'scalar':
        k, mp = s1[1], s0[2]
        return NDArray((s0[1],), a.dtype, lambda t: f(mp(t), k))
    m0, m1 = s0[2], s1[2]
    r = NDArray((s0[1], s1[1]), a.dtype, lambda t, k: f(m0(t), m1(k)))
    if s1[4] is not None:
        # ghost: every row of r is (a column window of) a row of the root array: r[t, k] == root(rowmap(t), k + cofs)
        root, rmap, cofs = a.origin if a.origin is not None else (f, (lambda t: t), 0)
        r.origin = (root, (lambda t, rmap=rmap, m0=m0: rmap(m0(t))), norm(z3.simplify(zi(cofs) + zi(s1[4]))))
    if s0[4] is not None and s1[4] is not None:
        # ghost: a rectangular window of a base array, r[t, k] == base(t + rlo, k + clo)  (lets contracts quantify over
        # the base indices instead of shifted ones)
        base, rlo, clo = a.win if a.win is not None else (f, 0, 0)
        r.win = (base, norm(z3.simplify(zi(rlo) + zi(s0[4]))), norm(z3.simplify(zi(clo) + zi(s1[4]))))
        r.awin = (r.win[0], (r.win[1], r.win[2]))
    return r


def _getitem_general(it, a, idx):
    """basic indexing of any rank: integers, unit-step slices and np.newaxis (None)"""
    if sum(1 for x in idx if x is not None) > a.rank:
        raise PyRaise(it.make_exc('IndexError', ['too many indices for array']))
    f = a.fn
    shape, plan, ax = [], [], 0        # plan per source axis: ('fixed', pos) | ('out', out position, offset)
    for x in idx:
        if x is None:
            shape.append(1)
            continue
        s = _axis_select(it, x, a.shape[ax])
        if s[0] == 'scalar':
            plan.append(('fixed', s[1]))
        else:
            if s[4] is None:
                raise Unsupported('array index inside a general (newaxis / rank > 2) subscript')
            plan.append(('out', len(shape), zi(s[4])))
            shape.append(s[1])
        ax += 1
    while ax < a.rank:
        plan.append(('out', len(shape), z3.IntVal(0)))
        shape.append(a.shape[ax])
        ax += 1
    if not shape:
        return f(*[p_[1] for p_ in plan])
    if len(shape) > 3:
        raise Unsupported('arrays of rank > 3')

    def fn(*i):
        return f(*[p_[1] if p_[0] == 'fixed' else z3.simplify(i[p_[1]] + p_[2]) for p_ in plan])
    return NDArray(tuple(shape), a.dtype, fn)


def setitem(it, a, idx, v):
    if a.rank != 1:
        raise Unsupported('item assignment on a rank-%d array' % a.rank)
    if isinstance(idx, tuple):
        if len(idx) != 1:
            raise PyRaise(it.make_exc('IndexError', ['too many indices for array']))
        idx = idx[0]
    old, n, dt = a.fn, a.shape[0], a.dtype
    if isinstance(v, NDArray):
        if v.rank != 1:
            raise Unsupported('assignment of a rank-%d array into a rank-1 array' % v.rank)
        vf = v.fn
        val = lambda t: elem_of(vf(t), dt)
    else:
        if not (z3.is_expr(v) or isinstance(v, (bool, int, float))):
            xs = M.try_iterate(it, v)
            if xs is None:
                raise Unsupported('array item assignment of %r' % (v,))
            return setitem(it, a, idx, from_nested(it, xs))
        sv = elem_of(v, dt)
        val = lambda t: sv
    if isinstance(idx, NDArray) and idx.dtype == 'bool':
        same_dim(it, idx.shape[0], n)
        cnt, sel, rnk = mask_info(it, idx)
        if isinstance(v, NDArray):
            same_dim(it, v.shape[0], cnt)
        mf = idx.fn
        a.fn = lambda j: z3.If(mf(j), val(rnk(j)), old(j))
        if getattr(it.run, 'np_name_writes', False) and conc(n) is None and not it.pure:
            # proof engineering: name the new content (a fresh function with a defining axiom, instantiated on demand) so that
            # repeated masked updates do not nest their terms
            run = it.run
            F, new = fresh_fn(run, 'written', 1, SORTS[dt]), a.fn
            j = z3.Int('j!nw%d' % next(_uid))
            ax = z3.ForAll([j], F(j) == new(j), patterns=[F(j)])
            run.axiom(ax)
            named = run.__dict__.setdefault('np_named', [])
            named.append((F, ax))
            run.__dict__.setdefault('np_fact_tags', {})[ax.get_id()] = 'name%d' % len(named)
            a.fn = lambda j: F(j)
    elif isinstance(idx, NDArray) and idx.dtype == 'int':
        if idx.perm is None or not implied(it, zi(idx.perm[2]) == zi(n)):
            raise Unsupported('scatter through an integer array that is not (a slice of) an argsort permutation of this axis')
        p, q, pn, off = idx.perm
        ln, oz = zi(idx.shape[0]), zi(off)
        if isinstance(v, NDArray):
            same_dim(it, v.shape[0], idx.shape[0])
        a.fn = lambda j: z3.If(z3.And(q(j) >= oz, q(j) < oz + ln), val(q(j) - oz), old(j))
    elif isinstance(idx, slice):
        lo, ln = _slice(it, idx, n)
        if isinstance(v, NDArray):
            same_dim(it, v.shape[0], ln)
        lz, lnz = zi(lo), zi(ln)
        a.fn = lambda j: z3.If(z3.And(j >= lz, j < lz + lnz), val(j - lz), old(j))
    else:
        if isinstance(v, NDArray):
            raise Unsupported('assignment of an array to one element')
        pos = _index(it, idx, n)
        a.fn = lambda j: z3.If(j == pos, sv, old(j))
    a.version += 1
    a.perm = a.win = a.origin = a.awin = None
    return True


# ------------------------------------------------------------------------------------------ sorting
def argsort(it, x):
    if not isinstance(x, NDArray):
        x = from_nested(it, x)
    if x.rank != 1:
        raise Unsupported('argsort of a rank-%d array' % x.rank)
    if it.pure:
        raise Unsupported('argsort in pure mode')
    run = it.run
    n, f = x.shape[0], x.fn
    p, q = fresh_fn(run, 'perm', 1, z3.IntSort()), fresh_fn(run, 'inv', 1, z3.IntSort())
    nz = zi(n)
    fact(run, QA(n, lambda t: z3.And(p(t) >= 0, p(t) < nz, q(p(t)) == t)))
    fact(run, QA(n, lambda j: z3.And(q(j) >= 0, q(j) < nz, p(q(j)) == j)))
    if x.dtype == 'float':
        sf = QA2(n, lambda a, b: z3.Or(xreal.is_nan(f(p(b))), xreal.le(f(p(a)), f(p(b)))))
    else:
        sf = QA2(n, lambda a, b: zi(f(p(a))) <= zi(f(p(b))))
    fact(run, sf)
    if z3.is_expr(sf):
        run.__dict__.setdefault('np_fact_tags', {})[sf.get_id()] = 'sorted'     # ghost: lets a contract select relevant facts
    r = NDArray((n,), 'int', lambda t: p(t))
    r.perm = (p, q, n, 0)
    run.__dict__.setdefault('np_argsorts', []).append((x, p, q, n))
    return r


def searchsorted(it, a, v, side='left'):
    if not isinstance(a, NDArray) or a.rank != 1:
        raise Unsupported('searchsorted on %r' % (a,))
    if isinstance(v, NDArray):
        raise Unsupported('searchsorted of an array of values')
    if side not in ('left', 'right'):
        raise Unsupported('searchsorted side=%r' % (side,))
    if it.pure:
        raise Unsupported('searchsorted in pure mode')
    run = it.run
    n, f = a.shape[0], a.fn
    vz = elem_of(v, 'float')
    g = (lambda t: f(t)) if a.dtype == 'float' else (lambda t: xreal.lift(f(t)))
    run.oblige('numpy.searchsorted.requires_ascending', QA2(n, lambda x, y: z3.Or(xreal.is_nan(g(x)), xreal.is_nan(g(y)), xreal.le(g(x), g(y)))))
    s = run.fresh('ssplit', z3.IntSort())
    fact(run, z3.And(s >= 0, s <= zi(n)))
    if side == 'right':
        body = lambda t: z3.If(t < s, xreal.le(g(t), vz), xreal.lt(vz, g(t)))
    else:
        body = lambda t: z3.If(t < s, xreal.lt(g(t), vz), xreal.le(vz, g(t)))
    fact(run, QA(n, lambda t: z3.Implies(z3.And(z3.Not(xreal.is_nan(g(t))), z3.Not(xreal.is_nan(vz))), body(t))))
    run.__dict__.setdefault('np_searchsorted', []).append((a, vz, s, side))
    return s


# ------------------------------------------------------------------------------------------ constructors / library functions
def _shape_arg(it, s):
    if isinstance(s, (list, tuple)):
        return tuple(norm(zi(x)) for x in s)
    if isinstance(s, NDArray):
        raise Unsupported('array used as a shape')
    return (norm(zi(s)),)


def _np_full(value):
    def fn(it, args, kw):
        shape = _shape_arg(it, args[0] if args else kw['shape'])
        if len(shape) > 2:
            raise Unsupported('arrays of rank > 2')
        dt = dtype_arg(kw.get('dtype', args[1] if len(args) > 1 else None), 'float')
        return const_array(shape, dt, value)
    return fn


def _np_array(it, args, kw):
    return from_nested(it, args[0], dtype_arg(kw.get('dtype', args[1] if len(args) > 1 else None)))


def _np_all(it, args, kw):
    return reduce_bool(it, args[0], kw.get('axis', args[1] if len(args) > 1 else None), 'all')


def _np_any(it, args, kw):
    return reduce_bool(it, args[0], kw.get('axis', args[1] if len(args) > 1 else None), 'any')


def _np_sum(it, args, kw):
    return reduce_sum(it, args[0], kw.get('axis', args[1] if len(args) > 1 else None))


def _np_max(it, args, kw):
    if kw.get('axis', args[1] if len(args) > 1 else None) is not None:
        raise Unsupported('np.max with an axis')
    return reduce_max(it, args[0], kw.get('initial'))


def _map1(fn_scalar, out_dtype):
    def fn(it, args, kw):
        a = args[0]
        if isinstance(a, NDArray):
            f = a.fn
            return NDArray(a.shape, out_dtype or a.dtype, lambda *i: fn_scalar(it, f(*i)))
        if isinstance(a, SymList):
            return fn(it, [from_nested(it, a)], kw)
        xs = None if (z3.is_expr(a) or isinstance(a, (bool, int, float))) else M.try_iterate(it, a)
        if xs is not None:
            return fn(it, [from_nested(it, xs)], kw)
        if not (z3.is_expr(a) or isinstance(a, (bool, int, float))):
            raise Unsupported('element-wise numpy function applied to %r' % (a,))
        return fn_scalar(it, a)
    return fn


def _lnot(it, x):
    return E.znot(it.truth_term(x))


def _isnan(it, x):
    return xreal.is_nan(xreal.lift(x))


def _isfinite(it, x):
    return xreal.is_fin(xreal.lift(x))


def _np_stack(it, args, kw):
    if kw.get('axis', args[1] if len(args) > 1 else 0) != 0:
        raise Unsupported('np.stack along axis != 0')
    v = args[0]
    if isinstance(v, NDArray):
        if v.rank != 2:
            raise Unsupported('np.stack of a rank-%d sequence' % v.rank)
        return v.copy()
    return from_nested(it, v)


def _np_argsort(it, args, kw):
    return argsort(it, args[0])


def _np_searchsorted(it, args, kw):
    side = kw.get('side', args[2] if len(args) > 2 else 'left')
    return searchsorted(it, args[0], args[1], side)


def _np_clip(it, args, kw):
    a, lo, hi = args[0], args[1], args[2]

    def clip1(it_, x):
        x, l, h = xreal.lift(x), xreal.lift(lo), xreal.lift(hi)
        return z3.If(xreal.is_nan(x), x, z3.If(xreal.lt(x, l), l, z3.If(xreal.gt(x, h), h, x)))
    return _map1(clip1, 'float')(it, [a], {})


def _np_linspace_int(it, args, kw):
    """np.linspace(start, stop, num) -- kept symbolic as a LinSpace value; only `.astype(int)` of it is modelled."""
    start, stop, num = args[0], args[1], kw.get('num', args[2] if len(args) > 2 else 50)
    c = conc(num)
    if c is None:
        raise Unsupported('np.linspace with a symbolic number of samples')
    if c < 0:
        raise PyRaise(it.make_exc('ValueError', ['Number of samples must be non-negative']))
    return LinSpace(start, stop, c)


class LinSpace:
    def __init__(self, start, stop, num):
        self.start, self.stop, self.num = start, stop, num


def _linspace_astype_int(it, ls):
    """floor of start + t*(stop-start)/(num-1) for integer start/stop (values are >= 0 in the code under contract:
    truncation toward zero == floor; emitted as an obligation-free assumption recorded by the caller)."""
    s, e, k = zi(ls.start), zi(ls.stop), ls.num
    if k == 0:
        return NDArray((0,), 'int', lambda j: z3.IntVal(0))
    if k == 1:
        vals = [s]
    else:
        vals = [s + (t * (e - s)) / (k - 1) for t in range(k)]     # z3 integer division (floor for a positive divisor)
    vals = [z3.simplify(v) for v in vals]
    return from_nested(it, vals, 'int')


for _pkg in ('numpy', 'jax.numpy'):
    EXTERNAL[_pkg + '.array'] = Builtin('np.array', _np_array)
    EXTERNAL[_pkg + '.asarray'] = Builtin('np.asarray', _np_array)
    EXTERNAL[_pkg + '.zeros'] = Builtin('np.zeros', _np_full(0))
    EXTERNAL[_pkg + '.ones'] = Builtin('np.ones', _np_full(1))
    EXTERNAL[_pkg + '.all'] = Builtin('np.all', _np_all)
    EXTERNAL[_pkg + '.any'] = Builtin('np.any', _np_any)
    EXTERNAL[_pkg + '.sum'] = Builtin('np.sum', _np_sum)
    EXTERNAL[_pkg + '.max'] = Builtin('np.max', _np_max)
    EXTERNAL[_pkg + '.logical_not'] = Builtin('np.logical_not', _map1(_lnot, 'bool'))
    EXTERNAL[_pkg + '.isnan'] = Builtin('np.isnan', _map1(_isnan, 'bool'))
    EXTERNAL[_pkg + '.isfinite'] = Builtin('np.isfinite', _map1(_isfinite, 'bool'))
    EXTERNAL[_pkg + '.stack'] = Builtin('np.stack', _np_stack)
    EXTERNAL[_pkg + '.argsort'] = Builtin('np.argsort', _np_argsort)
    EXTERNAL[_pkg + '.searchsorted'] = Builtin('np.searchsorted', _np_searchsorted)
    EXTERNAL[_pkg + '.clip'] = Builtin('np.clip', _np_clip)
    EXTERNAL[_pkg + '.linspace'] = Builtin('np.linspace', _np_linspace_int)
    EXTERNAL[_pkg + '.inf'] = float('inf')
    EXTERNAL[_pkg + '.newaxis'] = None
    EXTERNAL[_pkg + '.nan'] = float('nan')
    for _t in ('bool_', 'float32', 'float64', 'int32', 'int64'):
        EXTERNAL[_pkg + '.' + _t] = Builtin(_t, lambda it, args, kw: args[0])
    EXTERNAL[_pkg + '.ndarray'] = E.BuiltinClass('ndarray')


# ------------------------------------------------------------------------------------------ jax / functools
class Partial:
    def __init__(self, f, args, kw):
        self.f, self.args, self.kw = f, list(args), dict(kw)


class VMapped:
    def __init__(self, f, in_axes, out_axes):
        self.f, self.in_axes, self.out_axes = f, in_axes, out_axes


def _partial(it, args, kw):
    return Partial(args[0], args[1:], kw)


def _vmap(it, args, kw):
    f = args[0]
    in_axes = kw.get('in_axes', args[1] if len(args) > 1 else 0)
    out_axes = kw.get('out_axes', args[2] if len(args) > 2 else 0)
    if out_axes != 0:
        raise Unsupported('jax.vmap with out_axes != 0')
    return VMapped(f, in_axes, out_axes)


def _jit(it, args, kw):
    if not args:
        return Builtin('jax.jit(...)', lambda it_, a, k: a[0])
    return args[0]


def call_vmapped(it, vm, args, kw):
    if kw:
        raise Unsupported('keyword arguments through jax.vmap')
    axes = vm.in_axes if isinstance(vm.in_axes, (tuple, list)) else (vm.in_axes,) * len(args)
    if len(axes) != len(args):
        raise PyRaise(it.make_exc('ValueError', ['vmap in_axes does not match the arguments']))
    J = it.run.fresh('vj', z3.IntSort())      # ranges over BASE row indices when the (single) mapped argument is a row window
    mapped = [a for a, ax in zip(args, axes) if ax is not None]
    off = 0
    if len(mapped) == 1 and isinstance(mapped[0], NDArray) and mapped[0].rank == 2 and mapped[0].win is not None:
        off = mapped[0].win[1]
    n, inner = None, []
    for a, ax in zip(args, axes):
        if ax is None:
            inner.append(a)
            continue
        if ax != 0 or not isinstance(a, NDArray):
            raise Unsupported('jax.vmap over axis %r of %r' % (ax, a))
        if n is None:
            n = a.shape[0]
        else:
            same_dim(it, n, a.shape[0])
        if conc(off) != 0:
            base, rlo, clo = a.win
            cz = zi(clo)
            rr = NDArray((a.shape[1],), a.dtype, (lambda k, base=base, cz=cz: base(J, z3.simplify(k + cz))))
            root, rmap, cofs = a.origin if a.origin is not None else (a.fn, (lambda t: t), 0)
            rr.rowof = (root, z3.simplify(zi(rmap(z3.simplify(J - zi(rlo))))), cofs)
            inner.append(rr)
        else:
            inner.append(a.row(J) if a.rank == 2 else a.at(J))
    if n is None:
        raise PyRaise(it.make_exc('ValueError', ['vmap must have at least one non-None value in in_axes']))
    it.pure += 1
    try:
        v = it.call(vm.f, inner, {})
    finally:
        it.pure -= 1
    return _lift_over(J, n, v, off)


def _lift_over(J, n, v, off=0):
    """value computed at a symbolic (base) index J -> array over the leading axis of extent n; local index j <-> base j + off"""
    oz = zi(off)
    shift = (lambda j: j) if conc(off) == 0 else (lambda j: z3.simplify(j + oz))
    if isinstance(v, NDArray):
        if v.rank != 1:
            raise Unsupported('mapped function returning a rank-%d array' % v.rank)
        g = v.fn
        r = NDArray((n, v.shape[0]), v.dtype, lambda j, a: z3.substitute(g(a), (J, shift(j))))
        if v.awin is not None:
            Gv, offs = v.awin
            r.awin = ((lambda jb, ab: z3.substitute(Gv(ab), (J, jb))), (off, offs[0]))
        elif conc(off) != 0:
            r.awin = ((lambda jb, a: z3.substitute(g(a), (J, jb))), (off, 0))
        return r
    t = E.to_z3(v)
    dt = dtype_of_scalar(t)
    r = NDArray((n,), dt, lambda j: z3.substitute(t, (J, shift(j))))
    if conc(off) != 0:
        r.awin = ((lambda jb: z3.substitute(t, (J, jb))), (off,))
    return r


EXTERNAL['functools.partial'] = Builtin('functools.partial', _partial)
EXTERNAL['jax.vmap'] = Builtin('jax.vmap', _vmap)
EXTERNAL['jax.jit'] = Builtin('jax.jit', _jit)

_prev_call = M.call_hook


def _call(it, f, args, kw):
    if isinstance(f, Partial):
        k2 = dict(f.kw)
        k2.update(kw)
        return it.call(f.f, f.args + list(args), k2)
    if isinstance(f, VMapped):
        return call_vmapped(it, f, list(args), kw)
    return _prev_call(it, f, args, kw)


M.call_hook = _call


# ------------------------------------------------------------------------------------------ hooks of pyvc.models
def _chain(name, fn):
    prev = getattr(M, name)

    def hook(*a):
        r = fn(*a)
        if r is not M.MISSING:
            return r
        return prev(*a)
    setattr(M, name, hook)


def _len(it, v):
    if isinstance(v, NDArray):
        if v.rank == 0:
            raise PyRaise(it.make_exc('TypeError', ['len() of unsized object']))
        return v.shape[0]
    return M.MISSING


def _squeeze(it, a):
    if a.rank == 2:
        n, d = a.shape
        if implied(it, zi(d) == 1):
            f = a.fn
            it.run.assumed.add('squeeze() of an (n, 1) array is identified with the (n,) array (numpy returns a 0-d array for n == 1)')
            return NDArray((n,), a.dtype, lambda i: f(i, z3.IntVal(0)))
        if implied(it, zi(n) == 1):
            f = a.fn
            return NDArray((d,), a.dtype, lambda k: f(z3.IntVal(0), k))
        raise Unsupported('squeeze() of an array whose unit axes are not determined')
    return a.copy()


def _getattr(it, v, a):
    if isinstance(v, LinSpace):
        if a == 'astype':
            def ast_(it_, args, kw):
                if dtype_arg(args[0]) != 'int':
                    raise Unsupported('np.linspace(...).astype(non-int)')
                it_.run.assumed.add('np.linspace(0, B, k).astype(int32)[t] == floor(t*B/(k-1)) (float rounding of the grid ignored; B >= 0)')
                return _linspace_astype_int(it_, v)
            return Builtin('astype', ast_)
        raise Unsupported('attribute %s of np.linspace(...) (only .astype(int) is modelled)' % a)
    if not isinstance(v, NDArray):
        return M.MISSING
    if a == 'shape':
        return tuple(v.shape)
    if a == 'ndim':
        return v.rank
    if a == 'argsort':
        return Builtin('argsort', lambda it_, args, kw: argsort(it_, v))
    if a == 'squeeze':
        return Builtin('squeeze', lambda it_, args, kw: _squeeze(it_, v))
    if a == 'astype':
        return Builtin('astype', lambda it_, args, kw: astype(v, dtype_arg(args[0] if args else kw.get('dtype'))))
    if a == 'copy':
        return Builtin('copy', lambda it_, args, kw: v.copy())
    if a == 'all':
        return Builtin('all', lambda it_, args, kw: reduce_bool(it_, v, kw.get('axis', args[0] if args else None), 'all'))
    if a == 'any':
        return Builtin('any', lambda it_, args, kw: reduce_bool(it_, v, kw.get('axis', args[0] if args else None), 'any'))
    if a == 'sum':
        return Builtin('sum', lambda it_, args, kw: reduce_sum(it_, v, kw.get('axis', args[0] if args else None)))
    if a == 'append' and v.kind == 'list':
        return Builtin('append', lambda it_, args, kw: list_append(it_, v, args[0]))
    raise Unsupported('ndarray attribute %s' % a)


def _subscript(it, base, idx):
    if isinstance(base, NDArray):
        return getitem(it, base, idx)
    return M.MISSING


def _setitem(it, base, idx, v):
    if isinstance(base, NDArray):
        return setitem(it, base, idx, v)
    return M.MISSING


def elements(a):
    """python list of the rows / elements of an array with a concrete leading extent, else None."""
    c = conc(a.shape[0]) if a.rank else None
    if c is None:
        return None
    if a.rank == 1:
        return [a.at(j) for j in range(c)]
    return [a.row(j) for j in range(c)]


def _iterate(it, v):
    if isinstance(v, NDArray):
        xs = elements(v)
        return xs if xs is not None else M.MISSING
    return M.MISSING


def _deepcopy(it, v, memo):
    if isinstance(v, NDArray):
        return v.copy()
    return M.MISSING


_chain('len_hook', _len)
_chain('value_getattr_hook', _getattr)
_chain('subscript_hook', _subscript)
_chain('setitem_hook', _setitem)
_chain('iterate_hook', _iterate)
_chain('deepcopy_hook', _deepcopy)

_prev_truth = M.truth_hook


def _truth(it, v):
    if isinstance(v, NDArray):
        raise Unsupported('truth value of an array (numpy raises ValueError unless it has exactly one element)')
    return _prev_truth(it, v)


M.truth_hook = _truth

# ---- wrapped (no hook exists): fresh_like / snapshot -- arrays are havoced in place, like array-lists
_orig_fresh_like, _orig_snapshot = M.fresh_like, M.snapshot
LIST_DECLS = {}     # (module, qualname, varname) -> fn(it, frame_env) -> value that replaces the concrete python list before havoc


def declare_list(module, qualname, varname, make):
    """a python list local that reaches the write set of a symbolic loop while still a concrete (empty) list:
    `make(it, current_list)` returns the array-list / NDArray(kind='list') that represents it from then on."""
    LIST_DECLS[(module, qualname, varname)] = make


def _fresh_like(it, v, name):
    if isinstance(v, list):
        for fv in reversed(it.stack):
            mk = LIST_DECLS.get((fv.mod.dotted, fv.qualname, name))
            if mk is not None:
                v = mk(it, v)
                break
    if isinstance(v, NDArray):
        f = fresh_fn(it.run, name, v.rank, SORTS[v.dtype])
        v.fn = lambda *i: f(*i)
        v.version += 1
        v.perm = v.win = v.origin = v.awin = None
        if v.kind == 'list':
            n = it.run.fresh(name + '_n', z3.IntSort())
            it.run.assume(n >= 0)
            v.shape = (n,) + tuple(v.shape[1:])
        return v
    return _orig_fresh_like(it, v, name)


def _snapshot(v):
    if isinstance(v, NDArray):
        r = NDArray(v.shape, v.dtype, v.fn, v.kind)
        r.perm, r.win, r.origin, r.awin = v.perm, v.win, v.origin, v.awin
        return r
    return _orig_snapshot(v)


M.fresh_like = _fresh_like
M.snapshot = _snapshot


def list_append(it, lst, row):
    """append of a vector (python list of scalars / rank-1 array) to a list of vectors represented as an NDArray(kind='list')."""
    if lst.rank != 2:
        raise Unsupported('append to a list of scalars represented as an array')
    r = from_nested(it, row, lst.dtype)
    same_dim(it, r.shape[0], lst.shape[1])
    old, n, g = lst.fn, zi(lst.shape[0]), r.fn
    lst.fn = lambda j, k: z3.If(j == n, g(k), old(j, k))
    lst.shape = (norm(z3.simplify(n + 1)), lst.shape[1])
    lst.version += 1
    return None


# ---- enumerate / list over symbolic arrays and array-lists
class EnumList(SymList):
    """the value of enumerate(xs) / a row iterator for a symbolic extent: an array-list whose elements are python values"""

    def __init__(self, n, getter):
        SymList.__init__(self, zi(n), None, 'pyobj')
        self._get = getter

    def get(self, i):
        return self._get(i)


_orig_enumerate, _orig_list = M.BUILTINS['enumerate'].fn, M.BUILTINS['list'].fn


def _b_enumerate(it, args, kw):
    v = _named_elements(it, args[0])
    start = args[1] if len(args) > 1 else kw.get('start', 0)
    if isinstance(v, NDArray) and v.rank >= 1 and conc(v.shape[0]) is None:
        snap = v.copy()
        elem = (lambda i: snap.row(i)) if v.rank == 2 else (lambda i: snap.at(i))
        return EnumList(v.shape[0], lambda i: (i + start if not (isinstance(start, int) and start == 0) else i, elem(i)))
    if isinstance(v, SymList) and M.try_iterate(it, v) is None:
        r = EnumList(v.n, lambda i: (i + start if not (isinstance(start, int) and start == 0) else i, v.get(i)))
        r.base = v
        return r
    return _orig_enumerate(it, args, kw)


def as_symlist(it, v):
    """a symbolic rank-1 array as an array-list: a fresh z3 array A with the defining fact forall j. A[j] == v[j]
    (deferred to the contract when Run.np_defer_facts is set)."""
    run = it.run
    cache = run.__dict__.setdefault('np_aslist', {})
    hit = cache.get(id(v.fn))
    if hit is not None and hit[0] is v.fn:
        return hit[1]
    arr = run.fresh('aslist', z3.ArraySort(z3.IntSort(), SORTS[v.dtype]))
    f = v.fn
    df = QA(v.shape[0], lambda j: arr[j] == f(j))
    if getattr(run, 'np_defer_facts', False):
        # proof engineering: the contract adds the defining fact where it is needed (Run.np_deferred) instead of
        # exposing it to every later obligation of the path
        run.__dict__.setdefault('np_deferred', []).append(df)
    else:
        fact(run, df)
    r = SymList(zi(v.shape[0]), arr, v.dtype)
    r.of_array = v.copy()
    cache[id(v.fn)] = (v.fn, r)
    return r


def _named_elements(it, v):
    """iterating a symbolic boolean array whose elements are quantified formulas: iterate the array-list view instead, so
    that the loop body branches on (and invariants mention) the atoms A[j], never on a quantified formula"""
    if isinstance(v, NDArray) and v.rank == 1 and conc(v.shape[0]) is None and not it.pure:
        j = z3.Int('j!probe')
        t = v.at(j)
        if z3.is_expr(t) and E._has_quantifier(t):
            return as_symlist(it, v)
    return v


def range_as_symlist(it, r):
    """list(range(start, stop, step)) with symbolic bounds and a symbolic step of known sign: an int array-list L of symbolic
    length n with the LINEAR facts of an arithmetic progression (the product i*step is never formed):
        n >= 0;  n == 0 <=> the range is empty;  L[0] == start;  L[i+1] == L[i] + step;  every element lies between start and stop;
        the last element is the last one before stop   (so n == ceil((stop - start) / step)).
    Ghost for contracts (Run.np_ranges): `tile_at(t)` -- consecutive elements tile the interval between the last and the first
    element (a property of arithmetic progressions; instantiated explicitly by a contract at the index it needs)."""
    run = it.run
    if it.pure:
        raise Unsupported('list(range(...)) with symbolic bounds in pure mode')
    a, b, st = zi(r.lo), zi(r.hi), zi(r.step)
    if implied(it, st < 0):
        down = True
    elif implied(it, st > 0):
        down = False
    else:
        if it.truth(st == 0):
            raise PyRaise(it.make_exc('ValueError', ['range() arg 3 must not be zero']))
        down = it.truth(st < 0)
    n = run.fresh('range_n', z3.IntSort())
    arr = run.fresh('range_a', z3.ArraySort(z3.IntSort(), z3.IntSort()))
    before = (lambda x: x > b) if down else (lambda x: x < b)          # x is still inside the range
    run.assume(n >= 0)
    run.assume((n == 0) == z3.Not(before(a)))
    run.assume(z3.Implies(n > 0, z3.And(arr[0] == a, before(arr[n - 1]), z3.Not(before(arr[n - 1] + st)))))
    i = z3.Int('i!rg%d' % next(_uid))
    run.axiom(z3.ForAll([i], z3.Implies(z3.And(i >= 0, i < n - 1), arr[i + 1] == arr[i] + st), patterns=[arr[i]]))
    run.axiom(z3.ForAll([i], z3.Implies(z3.And(i >= 0, i < n), z3.And(before(arr[i]), (arr[i] <= a) if down else (arr[i] >= a))), patterns=[arr[i]]))
    L = SymList(n, arr, 'int')
    wit = fresh_fn(run, 'range_tile', 1, z3.IntSort())
    if down:
        tile_at = lambda t: z3.Implies(z3.And(n > 0, arr[n - 1] <= t, t < arr[0]), z3.And(wit(t) >= 0, wit(t) < n - 1, arr[wit(t) + 1] <= t, t < arr[wit(t)]))
    else:
        tile_at = lambda t: z3.Implies(z3.And(n > 0, arr[0] <= t, t < arr[n - 1]), z3.And(wit(t) >= 0, wit(t) < n - 1, arr[wit(t)] <= t, t < arr[wit(t) + 1]))
    run.__dict__.setdefault('np_ranges', []).append(dict(list=M.snapshot(L), start=a, stop=b, step=st, down=down, tile_at=tile_at))
    run.assumed.add('list(range(a, b, s)) with symbolic arguments: an arithmetic progression given by linear facts (first element, constant difference, '
                    'bounds, last element before b); consecutive elements tile the interval they span')
    return L


def _b_list(it, args, kw):
    if args and isinstance(args[0], M.SymRange):
        r = args[0]
        if all(conc(x) is not None for x in (r.lo, r.hi, r.step)):
            return list(range(conc(r.lo), conc(r.hi), conc(r.step)))
        return range_as_symlist(it, r)
    if args and isinstance(args[0], NDArray):
        v = args[0]
        xs = elements(v)
        if xs is not None:
            return xs
        if v.rank != 1 or it.pure:
            raise Unsupported('list() of a symbolic rank-%d array' % v.rank)
        return as_symlist(it, v)
    return _orig_list(it, args, kw)


M.BUILTINS['enumerate'] = Builtin('enumerate', _b_enumerate)
M.BUILTINS['list'] = Builtin('list', _b_list)

# ---- list comprehensions over a symbolic range / the rows of a symbolic array: a lazily defined list (kind='list')
_orig_comprehension = M.comprehension


def _symbolic_source(it, first):
    """(extent, element-at-index function) for comprehension sources this module understands, else None."""
    if isinstance(first, M.SymRange):
        if conc(first.step) != 1:
            return None
        lo, hi = zi(first.lo), zi(first.hi)
        if conc(hi - lo) is not None:
            return None
        n = norm(z3.simplify(hi - lo))
        return n, (lambda j: z3.simplify(lo + j)) if conc(lo) != 0 else (lambda j: j)
    if isinstance(first, NDArray) and first.rank >= 1 and conc(first.shape[0]) is None:
        snap = first.copy()
        return first.shape[0], (lambda j: snap.row(j)) if first.rank == 2 else (lambda j: snap.at(j))
    return None


def _comprehension(it, fr, e, kind):
    gens = e.generators
    if kind == 'list' and len(gens) == 1 and not gens[0].ifs and not getattr(gens[0], 'is_async', 0):
        first = it.eval(fr, gens[0].iter)
        src = _symbolic_source(it, first)
        if src is not None:
            n, at = src
            J = it.run.fresh('cj', z3.IntSort())
            fr2 = E.Frame(fr.mod, {}, parent=fr)
            it.pure += 1
            try:
                it.assign(fr2, gens[0].target, at(J))
                v = it.eval(fr2, e.elt)
            finally:
                it.pure -= 1
            r = _lift_over(J, n, v)
            r.kind = 'list'
            return r
    return _orig_comprehension(it, fr, e, kind)


M.comprehension = _comprehension

_prev_try_iterate_range = M.iterate_hook


def _iterate_range(it, v):
    if isinstance(v, M.SymRange):
        lo, hi, st = conc(v.lo), conc(v.hi), conc(v.step)
        if lo is not None and hi is not None and st is not None:
            return list(range(lo, hi, st))
    return _prev_try_iterate_range(it, v)


M.iterate_hook = _iterate_range


# ---- round(x) of a symbolic float: name the result (the banker's-rounding term is large; naming it keeps quantifier
#      bounds and path conditions small).  Semantics unchanged: r == <the term computed by models.b_round>.
_orig_round = M.BUILTINS['round'].fn


def _b_round(it, args, kw):
    r = _orig_round(it, args, kw)
    if z3.is_expr(r) and not it.pure and r.sort() == z3.IntSort() and not z3.is_const(r) and conc(r) is None:
        c = it.run.fresh('rounded', z3.IntSort())
        it.run.assume(c == r)
        return c
    return r


M.BUILTINS['round'] = Builtin('round', _b_round)


# ---- zip over symbolic sequences: an array-list of tuples (consumed by a `for` loop contract or by a comprehension, for which
#      the engine's definitional filter/map encoding applies); zip truncates to the shortest argument
_orig_zip = M.BUILTINS['zip'].fn


def _seq_len_get(it, v):
    """(length, element-at-index) of a symbolic sequence, or None"""
    if isinstance(v, NDArray) and v.rank >= 1 and conc(v.shape[0]) is None:
        snap = v.copy()
        return v.shape[0], ((lambda i: snap.row(i)) if v.rank == 2 else (lambda i: snap.at(i)))
    if isinstance(v, SymList) and M.try_iterate(it, v) is None:
        return v.n, (lambda i: v.get(i))
    return None


def _b_zip(it, args, kw):
    args = [_named_elements(it, a) for a in args]
    parts = [_seq_len_get(it, a) for a in args]
    if not any(p is not None for p in parts):
        return _orig_zip(it, args, kw)
    if any(p is None for p in parts):
        raise Unsupported('zip of symbolic and concrete sequences')
    n = zi(parts[0][0])
    for ln, _ in parts[1:]:
        if not implied(it, zi(ln) == n):
            n = z3.If(zi(ln) < n, zi(ln), n)
    r = EnumList(norm(z3.simplify(n)), lambda i: tuple(g(i) for _, g in parts))
    r.zipped = list(args)
    return r


M.BUILTINS['zip'] = Builtin('zip', _b_zip)

# ---- an array-list of messages/objects used as a numpy object array: np.asarray(xs)[mask] is the order-preserving filter
_orig_subscript = M.subscript


def _subscript_list_by_mask(it, base, idx):
    if isinstance(base, SymList) and not isinstance(base, EnumList) and isinstance(idx, NDArray) and idx.dtype == 'bool' and idx.rank == 1:
        same_dim(it, base.n, idx.shape[0])
        cnt, sel, rnk = mask_info(it, idx)
        run = it.run
        arr = run.fresh('picked', base.arr.sort())
        src_arr = base.arr
        if conc(base.n) is not None:
            fact(run, QA(base.n, lambda t: z3.Implies(t < cnt, arr[t] == src_arr[sel(t)])))
        else:
            fact(run, QA(cnt, lambda t: arr[t] == src_arr[sel(t)]))
        r = SymList(cnt, arr, base.elem)
        mf = idx.fn
        run.__dict__.setdefault('np_filters', []).append(dict(n=cnt, arr=arr, src=(lambda j: sel(j)), cond=(lambda i: mf(i)), parent=M.snapshot(base),
                                                           complete_at=(lambda c: z3.Implies(z3.And(c >= 0, c < zi(base.n), mf(c)),
                                                                                            z3.And(rnk(c) >= 0, rnk(c) < cnt, sel(rnk(c)) == c)))))
        return r
    if isinstance(base, SymList) and isinstance(idx, slice) and idx.step in (None, 1) and idx.start not in (None, 0) \
            and M.try_iterate(it, base) is None:
        # xs[lo:hi] of an array-list of symbolic length: a view (element i = xs[lo + i]); python clips the bounds to [0, len]
        lo = _clip_index(it, idx.start, norm(base.n), 0)
        hi = _clip_index(it, idx.stop, norm(base.n), norm(base.n))
        ln = z3.simplify(zi(hi) - zi(lo))
        if not implied(it, ln >= 0):
            ln = z3.If(ln < 0, 0, ln)
        lz = zi(lo)
        r = EnumList(norm(ln), lambda i: base.get(z3.simplify(zi(i) + lz)))
        r.view_of = (base, lo)
        return r
    if isinstance(base, SymList) and not isinstance(base, EnumList) and isinstance(idx, NDArray):
        if idx.dtype == 'int' and idx.rank == 1 and not it.pure:
            # gather through an integer index array (e.g. a slice of an argsort permutation)
            if idx.perm is None or not implied(it, zi(idx.perm[2]) == zi(base.n)):
                raise Unsupported('list indexed by an integer array that is not (a slice of) an argsort permutation of its positions')
            run = it.run
            arr = run.fresh('gathered', base.arr.sort())
            g, src_arr = idx.fn, base.arr
            fact(run, QA(idx.shape[0], lambda t: arr[t] == src_arr[g(t)]))
            r = SymList(zi(idx.shape[0]), arr, base.elem)
            run.__dict__.setdefault('np_gathers', []).append(dict(n=r.n, arr=arr, index=(lambda t: g(t)), parent=M.snapshot(base), perm=idx.perm))
            return r
        raise Unsupported('array-list indexed by a %s array of rank %d' % (idx.dtype, idx.rank))
    return _orig_subscript(it, base, idx)


M.subscript = _subscript_list_by_mask

_prev_np_array = _np_array


def _np_array_objects(it, args, kw):
    v = args[0]
    if isinstance(v, SymList) and (isinstance(v.elem, pm.MsgSchema) or v.elem == 'pyobj') and not isinstance(v, EnumList):
        return SymList(v.n, v.arr, v.elem)       # object array of messages / python objects: only indexing by a boolean mask / list() are modelled
    return _prev_np_array(it, args, kw)


for _pkg in ('numpy', 'jax.numpy'):
    EXTERNAL[_pkg + '.array'] = Builtin('np.array', _np_array_objects)
    EXTERNAL[_pkg + '.asarray'] = Builtin('np.asarray', _np_array_objects)
