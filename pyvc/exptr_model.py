"""pyvc.exptr_model -- models for the C20 check (benchmark experimenters), DESIGN 5 "C20".

Nothing here is a copy of repository code.  It provides, for the pyvc engine:

  * a *heap of trials*: trial objects are references (sort TrialRef); their mutable fields live in z3 arrays kept in
    `run.ghost['H.<field>']` (parameters, final_measurement present?, its metrics, its other fields, infeasible?),
    so that loops over batches of *any* size are handled by the invariant rule (the engine havocs the ghost heap at the
    loop head).  MetricInformation objects of a problem statement are references as well (goal / name are mutable).
  * dict *values* (ParameterDict, the metrics dict of a Measurement): a z3 datatype (dom, val, n, keys, idx); `keys` is the
    iteration order, `idx` its inverse (well-formedness = language semantics of dict iteration, instantiated on demand)
  * `SMap`: a dict under construction inside a symbolic loop (dom/val/src arrays, src = write provenance)
  * `VList` / `ZipList` / `EnumList` / `ItemsList`: array-lists of the above values, zip()/enumerate()/.items() over them
  * `Abs`: an opaque python value (search spaces, numpy arrays, converters' inputs): every operation yields another opaque
    value, every test on it forks on a fresh Bool -- used to execute the real `__init__` of the wrappers
  * models of the pyvizier data classes used by the experimenters (Trial.complete, Measurement, Metric, ParameterDict,
    ParameterValue, ObjectiveMetricGoal) -- trusted library semantics, cross-checked by replay/c20_replay.py
  * `BaseContract`: the wrapped experimenter as an object of the opaque class 'BaseExperimenter' whose `evaluate`
    / `problem_statement` are *contracts* (assumed), see `base_evaluate`.

Importing the module registers everything through the hooks of pyvc.models (previous hooks are kept and chained).
"""
import ast

import z3

from . import engine as E
from . import models as M
from . import protomodel as pm
from . import xreal
from .engine import Obj, Builtin, Unsupported, PyRaise, BuiltinClass, ExcObj
from .protomodel import SymList, Str

TRM = 'vizier._src.pyvizier.shared.trial'
BSC = 'vizier._src.pyvizier.shared.base_study_config'
PCM = 'vizier._src.pyvizier.shared.parameter_config'
CNV = 'vizier._src.pyvizier.converters.core'

TRUST = [
    'pyvizier data classes as modelled in pyvc/exptr_model.py: Trial.parameters is converted with ParameterDict(...) on every '
    'assignment (a value copy), Trial.complete(m, infeasibility_reason=r) stores a deep copy of m as final_measurement and sets the '
    'infeasibility reason iff r is not None, Measurement.metrics is converted with _MetricDict(**d) on assignment (floats wrapped into '
    'Metric(value=float(x))), Metric(value=x, std=None), ParameterValue(v).value == v, ObjectiveMetricGoal is an IntEnum',
    'dict iteration enumerates every key exactly once (keys/idx well-formedness of dict values)',
    'copy.deepcopy returns a structure of fresh objects with equal field values',
    'TrialToArrayConverter.to_features(trials)[i] depends only on trials[i].parameters; to_features / to_parameters do not modify the trials',
]

# ------------------------------------------------------------------------------------------ sorts
TRef = z3.DeclareSort('TrialRef')
MIRef = z3.DeclareSort('MetricInfoRef')
PVal = z3.DeclareSort('PVal')          # raw parameter value (str | int | float | bool): equality only
MRest = z3.DeclareSort('MeasRest')     # elapsed_secs, steps, checkpoint_path of a Measurement
MIRest = z3.DeclareSort('MetricInfoRest')
Feat = z3.DeclareSort('Feat')          # numpy feature arrays (opaque)
Conv = z3.DeclareSort('Conv')          # TrialToArrayConverter instances (opaque)

MetricS = z3.Datatype('MetricVal')
MetricS.declare('mk', ('value', xreal.XReal), ('has_std', z3.BoolSort()), ('std', xreal.XReal))
MetricS = MetricS.create()


class DictInfo:
    """z3 datatype of a dict value Str -> V with its iteration order."""

    def __init__(self, name, vsort, vwrap, vunwrap):
        dt = z3.Datatype(name)
        dt.declare('mk', ('dom', z3.ArraySort(Str, z3.BoolSort())), ('val', z3.ArraySort(Str, vsort)), ('n', z3.IntSort()),
                   ('keys', z3.ArraySort(z3.IntSort(), Str)), ('idx', z3.ArraySort(Str, z3.IntSort())))
        self.sort = dt.create()
        self.name, self.vsort, self.vwrap, self.vunwrap = name, vsort, vwrap, vunwrap
        self.mk, self.dom, self.val, self.n, self.keys, self.idx = (self.sort.mk, self.sort.dom, self.sort.val, self.sort.n,
                                                                   self.sort.keys, self.sort.idx)

    def wf(self, t):
        """well-formedness of the iteration order: (quantifier-free part, [quantified parts])."""
        j, s = z3.Int('j!wf'), z3.Const('s!wf', Str)
        n, keys, idx, dom = self.n(t), self.keys(t), self.idx(t), self.dom(t)
        return (n >= 0,
                [z3.ForAll([j], z3.Implies(z3.And(j >= 0, j < n), z3.And(dom[keys[j]], idx[keys[j]] == j))),
                 z3.ForAll([s], z3.Implies(dom[s], z3.And(idx[s] >= 0, idx[s] < n, keys[idx[s]] == s)))])

    def empty(self):
        return self.mk(z3.K(Str, z3.BoolVal(False)), z3.K(Str, z3.Const('dflt_' + self.name, self.vsort)), z3.IntVal(0),
                       z3.K(z3.IntSort(), pm.str_lit('')), z3.K(Str, z3.IntVal(-1)))


# ------------------------------------------------------------------------------------------ python-side values
class MetricV:
    def __init__(self, term):
        self.term = term


class PValV:
    """a ParameterValue (immutable wrapper of a raw value)."""

    def __init__(self, term):
        self.term = term


class RawV:
    """a raw parameter value (what ParameterValue.value / as_float return)."""

    def __init__(self, term):
        self.term = term

    def __eq__(self, other):
        if isinstance(other, RawV):
            return self.term == other.term
        return NotImplemented

    __hash__ = object.__hash__


class GoalV:
    """an ObjectiveMetricGoal member (IntEnum): term of sort Int."""

    def __init__(self, term):
        self.term = term

    def __eq__(self, other):
        if isinstance(other, GoalV):
            return self.term == other.term
        return NotImplemented

    __hash__ = object.__hash__


def _unwrap_metric(it, v):
    if isinstance(v, MetricV):
        return v.term
    if isinstance(v, (int, float)) and not isinstance(v, bool) or xreal.is_x(v):
        # _MetricDict.__setitem__ / the Measurement.metrics converter wrap raw numbers into Metric(value=float(x))
        return MetricS.mk(xreal.lift(v), z3.BoolVal(False), xreal.lit(0.0))
    if isinstance(v, Abs):
        return MetricS.mk(it.run.fresh('absmetric', xreal.XReal), z3.BoolVal(False), xreal.lit(0.0))
    raise Unsupported('value %r stored as a metric' % (v,))


def _unwrap_pval(it, v):
    if isinstance(v, (PValV, RawV)):
        return v.term
    if isinstance(v, Abs):
        return it.run.fresh('abspval', PVal)
    raise Unsupported('value %r stored as a parameter value' % (v,))


MDI = DictInfo('MetricDict', MetricS, lambda t: MetricV(t), _unwrap_metric)
PDI = DictInfo('ParamDict', PVal, lambda t: PValV(t), _unwrap_pval)
PD, MD = PDI.sort, MDI.sort


class DictV:
    """immutable dict value (ParameterDict / metrics dict)."""

    def __init__(self, di, term):
        self.di, self.term = di, term


class TrialV:
    def __init__(self, ref):
        self.term = ref


class MeasV:
    """the final_measurement object of a trial (a view into the heap)."""

    def __init__(self, ref):
        self.ref = ref


class MeasNew:
    """a Measurement constructed by the code under contract (not yet attached to a trial)."""

    def __init__(self, metrics, rest):
        self.metrics, self.rest = metrics, rest       # metrics: SMap | PyDict | DictV


class MetricInfoV:
    def __init__(self, ref):
        self.term = ref


# ------------------------------------------------------------------------------------------ heap
FIELDS = {
    'params': (TRef, PD), 'fmset': (TRef, z3.BoolSort()), 'metrics': (TRef, MD), 'rest': (TRef, MRest),
    'infeas': (TRef, z3.BoolSort()), 'talloc': (TRef, z3.BoolSort()),
    'goal': (MIRef, z3.IntSort()), 'miname': (MIRef, Str), 'mirest': (MIRef, MIRest), 'mialloc': (MIRef, z3.BoolSort()),
}
TRIAL_FIELDS = ('params', 'fmset', 'metrics', 'rest', 'infeas')
ALL = tuple('H.' + f for f in FIELDS)


def init_heap(run):
    for f, (ks, vs) in FIELDS.items():
        run.ghost['H.' + f] = z3.Const('H0_' + f, z3.ArraySort(ks, vs))
    run.ghost['c20.clock'] = z3.IntVal(-1)


def H(run, f):
    return run.ghost['H.' + f]


def Hset(run, f, ref, v):
    run.ghost['H.' + f] = z3.Store(run.ghost['H.' + f], ref, v)


def heap_snapshot(run):
    return {f: run.ghost['H.' + f] for f in FIELDS}


def clock(run):
    return run.ghost.get('c20.clock', z3.IntVal(-1))


def set_clock(run, i):
    run.ghost['c20.clock'] = i


# ------------------------------------------------------------------------------------------ array-lists of values
class Kind:
    def __init__(self, name, sort, wrap, unwrap):
        self.name, self.sort, self.wrap, self.unwrap = name, sort, wrap, unwrap


def _unwrap_term(cls):
    def f(it, v):
        if isinstance(v, cls):
            return v.term
        raise Unsupported('list element %r is not a %s' % (v, cls.__name__))
    return f


def _unwrap_dict(di):
    def f(it, v):
        if isinstance(v, DictV) and v.di is di:
            return v.term
        raise Unsupported('list element %r is not a %s' % (v, di.name))
    return f


K_TRIAL = Kind('trial', TRef, TrialV, _unwrap_term(TrialV))
K_MI = Kind('metricinfo', MIRef, MetricInfoV, _unwrap_term(MetricInfoV))
K_PD = Kind('paramdict', PD, lambda t: DictV(PDI, t), _unwrap_dict(PDI))
K_MD = Kind('metricdict', MD, lambda t: DictV(MDI, t), _unwrap_dict(MDI))
K_RAW = Kind('rawvalue', PVal, RawV, _unwrap_term(RawV))
K_STR = Kind('str', Str, lambda t: t, lambda it, v: pm._lift(v, Str))
K_FLOAT = Kind('float', xreal.XReal, lambda t: t, lambda it, v: xreal.lift(v))
AbsS = z3.DeclareSort('AbsVal')
K_ABS = Kind('abstract', AbsS, lambda t: Abs('elem'), lambda it, v: it.run.fresh('abselem', AbsS))


def kind_of_value(v):
    if isinstance(v, TrialV):
        return K_TRIAL
    if isinstance(v, MetricInfoV):
        return K_MI
    if isinstance(v, DictV):
        return K_PD if v.di is PDI else K_MD
    if isinstance(v, RawV):
        return K_RAW
    if isinstance(v, str) or (z3.is_expr(v) and v.sort() == Str):
        return K_STR
    if isinstance(v, float) or xreal.is_x(v):
        return K_FLOAT
    if isinstance(v, Abs):
        return K_ABS
    return None


class VList(SymList):
    """array-list of python-side values of one Kind.  `pos` (optional): z3 array elem -> index, inverse of `arr`
    on [0, n) -- present when the elements are known to be pairwise distinct."""

    def __init__(self, n, arr, kind, pos=None):
        SymList.__init__(self, n, arr, kind.name if kind is not None else None)
        self.kind, self.pos = kind, pos

    def elem_sort(self):
        return self.kind.sort

    def wrap(self, term):
        return self.kind.wrap(term)

    def get(self, i):
        return self.kind.wrap(z3.Select(self.arr, i))

    def ensure(self, it, kind):
        """type a list that was havocked while still empty (element kind unknown until now)."""
        if self.kind is None:
            self.kind, self.elem = kind, kind.name
            self.arr = it.run.fresh(getattr(self, 'vname', 'lst') + '_a', z3.ArraySort(z3.IntSort(), kind.sort))
        return self

    def member(self, r):
        if self.pos is None:
            raise Unsupported('membership in a batch whose elements are not known to be distinct')
        return z3.And(self.pos[r] >= 0, self.pos[r] < self.n, self.arr[self.pos[r]] == r)


def new_vlist(it, kind, items=()):
    r = VList(z3.IntVal(0), z3.K(z3.IntSort(), z3.Const('dflt_' + kind.name, kind.sort)), kind)
    for x in items:
        vlist_append(it, r, x)
    return r


def vlist_append(it, lst, v):
    if lst.kind is None:
        k = kind_of_value(v)
        if k is None:
            raise Unsupported('append of %r to an untyped symbolic list' % (v,))
        lst.ensure(it, k)
    lst.arr = z3.Store(lst.arr, lst.n, lst.kind.unwrap(it, v))
    lst.n = lst.n + 1
    lst.pos = None
    lst.touch()


class ZipList(SymList):
    def __init__(self, parts):
        n = parts[0].n
        for p in parts[1:]:
            n = z3.If(p.n < n, p.n, n)
        SymList.__init__(self, z3.simplify(n) if z3.is_expr(n) else n, parts[0].arr, 'zip')
        self.parts = parts

    def get(self, i):
        return tuple(p.get(i) for p in self.parts)


class EnumList(SymList):
    def __init__(self, xs, start=0):
        SymList.__init__(self, xs.n, xs.arr, 'enumerate')
        self.xs, self.start = xs, start

    def get(self, i):
        return (i + self.start if not (isinstance(self.start, int) and self.start == 0) else i, self.xs.get(i))


class ItemsList(SymList):
    """d.items() / d.keys() / d.values() of a dict value."""

    def __init__(self, dv, what):
        SymList.__init__(self, dv.di.n(dv.term), dv.di.keys(dv.term), 'str')
        self.dv, self.what = dv, what

    def get(self, i):
        di, t = self.dv.di, self.dv.term
        k = z3.Select(di.keys(t), i)
        if self.what == 'keys':
            return k
        v = di.vwrap(z3.Select(di.val(t), k))
        return v if self.what == 'values' else (k, v)


def assume_wf(run, dv):
    key = ('wf', dv.term.get_id())
    if key in run.instantiated:
        return
    run.instantiated.add(key)
    qf, quant = dv.di.wf(dv.term)
    run.assume(qf)
    for q in quant:
        run.axiom(q)


# ------------------------------------------------------------------------------------------ dict under construction
class SMap:
    """mutable dict with symbolic Str keys built inside a symbolic loop: dom / val / src (write provenance)."""

    def __init__(self, name, di=None, dom=None, val=None, src=None):
        self.name, self.di, self.dom, self.val, self.src = name, di, dom, val, src

    def ensure(self, it, di):
        if self.di is None:
            run = it.run
            self.di = di
            self.dom = run.fresh(self.name + '_dom', z3.ArraySort(Str, z3.BoolSort()))
            self.val = run.fresh(self.name + '_val', z3.ArraySort(Str, di.vsort))
            self.src = run.fresh(self.name + '_src', z3.ArraySort(Str, z3.IntSort()))
        elif self.di is not di:
            raise Unsupported('dict %s used with two value kinds' % self.name)
        return self

    def set(self, it, k, v):
        if self.di is None:
            self.ensure(it, MDI if isinstance(v, MetricV) or isinstance(v, float) or xreal.is_x(v) else PDI)
        kt = pm._lift(k, Str)
        self.dom = z3.Store(self.dom, kt, z3.BoolVal(True))
        self.val = z3.Store(self.val, kt, self.di.vunwrap(it, v))
        self.src = z3.Store(self.src, kt, clock(it.run))

    def copy(self):
        return SMap(self.name, self.di, self.dom, self.val, self.src)


def empty_smap(di, name='d'):
    return SMap(name, di, z3.K(Str, z3.BoolVal(False)), z3.K(Str, z3.Const('dflt_' + di.name, di.vsort)), z3.K(Str, z3.IntVal(-1)))


def view(it, v, di):
    """(dom, val, src) arrays of a dict-like value v (PyDict | SMap | DictV) with value kind di."""
    if isinstance(v, SMap):
        v.ensure(it, di)
        return v.dom, v.val, v.src
    if isinstance(v, M.PyDict):
        m = empty_smap(di)
        for k, x in v.items():
            m.set(it, k, x)
        return m.dom, m.val, m.src
    if isinstance(v, DictV) and v.di is di:
        return di.dom(v.term), di.val(v.term), z3.K(Str, z3.IntVal(-1))
    raise Unsupported('cannot view %r as a %s' % (v, di.name))


def to_dictv(it, v, di):
    """dict-like value -> immutable dict value (what ParameterDict(x) / _MetricDict(**x) construct)."""
    run = it.run
    if isinstance(v, DictV):
        if v.di is not di:
            raise Unsupported('%s given where %s expected' % (v.di.name, di.name))
        return v
    if isinstance(v, M.PyDict) and not v.items_:
        return DictV(di, di.empty())
    if isinstance(v, (SMap, M.PyDict)):
        dom, val, _ = view(it, v, di)
        t = di.mk(dom, val, run.fresh('dn', z3.IntSort()), run.fresh('dkeys', z3.ArraySort(z3.IntSort(), Str)),
                  run.fresh('didx', z3.ArraySort(Str, z3.IntSort())))
        return DictV(di, t)
    if isinstance(v, Abs):
        return DictV(di, run.fresh('absdict', di.sort))
    raise Unsupported('cannot convert %r to a %s' % (v, di.name))
