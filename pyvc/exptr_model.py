"""pyvc.exptr_model -- models for the C20 check (benchmark experimenters), DESIGN 5 "C20".

Nothing here is a copy of repository code.  It provides, for the pyvc engine:

  * a *heap of trials*: trial objects are references (sort TrialRef); their mutable fields live in z3 arrays kept in
    `run.ghost['H.<field>']` (parameters, final_measurement present?, its metrics, its other fields, infeasible?),
    so that loops over batches of *any* size are handled by the invariant rule (the engine havocs the ghost heap at the
    loop head).  MetricInformation objects of a problem statement are references as well (goal / name are mutable).
  * dict *values* (ParameterDict, the metrics dict of a Measurement): a z3 datatype (dom, val, n, keys, idx); `keys` is the
    iteration order, `idx` its inverse (well-formedness = language semantics of dict iteration, instantiated on demand)
  * `SMap`: a dict under construction inside a symbolic loop (dom/val/src arrays, src = write provenance)
  * `VList` / `ZipList` / `EnumList` / `ItemsList`: array-lists of the above values, zip()/enumerate()/.items() over them
  * `Abs`: an opaque python value (search spaces, numpy arrays, converters' inputs): every operation yields another opaque
    value, every test on it forks on a fresh Bool -- used to execute the real `__init__` of the wrappers
  * models of the pyvizier data classes used by the experimenters (Trial.complete, Measurement, Metric, ParameterDict,
    ParameterValue, ObjectiveMetricGoal) -- trusted library semantics, cross-checked by replay/c20_replay.py
  * `BaseContract`: the wrapped experimenter as an object of the opaque class 'BaseExperimenter' whose `evaluate`
    / `problem_statement` are *contracts* (assumed), see `base_evaluate`.

Importing the module registers everything through the hooks of pyvc.models (previous hooks are kept and chained).
"""
import ast

import z3

from . import engine as E
from . import models as M
from . import protomodel as pm
from . import xreal
from .engine import Obj, Builtin, Unsupported, PyRaise, BuiltinClass, ExcObj
from .protomodel import SymList, Str

TRM = 'vizier._src.pyvizier.shared.trial'
BSC = 'vizier._src.pyvizier.shared.base_study_config'
PCM = 'vizier._src.pyvizier.shared.parameter_config'
CNV = 'vizier.pyvizier.converters.core'

TRUST = [
    'pyvizier data classes as modelled in pyvc/exptr_model.py: Trial.parameters is converted with ParameterDict(...) on every '
    'assignment (a value copy), Trial.complete(m, infeasibility_reason=r) stores a deep copy of m as final_measurement and sets the '
    'infeasibility reason iff r is not None, Measurement.metrics is converted with _MetricDict(**d) on assignment (floats wrapped into '
    'Metric(value=float(x))), Metric(value=x, std=None), ParameterValue(v).value == v, ObjectiveMetricGoal is an IntEnum',
    'dict iteration enumerates every key exactly once (keys/idx well-formedness of dict values)',
    'copy.deepcopy returns a structure of fresh objects with equal field values',
    'TrialToArrayConverter.to_features(trials)[i] depends only on trials[i].parameters; to_features / to_parameters do not modify the trials',
]

# ------------------------------------------------------------------------------------------ sorts
TRef = z3.DeclareSort('TrialRef')
MIRef = z3.DeclareSort('MetricInfoRef')
PDRef = z3.DeclareSort('ParamDictRef')   # identity of a ParameterDict object (trials, saved references and copies may alias)
PVal = z3.DeclareSort('PVal')          # raw parameter value (str | int | float | bool): equality only
MRest = z3.DeclareSort('MeasRest')     # elapsed_secs, steps, checkpoint_path of a Measurement
MIRest = z3.DeclareSort('MetricInfoRest')
Feat = z3.DeclareSort('Feat')          # numpy feature arrays (opaque)
Conv = z3.DeclareSort('Conv')          # TrialToArrayConverter instances (opaque)

MetricS = z3.Datatype('MetricVal')
MetricS.declare('mk', ('value', xreal.XReal), ('has_std', z3.BoolSort()), ('std', xreal.XReal))
MetricS = MetricS.create()


class DictInfo:
    """z3 datatype of a dict value Str -> V with its iteration order."""

    def __init__(self, name, vsort, vwrap, vunwrap):
        dt = z3.Datatype(name)
        dt.declare('mk', ('dom', z3.ArraySort(Str, z3.BoolSort())), ('val', z3.ArraySort(Str, vsort)), ('n', z3.IntSort()),
                   ('keys', z3.ArraySort(z3.IntSort(), Str)), ('idx', z3.ArraySort(Str, z3.IntSort())))
        self.sort = dt.create()
        self.name, self.vsort, self.vwrap, self.vunwrap = name, vsort, vwrap, vunwrap
        self.mk, self.dom, self.val, self.n, self.keys, self.idx = (self.sort.mk, self.sort.dom, self.sort.val, self.sort.n,
                                                                   self.sort.keys, self.sort.idx)

    def wf(self, t):
        """well-formedness of the iteration order: (quantifier-free part, [quantified parts])."""
        j, s = z3.Int('j!wf'), z3.Const('s!wf', Str)
        n, keys, idx, dom = self.n(t), self.keys(t), self.idx(t), self.dom(t)
        return (n >= 0,
                [z3.ForAll([j], z3.Implies(z3.And(j >= 0, j < n), z3.And(dom[keys[j]], idx[keys[j]] == j))),
                 z3.ForAll([s], z3.Implies(dom[s], z3.And(idx[s] >= 0, idx[s] < n, keys[idx[s]] == s)))])

    def empty(self):
        return self.mk(z3.K(Str, z3.BoolVal(False)), z3.K(Str, z3.Const('dflt_' + self.name, self.vsort)), z3.IntVal(0),
                       z3.K(z3.IntSort(), pm.str_lit('')), z3.K(Str, z3.IntVal(-1)))


# ------------------------------------------------------------------------------------------ python-side values
class MetricV:
    def __init__(self, term):
        self.term = term


class PValV:
    """a ParameterValue (immutable wrapper of a raw value)."""

    def __init__(self, term):
        self.term = term


class RawV:
    """a raw parameter value (what ParameterValue.value / as_float return)."""

    def __init__(self, term):
        self.term = term

    def __eq__(self, other):
        if isinstance(other, RawV):
            return self.term == other.term
        return NotImplemented

    __hash__ = object.__hash__


class OptStdV:
    """Metric.std: Optional[float] as (present?, value) -- passing it on to Metric(std=...) keeps both (no case split)."""

    def __init__(self, has, term):
        self.has, self.term = has, term


class GoalV:
    """an ObjectiveMetricGoal member (IntEnum): term of sort Int."""

    def __init__(self, term):
        self.term = term

    def __eq__(self, other):
        if isinstance(other, GoalV):
            return self.term == other.term
        return NotImplemented

    __hash__ = object.__hash__


def _unwrap_metric(it, v):
    if isinstance(v, MetricV):
        return v.term
    if isinstance(v, (int, float)) and not isinstance(v, bool) or xreal.is_x(v):
        # _MetricDict.__setitem__ / the Measurement.metrics converter wrap raw numbers into Metric(value=float(x))
        return MetricS.mk(xreal.lift(v), z3.BoolVal(False), xreal.lit(0.0))
    if isinstance(v, Abs):
        return MetricS.mk(it.run.fresh('absmetric', xreal.XReal), z3.BoolVal(False), xreal.lit(0.0))
    raise Unsupported('value %r stored as a metric' % (v,))


def _unwrap_pval(it, v):
    if isinstance(v, (PValV, RawV)):
        return v.term
    if isinstance(v, Abs):
        return it.run.fresh('abspval', PVal)
    raise Unsupported('value %r stored as a parameter value' % (v,))


MDI = DictInfo('MetricDict', MetricS, lambda t: MetricV(t), _unwrap_metric)
PDI = DictInfo('ParamDict', PVal, lambda t: PValV(t), _unwrap_pval)
PD, MD = PDI.sort, MDI.sort


class DictV:
    """immutable dict value (ParameterDict / metrics dict)."""

    def __init__(self, di, term):
        self.di, self.term = di, term


class PDictV:
    """a ParameterDict OBJECT (reference): reads see its current content, item assignment mutates it in place -- every alias
    (the owning trial, saved references in locals / lists) sees the change."""

    def __init__(self, ref):
        self.term = ref


class TrialV:
    def __init__(self, ref):
        self.term = ref


class MeasV:
    """the final_measurement object of a trial (a view into the heap)."""

    def __init__(self, ref):
        self.ref = ref


class MeasNew:
    """a Measurement constructed by the code under contract (not yet attached to a trial)."""

    def __init__(self, metrics, rest):
        self.metrics, self.rest = metrics, rest       # metrics: SMap | PyDict | DictV


class MetricInfoV:
    def __init__(self, ref):
        self.term = ref


# ------------------------------------------------------------------------------------------ heap
FIELDS = {
    # a trial's `parameters` is an OBJECT (pobj) whose current content is pval[object]; 'params' is the derived view pval[pobj[trial]]
    'pobj': (TRef, PDRef), 'pval': (PDRef, PD), 'palloc': (PDRef, z3.BoolSort()),
    'fmset': (TRef, z3.BoolSort()), 'metrics': (TRef, MD), 'rest': (TRef, MRest),
    'infeas': (TRef, z3.BoolSort()), 'talloc': (TRef, z3.BoolSort()),
    'goal': (MIRef, z3.IntSort()), 'miname': (MIRef, Str), 'mirest': (MIRef, MIRest), 'mialloc': (MIRef, z3.BoolSort()),
}
TRIAL_FIELDS = ('params', 'fmset', 'metrics', 'rest', 'infeas')
ALL = tuple('H.' + f for f in FIELDS)


def init_heap(run):
    for f, (ks, vs) in FIELDS.items():
        run.ghost['H.' + f] = z3.Const('H0_' + f, z3.ArraySort(ks, vs))
    run.ghost['c20.clock'] = z3.IntVal(-1)


class HeapArr:
    """read access to one heap field: `H(run, f)[r]`.  Reads through a chain of stores are resolved syntactically when the
    indices are references known to be pairwise distinct (concrete-spine runs) -- the result is the same z3 value, only simpler."""

    def __init__(self, run, arr):
        self.run, self.arr = run, arr

    def __getitem__(self, r):
        a = self.arr
        known = getattr(self.run, 'distinct_refs', None)
        while known is not None and z3.is_app(a) and a.decl().kind() == z3.Z3_OP_STORE:
            idx = a.arg(1)
            if idx.eq(r):
                return a.arg(2)
            if idx.get_id() in known and r.get_id() in known:
                a = a.arg(0)
                continue
            break
        return z3.Select(a, r)


def H(run, f):
    if f == 'params':
        return ParamsView(run.ghost['H.pobj'], run.ghost['H.pval'], run)
    return HeapArr(run, run.ghost['H.' + f])


def HA(run, f):
    """the raw z3 array of a heap field (for 'params': the derived view)."""
    if f == 'params':
        return ParamsView(run.ghost['H.pobj'], run.ghost['H.pval'])
    return run.ghost['H.' + f]


def know_distinct(run, *refs):
    """register references that are pairwise distinct from each other and from all registered ones (already assumed in the path
    condition: allocated vs. fresh) so that heap reads resolve syntactically."""
    if getattr(run, 'distinct_refs', None) is None:
        run.distinct_refs = set()
    for r in refs:
        run.distinct_refs.add(r.get_id())


def Hset(run, f, ref, v):
    if f == 'params':
        # `trial.parameters = x`: the attrs converter ParameterDict(x) builds a NEW object holding a copy of the content
        o = new_pdict(run, v)
        run.ghost['H.pobj'] = z3.Store(run.ghost['H.pobj'], ref, o)
        return
    run.ghost['H.' + f] = z3.Store(run.ghost['H.' + f], ref, v)


def new_pdict(run, value):
    run.fresh_n += 1
    o = z3.Const('pdict!%d' % run.fresh_n, PDRef)
    run.assume(z3.Not(HeapArr(run, run.ghost['H.palloc'])[o]))
    if getattr(run, 'distinct_refs', None) is not None:
        know_distinct(run, o)
        run.pd_refs = getattr(run, 'pd_refs', []) + [o]
    run.ghost['H.palloc'] = z3.Store(run.ghost['H.palloc'], o, z3.BoolVal(True))
    run.ghost['H.pval'] = z3.Store(run.ghost['H.pval'], o, value)
    return o


class ParamsView:
    """the derived heap field 'params': content of a trial's current ParameterDict object."""

    def __init__(self, pobj, pval, run=None):
        self.pobj, self.pval, self.run = pobj, pval, run

    def __getitem__(self, r):
        if self.run is not None:
            return HeapArr(self.run, self.pval)[HeapArr(self.run, self.pobj)[r]]
        return z3.Select(self.pval, z3.Select(self.pobj, r))


def snap_of(ghost):
    d = {f: ghost['H.' + f] for f in FIELDS}
    d['params'] = ParamsView(d['pobj'], d['pval'])
    return d


def heap_snapshot(run):
    return snap_of(run.ghost)


def clock(run):
    return run.ghost.get('c20.clock', z3.IntVal(-1))


def set_clock(run, i):
    run.ghost['c20.clock'] = i


# ------------------------------------------------------------------------------------------ array-lists of values
class Kind:
    def __init__(self, name, sort, wrap, unwrap):
        self.name, self.sort, self.wrap, self.unwrap = name, sort, wrap, unwrap


def _unwrap_term(cls):
    def f(it, v):
        if isinstance(v, cls):
            return v.term
        raise Unsupported('list element %r is not a %s' % (v, cls.__name__))
    return f


def _unwrap_dict(di):
    def f(it, v):
        if isinstance(v, DictV) and v.di is di:
            return v.term
        raise Unsupported('list element %r is not a %s' % (v, di.name))
    return f


K_TRIAL = Kind('trial', TRef, TrialV, _unwrap_term(TrialV))
K_MI = Kind('metricinfo', MIRef, MetricInfoV, _unwrap_term(MetricInfoV))
K_PD = Kind('paramdict', PD, lambda t: DictV(PDI, t), _unwrap_dict(PDI))
K_PDOBJ = Kind('paramdictobj', PDRef, PDictV, _unwrap_term(PDictV))
K_MD = Kind('metricdict', MD, lambda t: DictV(MDI, t), _unwrap_dict(MDI))
K_RAW = Kind('rawvalue', PVal, RawV, _unwrap_term(RawV))
K_STR = Kind('str', Str, lambda t: t, lambda it, v: pm._lift(v, Str))
K_FLOAT = Kind('float', xreal.XReal, lambda t: t, lambda it, v: xreal.lift(v))
K_INT = Kind('int', z3.IntSort(), lambda t: t, lambda it, v: E.as_int(v) if z3.is_expr(E.as_int(v)) else z3.IntVal(E.as_int(v)))
AbsS = z3.DeclareSort('AbsVal')
K_ABS = Kind('abstract', AbsS, lambda t: Abs('elem'), lambda it, v: it.run.fresh('abselem', AbsS))


def kind_of_value(v):
    if isinstance(v, TrialV):
        return K_TRIAL
    if isinstance(v, MetricInfoV):
        return K_MI
    if isinstance(v, PDictV):
        return K_PDOBJ
    if isinstance(v, DictV):
        return K_PD if v.di is PDI else K_MD
    if isinstance(v, RawV):
        return K_RAW
    if isinstance(v, str) or (z3.is_expr(v) and v.sort() == Str):
        return K_STR
    if isinstance(v, float) or xreal.is_x(v):
        return K_FLOAT
    if isinstance(v, Abs):
        return K_ABS
    return None


class VList(SymList):
    """array-list of python-side values of one Kind.  `pos` (optional): z3 array elem -> index, inverse of `arr`
    on [0, n) -- present when the elements are known to be pairwise distinct."""

    def __init__(self, n, arr, kind, pos=None):
        SymList.__init__(self, n, arr, kind.name if kind is not None else None)
        self.kind, self.pos = kind, pos

    def elem_sort(self):
        return self.kind.sort

    def wrap(self, term):
        return self.kind.wrap(term)

    def get(self, i):
        conc = getattr(self, 'conc', None)
        if conc is not None and z3.is_int_value(i) and 0 <= i.as_long() < len(conc):
            return conc[i.as_long()]
        return self.kind.wrap(z3.simplify(z3.Select(self.arr, i)))

    def ensure(self, it, kind):
        """type a list that was havocked while still empty (element kind unknown until now)."""
        if self.kind is None:
            self.kind, self.elem = kind, kind.name
            self.arr = it.run.fresh(getattr(self, 'vname', 'lst') + '_a', z3.ArraySort(z3.IntSort(), kind.sort))
        return self

    def member(self, r):
        if self.pos is None:
            raise Unsupported('membership in a batch whose elements are not known to be distinct')
        return z3.And(self.pos[r] >= 0, self.pos[r] < self.n, self.arr[self.pos[r]] == r)


def new_vlist(it, kind, items=()):
    r = VList(z3.IntVal(0), z3.K(z3.IntSort(), z3.Const('dflt_' + kind.name, kind.sort)), kind)
    for x in items:
        vlist_append(it, r, x)
    return r


def vlist_append(it, lst, v):
    if lst.kind is None:
        k = kind_of_value(v)
        if k is None:
            k = K_ABS        # a list of values the model does not track
        lst.ensure(it, k)
    lst.arr = z3.Store(lst.arr, lst.n, lst.kind.unwrap(it, v) if lst.kind is not K_ABS else it.run.fresh('abselem', AbsS))
    lst.n = lst.n + 1
    lst.pos = None
    lst.touch()


class ZipList(SymList):
    def __init__(self, parts):
        n = parts[0].n
        for p in parts[1:]:
            n = z3.If(p.n < n, p.n, n)
        SymList.__init__(self, z3.simplify(n) if z3.is_expr(n) else n, parts[0].arr, 'zip')
        self.parts = parts

    def get(self, i):
        return tuple(p.get(i) for p in self.parts)


class EnumList(SymList):
    def __init__(self, xs, start=0):
        SymList.__init__(self, xs.n, xs.arr, 'enumerate')
        self.xs, self.start = xs, start

    def get(self, i):
        return (i + self.start if not (isinstance(self.start, int) and self.start == 0) else i, self.xs.get(i))


class ItemsList(SymList):
    """d.items() / d.keys() / d.values() of a dict value."""

    def __init__(self, dv, what):
        SymList.__init__(self, dv.di.n(dv.term), dv.di.keys(dv.term), 'str')
        self.dv, self.what = dv, what

    def get(self, i):
        di, t = self.dv.di, self.dv.term
        k = z3.Select(di.keys(t), i)
        if self.what == 'keys':
            return k
        v = di.vwrap(z3.Select(di.val(t), k))
        return v if self.what == 'values' else (k, v)


def assume_wf(run, dv):
    key = ('wf', dv.term.get_id())
    if key in run.instantiated:
        return
    run.instantiated.add(key)
    qf, quant = dv.di.wf(dv.term)
    run.assume(qf)
    for q in quant:
        run.axiom(q)


# ------------------------------------------------------------------------------------------ dict under construction
class SMap:
    """mutable dict with symbolic Str keys built inside a symbolic loop: dom / val / src (write provenance)."""

    def __init__(self, name, di=None, dom=None, val=None, src=None):
        self.name, self.di, self.dom, self.val, self.src = name, di, dom, val, src

    def ensure(self, it, di):
        if self.di is None:
            run = it.run
            self.di = di
            self.dom = run.fresh(self.name + '_dom', z3.ArraySort(Str, z3.BoolSort()))
            self.val = run.fresh(self.name + '_val', z3.ArraySort(Str, di.vsort))
            self.src = run.fresh(self.name + '_src', z3.ArraySort(Str, z3.IntSort()))
        elif self.di is not di:
            raise Unsupported('dict %s used with two value kinds' % self.name)
        return self

    def set(self, it, k, v):
        if self.di is None:
            self.ensure(it, MDI if isinstance(v, MetricV) or isinstance(v, float) or xreal.is_x(v) else PDI)
        kt = pm._lift(k, Str)
        self.dom = z3.Store(self.dom, kt, z3.BoolVal(True))
        self.val = z3.Store(self.val, kt, self.di.vunwrap(it, v))
        self.src = z3.Store(self.src, kt, clock(it.run))

    def copy(self):
        return SMap(self.name, self.di, self.dom, self.val, self.src)


def empty_smap(di, name='d'):
    return SMap(name, di, z3.K(Str, z3.BoolVal(False)), z3.K(Str, z3.Const('dflt_' + di.name, di.vsort)), z3.K(Str, z3.IntVal(-1)))


def view(it, v, di):
    """(dom, val, src) arrays of a dict-like value v (PyDict | SMap | DictV) with value kind di."""
    if isinstance(v, SMap):
        v.ensure(it, di)
        return v.dom, v.val, v.src
    if isinstance(v, M.PyDict):
        m = empty_smap(di)
        for k, x in v.items():
            m.set(it, k, x)
        return m.dom, m.val, m.src
    if isinstance(v, DictV) and v.di is di:
        return di.dom(v.term), di.val(v.term), z3.K(Str, z3.IntVal(-1))
    raise Unsupported('cannot view %r as a %s' % (v, di.name))


def to_dictv(it, v, di):
    """dict-like value -> immutable dict value (what ParameterDict(x) / _MetricDict(**x) construct)."""
    run = it.run
    if isinstance(v, PDictV):
        v = pd_content(it, v)
    if isinstance(v, DictV):
        if v.di is not di:
            raise Unsupported('%s given where %s expected' % (v.di.name, di.name))
        return v
    if isinstance(v, M.PyDict) and not v.items_:
        return DictV(di, di.empty())
    if isinstance(v, (SMap, M.PyDict)):
        dom, val, _ = view(it, v, di)
        t = di.mk(dom, val, run.fresh('dn', z3.IntSort()), run.fresh('dkeys', z3.ArraySort(z3.IntSort(), Str)),
                  run.fresh('didx', z3.ArraySort(Str, z3.IntSort())))
        return DictV(di, t)
    if isinstance(v, Abs):
        return DictV(di, run.fresh('absdict', di.sort))
    raise Unsupported('cannot convert %r to a %s' % (v, di.name))


# ------------------------------------------------------------------------------------------ opaque values
class Abs:
    """opaque python value: attributes / calls / arithmetic give opaque values, tests fork on a fresh Bool."""

    def __init__(self, what='value'):
        self.what = what

    def __repr__(self):
        return '<abs %s>' % self.what

    def __neg__(self):
        return Abs('neg')


class FeatV:
    """numpy array of features (opaque term of sort Feat)."""

    def __init__(self, term):
        self.term = term


class FeatMat:
    """converter.to_features(batch): row j is a function of the parameters of trial j only (assumed contract)."""

    def __init__(self, conv, xs, params):
        self.conv, self.xs, self.params = conv, M.snapshot(xs), params


class ConverterV:
    def __init__(self, term, kw):
        self.term, self.kw = term, kw


class FnV:
    """opaque deterministic python callable float-valued (NumpyExperimenter.impl, noise functions)."""

    def __init__(self, fn, nondet=False):
        self.fn, self.nondet = fn, nondet


featmat1 = z3.Function('to_features_1', Conv, PD, Feat)        # to_features([t]) : the (1, d) matrix
featrow = z3.Function('to_features_row', Conv, PD, Feat)      # to_features(ts)[i]
topar0 = z3.Function('to_parameters_0', Conv, Feat, PD)       # to_parameters(m)[0] for a (1, d) matrix
toparrow = z3.Function('to_parameters_row', Conv, Feat, PD)   # to_parameters(m)[i] as a function of row i
feat_item = z3.Function('ndarray_item', Feat, xreal.XReal)
np_sub = z3.Function('np_sub', Feat, Feat, Feat)
np_add = z3.Function('np_add', Feat, Feat, Feat)
np_other = z3.Function('np_binop', z3.IntSort(), Feat, Feat, Feat)
pv_as_float = z3.Function('ParameterValue_as_float', PVal, PVal)
pv_other = z3.Function('ParameterValue_cast', z3.IntSort(), PVal, PVal)
str_startswith = z3.Function('str_startswith', Str, Str, z3.BoolSort())
str_concat = z3.Function('str_concat', Str, Str, Str)
str_method = z3.Function('str_method', Str, Str, Str)
_CASTS = {'as_int': 1, 'as_str': 2, 'as_bool': 3}


def fresh_bool(it, what):
    return it.run.fresh('abs_' + what, z3.BoolSort())


def abs_list(it, what='items'):
    run = it.run
    n = run.fresh('abs_n', z3.IntSort())
    run.assume(n >= 0)
    return VList(n, run.fresh('abs_a', z3.ArraySort(z3.IntSort(), AbsS)), K_ABS)


def _feat_term(it, v):
    if isinstance(v, FeatV):
        return v.term
    return it.run.fresh('absfeat', Feat)


# ------------------------------------------------------------------------------------------ hook plumbing
def _chain(name, fn):
    prev = getattr(M, name)

    def hook(*a):
        r = fn(*a)
        if r is not M.MISSING:
            return r
        return prev(*a)
    setattr(M, name, hook)


def _bi(name, fn):
    return Builtin(name, fn)


def pd_content(it, v):
    """current content (a dict value) of a ParameterDict object."""
    return DictV(PDI, H(it.run, 'pval')[v.term])


def pd_store(it, v, k, x):
    """`d[k] = x` on a ParameterDict object: in-place update of its content (seen through every alias)."""
    run = it.run
    if isinstance(k, Abs):
        Hset(run, 'pval', v.term, run.fresh('pdcontent', PD))          # a write under an unknown key
        return
    cur = H(run, 'pval')[v.term]
    kt = pm._lift(k, Str)
    xt = _unwrap_pval(it, x)
    dom, val = z3.Store(PDI.dom(cur), kt, z3.BoolVal(True)), z3.Store(PDI.val(cur), kt, xt)
    if it.truth(PDI.dom(cur)[kt]):
        new = PDI.mk(PDI.dom(cur), val, PDI.n(cur), PDI.keys(cur), PDI.idx(cur))       # existing key: order unchanged
    else:
        new = PDI.mk(dom, val, PDI.n(cur) + 1, z3.Store(PDI.keys(cur), PDI.n(cur), kt), z3.Store(PDI.idx(cur), kt, PDI.n(cur)))
    Hset(run, 'pval', v.term, z3.simplify(new))


def _dict_methods(it, dv, a):
    di = dv.di
    if a in ('items', 'keys', 'values'):
        def mk(it_, args, kw, a=a):
            assume_wf(it_.run, dv)
            return ItemsList(dv, a)
        return _bi(a, mk)
    if a == 'get':
        def get(it_, args, kw):
            k = pm._lift(args[0], Str)
            if it_.truth(di.dom(dv.term)[k]):
                return di.vwrap(di.val(dv.term)[k])
            return args[1] if len(args) > 1 else None
        return _bi('get', get)
    if a == 'get_value' and di is PDI:
        def get_value(it_, args, kw):
            k = pm._lift(args[0], Str)
            if it_.truth(di.dom(dv.term)[k]):
                return RawV(di.val(dv.term)[k])
            return args[1] if len(args) > 1 else None
        return _bi('get_value', get_value)
    if a == 'as_dict' and di is PDI:
        return _bi('as_dict', lambda it_, args, kw: Abs('as_dict'))
    raise Unsupported('method %s of a %s value' % (a, di.name))


def _value_getattr(it, v, a):
    run = it.run
    if isinstance(v, Abs):
        return Abs(v.what + '.' + a)
    if isinstance(v, TrialV):
        r = v.term
        if a == 'parameters':
            return PDictV(H(run, 'pobj')[r])
        if a == 'final_measurement':
            if it.pure:
                raise Unsupported('Trial.final_measurement in a pure expression')
            return MeasV(r) if it.truth(H(run, 'fmset')[r]) else None
        if a == 'infeasible':
            return H(run, 'infeas')[r]
        if a == 'infeasibility_reason':
            return Abs('reason') if it.truth(H(run, 'infeas')[r]) else None
        if a == 'complete':
            return _bi('Trial.complete', lambda it_, args, kw: trial_complete(it_, v, args, kw))
        if a == 'is_completed':
            return z3.Or(H(run, 'fmset')[r], H(run, 'infeas')[r])
        if a == 'final_measurement_or_die':
            if not it.truth(H(run, 'fmset')[r]):
                raise PyRaise(it.make_exc('ValueError', ['Trial is missing final_measurement']))
            return MeasV(r)
        if a in ('id', 'metadata', 'description', 'creation_time', 'completion_time', 'duration', 'measurements'):
            return Abs('trial.' + a)
        raise Unsupported('Trial.%s is outside the trial model' % a)
    if isinstance(v, MeasV):
        if a == 'metrics':
            return DictV(MDI, H(run, 'metrics')[v.ref])
        if a in ('elapsed_secs', 'steps', 'checkpoint_path'):
            return Abs('measurement.' + a)
        raise Unsupported('Measurement.%s' % a)
    if isinstance(v, MeasNew):
        if a == 'metrics':
            return v.metrics
        raise Unsupported('Measurement.%s' % a)
    if isinstance(v, MetricV):
        if a == 'value':
            return MetricS.value(v.term)
        if a == 'std':
            return OptStdV(MetricS.has_std(v.term), MetricS.std(v.term))
        raise Unsupported('Metric.%s' % a)
    if isinstance(v, PValV):
        if a == 'value':
            return RawV(v.term)
        if a == 'as_float':
            return RawV(pv_as_float(v.term))
        if a in _CASTS:
            return RawV(pv_other(_CASTS[a], v.term))
        raise Unsupported('ParameterValue.%s' % a)
    if isinstance(v, GoalV):
        if a in ('is_maximize', 'is_minimize'):
            cls = E.ModuleInfo.get(BSC).classes['ObjectiveMetricGoal']
            return it.invoke(E.FuncVal(cls.mod, cls.methods[a], cls), [v], {})
        if a in ('MAXIMIZE', 'MINIMIZE'):
            return goal_member(it, a)
        if a == 'value':
            return v.term
        raise Unsupported('ObjectiveMetricGoal.%s' % a)
    if isinstance(v, MetricInfoV):
        if a == 'goal':
            return GoalV(H(run, 'goal')[v.term])
        if a == 'name':
            return H(run, 'miname')[v.term]
        return Abs('metric_information.' + a)
    if isinstance(v, PDictV):
        return _dict_methods(it, pd_content(it, v), a)
    if isinstance(v, DictV):
        return _dict_methods(it, v, a)
    if isinstance(v, SMap):
        if a == 'items' or a == 'keys' or a == 'values':
            raise Unsupported('iteration over a dict that is being built in a symbolic loop')
        raise Unsupported('method %s of a dict under construction' % a)
    if isinstance(v, VList):
        if a == 'append':
            return _bi('append', lambda it_, args, kw: vlist_append(it_, v, args[0]))
        return M.MISSING
    if isinstance(v, ConverterV):
        if a == 'to_features':
            return _bi('to_features', lambda it_, args, kw: conv_to_features(it_, v, args[0]))
        if a == 'to_parameters':
            return _bi('to_parameters', lambda it_, args, kw: conv_to_parameters(it_, v, args[0]))
        return Abs('converter.' + a)
    if isinstance(v, FeatV):
        if a == 'item':
            return _bi('item', lambda it_, args, kw: feat_item(v.term))
        return Abs('ndarray.' + a)
    if z3.is_expr(v) and v.sort() == Str and a in ('upper', 'lower', 'strip'):
        return _bi(a, lambda it_, args, kw, a=a: str_method(pm.str_lit(a), v))
    if z3.is_expr(v) and v.sort() == Str and a == 'startswith':
        return _bi('startswith', lambda it_, args, kw: str_startswith(v, pm._lift(args[0], Str)))
    if isinstance(v, str) and a == 'startswith':
        return _bi('startswith', lambda it_, args, kw: (v.startswith(args[0]) if isinstance(args[0], str)
                                                        else str_startswith(pm.str_lit(v), args[0])))
    return M.MISSING


_chain('value_getattr_hook', _value_getattr)

_prev_value_getattr = M.value_getattr


def _value_getattr_first(it, v, a):
    # VList is a SymList: models.value_getattr would use its own append (scalar element kinds only)
    if isinstance(v, VList) and a == 'append':
        return _bi('append', lambda it_, args, kw: vlist_append(it_, v, args[0]))
    if isinstance(v, VList) and a == 'tolist':
        def tolist(it_, args, kw):
            r = VList(v.n, v.arr, v.kind, v.pos)
            for at in ('source', 'sigma', 'tau'):
                if hasattr(v, at):
                    setattr(r, at, getattr(v, at))
            r.python_scalars = True          # ndarray.tolist() converts numpy scalars to python scalars (same values, same order)
            if hasattr(v, 'source'):
                it_.run.permutations = getattr(it_.run, 'permutations', []) + [r]
            return r
        return _bi('tolist', tolist)
    return _prev_value_getattr(it, v, a)


M.value_getattr = _value_getattr_first

_prev_setattr = E.Interp.setattr


def _setattr(self, o, a, v):
    run = self.run
    if isinstance(o, TrialV):
        r = o.term
        if a == 'parameters':
            Hset(run, 'params', r, to_dictv(self, v, PDI).term)      # attrs converter: ParameterDict(v), a value copy
            return
        if a == 'final_measurement':
            if v is None:
                Hset(run, 'fmset', r, z3.BoolVal(False))
                return
            md, rest = measurement_value(self, v)
            Hset(run, 'fmset', r, z3.BoolVal(True))
            Hset(run, 'metrics', r, md)
            Hset(run, 'rest', r, rest)
            return
        raise Unsupported('assignment to Trial.%s is outside the trial model' % a)
    if isinstance(o, MeasV):
        if a == 'metrics':
            Hset(run, 'metrics', o.ref, to_dictv(self, v, MDI).term)   # converter _MetricDict(**v)
            return
        raise Unsupported('assignment to Measurement.%s' % a)
    if isinstance(o, MeasNew):
        if a == 'metrics':
            o.metrics = v
            return
        raise Unsupported('assignment to Measurement.%s' % a)
    if isinstance(o, MetricInfoV):
        if a == 'goal':
            if not isinstance(v, GoalV):
                raise Unsupported('MetricInformation.goal = %r' % (v,))
            Hset(run, 'goal', o.term, v.term)
            return
        if a == 'name':
            Hset(run, 'miname', o.term, pm._lift(v, Str))
            return
        raise Unsupported('assignment to MetricInformation.%s' % a)
    if isinstance(o, Abs):
        return
    return _prev_setattr(self, o, a, v)


E.Interp.setattr = _setattr


def measurement_value(it, v):
    """(metrics dict term, rest term) of a measurement object."""
    run = it.run
    if isinstance(v, MeasV):
        return H(run, 'metrics')[v.ref], H(run, 'rest')[v.ref]
    if isinstance(v, MeasNew):
        return to_dictv(it, v.metrics, MDI).term, v.rest
    if isinstance(v, Abs):
        return run.fresh('absmetrics', MD), run.fresh('absrest', MRest)
    raise Unsupported('%r used as a Measurement' % (v,))


def trial_complete(it, t, args, kw):
    """Trial.complete(measurement, *, infeasibility_reason=None, inplace=True)."""
    run = it.run
    if kw.get('inplace', True) is not True:
        raise Unsupported('Trial.complete(inplace=False)')
    m = args[0] if args else kw.get('measurement')
    md, rest = measurement_value(it, m)
    r = t.term
    Hset(run, 'fmset', r, z3.BoolVal(True))
    Hset(run, 'metrics', r, md)
    Hset(run, 'rest', r, rest)
    if kw.get('infeasibility_reason') is not None:
        Hset(run, 'infeas', r, z3.BoolVal(True))
    return t


def _subscript(it, base, idx):
    if isinstance(base, Abs):
        return Abs(base.what + '[]')
    if isinstance(base, PDictV):
        if isinstance(idx, Abs):
            return Abs('parameter value')
        base = pd_content(it, base)
    if isinstance(base, DictV):
        di = base.di
        k = pm._lift(idx, Str)
        if not it.truth(di.dom(base.term)[k]):
            raise PyRaise(it.make_exc('KeyError', [idx]))
        return di.vwrap(di.val(base.term)[k])
    if isinstance(base, SMap):
        k = pm._lift(idx, Str)
        if base.di is None or not it.truth(base.dom[k]):
            raise PyRaise(it.make_exc('KeyError', [idx]))
        return base.di.vwrap(base.val[k])
    if isinstance(base, FeatMat):
        pos = M.sym_index(it, base.xs, idx)
        return FeatV(featrow(base.conv.term, base.params[base.xs.arr[pos]]))
    if isinstance(base, FeatV):
        return FeatV(it.run.fresh('featsub', Feat))
    if isinstance(base, ParamsOf):
        if isinstance(idx, int) and idx == 0:
            return DictV(PDI, topar0(base.conv.term, base.feat))
        raise Unsupported('to_parameters(...)[%r]' % (idx,))
    return M.MISSING


def _setitem(it, base, idx, v):
    if isinstance(base, SMap):
        base.set(it, idx, v)
        return True
    if isinstance(base, Abs):
        return True
    if isinstance(base, PDictV):
        pd_store(it, base, idx, v)
        return True
    if isinstance(base, DictV):
        raise Unsupported('in-place item assignment on a %s value' % base.di.name)
    return M.MISSING


def _contains(it, container, x):
    if isinstance(container, Abs) or isinstance(x, Abs):
        return fresh_bool(it, 'in')
    if isinstance(container, PDictV):
        container = pd_content(it, container)
    if isinstance(container, DictV):
        return container.di.dom(container.term)[pm._lift(x, Str)]
    if isinstance(container, SMap):
        if container.di is None:
            raise Unsupported('`in` on an untyped dict under construction')
        return container.dom[pm._lift(x, Str)]
    if isinstance(container, ItemsList) and container.what == 'keys':
        return container.dv.di.dom(container.dv.term)[pm._lift(x, Str)]
    return M.MISSING


def _len(it, v):
    if isinstance(v, Abs):
        n = it.run.fresh('abs_len', z3.IntSort())
        it.run.assume(n >= 0)
        return n
    if isinstance(v, PDictV):
        v = pd_content(it, v)
    if isinstance(v, DictV):
        assume_wf(it.run, v)
        return v.di.n(v.term)
    return M.MISSING


def _iterate(it, v):
    if isinstance(v, (DictV, SMap)):
        raise Unsupported('iteration over a symbolic dict outside a for loop')
    return M.MISSING


_chain('subscript_hook', _subscript)
_chain('setitem_hook', _setitem)
_chain('contains_hook', _contains)
_chain('len_hook', _len)
_chain('iterate_hook', _iterate)

_prev_truth = M.truth_hook


def _truth(it, v):
    if isinstance(v, Abs):
        if it.pure:
            return fresh_bool(it, 'truth')
        return it.run.choose(fresh_bool(it, 'truth'))
    if isinstance(v, (TrialV, MeasV, MeasNew, MetricV, PValV, MetricInfoV, ConverterV, FeatV, FeatMat, FnV, GoalV)):
        return True
    if isinstance(v, PDictV):
        c = pd_content(it, v)
        return PDI.n(c.term) > 0
    if isinstance(v, DictV):
        return v.di.n(v.term) > 0
    if isinstance(v, RawV):
        return fresh_bool(it, 'rawtruth')
    if isinstance(v, OptStdV):
        return z3.And(v.has, xreal.truth(v.term))
    return _prev_truth(it, v)


M.truth_hook = _truth


# ------------------------------------------------------------------------------------------ operators / builtins
_prev_compare = M.compare


def _compare(it, op, l, r):
    if isinstance(op, (ast.Is, ast.IsNot)) and (isinstance(l, OptStdV) and r is None or isinstance(r, OptStdV) and l is None):
        o = l if isinstance(l, OptStdV) else r
        return z3.Not(o.has) if isinstance(op, ast.Is) else o.has
    if isinstance(op, (ast.Is, ast.IsNot, ast.In, ast.NotIn)):
        return _prev_compare(it, op, l, r)
    if isinstance(l, (RawV, PValV)) and isinstance(r, (RawV, PValV)) and isinstance(op, (ast.Eq, ast.NotEq)):
        c = l.term == r.term
        return c if isinstance(op, ast.Eq) else z3.Not(c)
    if isinstance(l, PDictV):
        l = pd_content(it, l)
    if isinstance(r, PDictV):
        r = pd_content(it, r)
    if isinstance(l, DictV) and isinstance(r, DictV) and l.di is r.di and isinstance(op, (ast.Eq, ast.NotEq)):
        s = z3.Const('s!deq', Str)
        di = l.di
        c = z3.ForAll([s], z3.And(di.dom(l.term)[s] == di.dom(r.term)[s],
                                  z3.Implies(di.dom(l.term)[s], di.val(l.term)[s] == di.val(r.term)[s])))
        return c if isinstance(op, ast.Eq) else z3.Not(c)
    if any(isinstance(x, (Abs, RawV, FeatV)) for x in (l, r)):
        return fresh_bool(it, 'cmp')
    if all(isinstance(x, Obj) and x.cls in ('SearchSpace', 'Metadata') for x in (l, r)) and isinstance(op, (ast.Eq, ast.NotEq)):
        c = True if l is r else fresh_bool(it, 'space_eq')      # value equality of opaque contents
        return c if isinstance(op, ast.Eq) else E.znot(c)
    return _prev_compare(it, op, l, r)


M.compare = _compare


def xdiv(a, b):
    """IEEE division on extended reals (finite/finite is mathematical; the sign of zero is not modelled)."""
    X = xreal
    fa, fb = X.is_fin(a), X.is_fin(b)
    return z3.If(z3.Or(X.is_nan(a), X.is_nan(b)), X.nan,
                 z3.If(z3.And(fa, fb),
                       z3.If(X.r(b) != 0, X.fin(X.r(a) / X.r(b)),
                             z3.If(X.r(a) == 0, X.nan, z3.If(X.r(a) > 0, X.pinf, X.ninf))),
                       z3.If(fa, X.fin(z3.RealVal(0)),
                             z3.If(fb, z3.If(X.sign_pos(a) == z3.Not(X.sign_neg(b)), X.pinf, X.ninf), X.nan))))


def _binop(it, op, l, r, inplace):
    if isinstance(l, FeatV) or isinstance(r, FeatV):
        a, b = _feat_term(it, l), _feat_term(it, r)
        if isinstance(op, ast.Sub):
            return FeatV(np_sub(a, b))
        if isinstance(op, ast.Add):
            return FeatV(np_add(a, b))
        return FeatV(np_other(z3.IntVal(abs(hash(type(op).__name__)) % 997), a, b))
    if isinstance(l, Abs) or isinstance(r, Abs):
        if (xreal.is_x(l) or xreal.is_x(r) or isinstance(l, float) or isinstance(r, float)) and not isinstance(op, ast.Mod):
            return it.run.fresh('absnum', xreal.XReal)
        return Abs('binop')
    if isinstance(op, ast.Div) and (xreal.is_x(l) or xreal.is_x(r) or ((z3.is_expr(l) or z3.is_expr(r)) and
                                                                      all(isinstance(x, (int, float)) or z3.is_expr(x) for x in (l, r)))):
        return xdiv(xreal.lift(l), xreal.lift(r))
    if isinstance(op, ast.Add) and ((z3.is_expr(l) and l.sort() == Str) or (z3.is_expr(r) and r.sort() == Str)) \
            and (isinstance(l, str) or isinstance(r, str) or (z3.is_expr(l) and z3.is_expr(r))):
        return str_concat(pm._lift(l, Str), pm._lift(r, Str))
    if isinstance(l, RawV) or isinstance(r, RawV):
        return Abs('rawop')
    return M.MISSING


# must run before models.binop's own string handling (name + '_before_noise' must be an injective-free UF of both parts)
_prev_binop = M.binop


def _binop_first(it, op, l, r, inplace=False):
    h = _binop(it, op, l, r, inplace)
    if h is not M.MISSING:
        return h
    return _prev_binop(it, op, l, r, inplace)


M.binop = _binop_first

_prev_unary = M.unary


def _unary(it, op, v):
    if isinstance(v, (Abs, RawV)):
        return Abs('unary')
    if isinstance(v, FeatV):
        return FeatV(it.run.fresh('featneg', Feat))
    return _prev_unary(it, op, v)


M.unary = _unary


def _sym_parts(it, args):
    parts = []
    for a in args:
        if isinstance(a, Abs):
            a = abs_list(it)
        parts.append(a)
    return parts


_prev_zip = M.BUILTINS['zip'].fn


def _b_zip(it, args, kw):
    parts = _sym_parts(it, args)
    if any(isinstance(p, SymList) and M.try_iterate(it, p) is None for p in parts) or any(isinstance(p, FeatV) for p in parts):
        out = []
        for p in parts:
            if isinstance(p, FeatV):
                p = abs_list(it)
            if not isinstance(p, SymList):
                conc = M.try_iterate(it, p)
                if conc is None:
                    raise Unsupported('zip over %r' % (p,))
                k = kind_of_value(conc[0]) if conc else K_ABS
                if k is None:
                    raise Unsupported('zip of a symbolic list with a concrete list of %r' % (conc[0],))
                p = new_vlist(it, k, conc)
            out.append(p)
        return ZipList(out)
    return _prev_zip(it, parts, kw)


_prev_enum = M.BUILTINS['enumerate'].fn


def _b_enumerate(it, args, kw):
    parts = _sym_parts(it, args[:1])
    if isinstance(parts[0], SymList) and M.try_iterate(it, parts[0]) is None:
        return EnumList(parts[0], args[1] if len(args) > 1 else kw.get('start', 0))
    return _prev_enum(it, parts + list(args[1:]), kw)


def _wrap_builtin(name, fn):
    prev = M.BUILTINS[name].fn

    def b(it, args, kw):
        r = fn(it, args, kw)
        if r is not M.MISSING:
            return r
        return prev(it, args, kw)
    M.BUILTINS[name] = Builtin(name, b)


M.BUILTINS['zip'] = Builtin('zip', _b_zip)
M.BUILTINS['enumerate'] = Builtin('enumerate', _b_enumerate)
_wrap_builtin('abs', lambda it, args, kw: Abs('abs') if isinstance(args[0], (Abs, RawV, FeatV)) else M.MISSING)
_wrap_builtin('float', lambda it, args, kw: it.run.fresh('absfloat', xreal.XReal) if args and isinstance(args[0], (Abs, RawV)) else M.MISSING)
_wrap_builtin('int', lambda it, args, kw: it.run.fresh('absint', z3.IntSort()) if args and isinstance(args[0], (Abs, RawV)) else M.MISSING)
_wrap_builtin('sum', lambda it, args, kw: it.run.fresh('abssum', z3.IntSort()) if args and isinstance(args[0], (Abs,)) else M.MISSING)
_wrap_builtin('set', lambda it, args, kw: Abs('set') if args and isinstance(args[0], (Abs, ItemsList, DictV)) else M.MISSING)
_wrap_builtin('list', lambda it, args, kw: abs_list(it) if args and isinstance(args[0], Abs) else M.MISSING)
_wrap_builtin('range', lambda it, args, kw: abs_list(it) if any(isinstance(a, Abs) for a in args) else M.MISSING)
_wrap_builtin('str', lambda it, args, kw: it.run.fresh('absstr', Str) if args and isinstance(args[0], (Abs, RawV)) else M.MISSING)


def _isinstance_hook(it, o, c):
    if isinstance(o, Abs):
        return fresh_bool(it, 'isinstance')
    name = c if isinstance(c, str) else getattr(c, 'name', None)
    if isinstance(o, MetricV):
        return name == 'Metric'
    if isinstance(o, PValV):
        return name == 'ParameterValue'
    if isinstance(o, RawV):
        return fresh_bool(it, 'isinstance') if name in ('str', 'int', 'float', 'bool') else False
    if isinstance(o, TrialV):
        return name in ('Trial', 'TrialSuggestion')
    return M.MISSING


_chain('isinstance_hook', _isinstance_hook)


def _call_hook(it, f, args, kw):
    if isinstance(f, Abs):
        return Abs(f.what + '()')
    if isinstance(f, FnV):
        return f.fn(it, args, kw)
    return M.MISSING


_chain('call_hook', _call_hook)


# ------------------------------------------------------------------------------------------ havoc / snapshot / deepcopy
def _path_havoc(it, o, name):
    """havoc of an object mutated inside a symbolic loop: only the attribute paths that the loop body mutates."""
    node = getattr(it, '_c20_loop', None)
    if node is None:
        raise Unsupported('havoc of object %s outside a loop' % name)
    paths = set()

    def chain(e):
        out = []
        while isinstance(e, (ast.Attribute, ast.Subscript, ast.Call)):
            if isinstance(e, ast.Attribute):
                out.append(e.attr)
                e = e.value
            elif isinstance(e, ast.Subscript):
                out.append(None)
                e = e.value
            else:
                return None, None
        if isinstance(e, ast.Name):
            return e.id, list(reversed(out))
        return None, None

    for n in ast.walk(node):
        tgt = None
        if isinstance(n, (ast.Attribute, ast.Subscript)) and isinstance(n.ctx, (ast.Store, ast.Del)):
            tgt = n
        elif isinstance(n, ast.Call) and isinstance(n.func, ast.Attribute) and n.func.attr in E.MUTATORS:
            tgt = n.func.value
            b, p = chain(tgt)
            if b == name:
                paths.add(tuple(p) + ('<mutated>',))
            continue
        if tgt is not None:
            b, p = chain(tgt)
            if b == name:
                paths.add(tuple(p))
    for p in sorted(paths, key=len):
        cur, ok = o, True
        attrs = [x for x in p if x != '<mutated>']
        # stop at the first subscript: the container at that point is havocked as a whole
        if None in attrs:
            attrs = attrs[:attrs.index(None)]
            whole = True
        else:
            whole = p[-1:] == ('<mutated>',)
        if not attrs:
            raise Unsupported('loop mutates %s itself' % name)
        for a in attrs[:-1]:
            if isinstance(cur, Obj) and a in cur.attrs:
                cur = cur.attrs[a]
            elif isinstance(cur, Abs):
                ok = False
                break
            else:
                raise Unsupported('loop mutates %s.%s (not an attribute path of known objects)' % (name, '.'.join(attrs)))
        if not ok or isinstance(cur, Abs):
            continue
        last = attrs[-1]
        if not isinstance(cur, Obj):
            raise Unsupported('loop mutates attribute %s of %r' % (last, cur))
        if last in cur.attrs:
            cur.attrs[last] = M.fresh_like(it, cur.attrs[last], name + '_' + last) if whole else _havoc_value(it, cur.attrs[last], name + '_' + last)
    return o


def _havoc_value(it, v, name):
    return M.fresh_like(it, v, name)


_prev_fresh_like = M.fresh_like


def _fresh_like(it, v, name):
    run = it.run
    if isinstance(v, list) and not v:
        r = VList(run.fresh(name + '_n', z3.IntSort()), None, None)
        r.vname = name
        run.assume(r.n >= 0)
        return r
    if isinstance(v, list) and v and kind_of_value(v[0]) is not None and not isinstance(v[0], str):
        k = kind_of_value(v[0])
        r = VList(run.fresh(name + '_n', z3.IntSort()), run.fresh(name + '_a', z3.ArraySort(z3.IntSort(), k.sort)), k)
        run.assume(r.n >= 0)
        return r
    if isinstance(v, VList):
        v.n = run.fresh(name + '_n', z3.IntSort())
        run.assume(v.n >= 0)
        if v.kind is not None:
            v.arr = run.fresh(name + '_a', z3.ArraySort(z3.IntSort(), v.kind.sort))
        v.pos = None
        return v
    if isinstance(v, (ZipList, EnumList, ItemsList)):
        return v
    if isinstance(v, M.PyDict):
        if v.default_factory is not None:
            return Abs('defaultdict')
        return SMap(name)
    if isinstance(v, SMap):
        r = SMap(name)
        if v.di is not None:
            r.ensure(it, v.di)
        return r
    if isinstance(v, tuple):
        return tuple(_fresh_like(it, x, '%s_%d' % (name, i)) for i, x in enumerate(v))
    if isinstance(v, Abs):
        return Abs(name)
    if isinstance(v, TrialV):
        return TrialV(run.fresh(name, TRef))
    if isinstance(v, MetricInfoV):
        return MetricInfoV(run.fresh(name, MIRef))
    if isinstance(v, PDictV):
        return PDictV(run.fresh(name, PDRef))
    if isinstance(v, OptStdV):
        return OptStdV(run.fresh(name + '_has', z3.BoolSort()), run.fresh(name, xreal.XReal))
    if isinstance(v, (MetricV, PValV, RawV, GoalV, FeatV)):
        return type(v)(run.fresh(name, v.term.sort()))
    if isinstance(v, DictV):
        return DictV(v.di, run.fresh(name, v.di.sort))
    if isinstance(v, MeasV):
        return MeasV(run.fresh(name, TRef))
    if isinstance(v, MeasNew):
        return MeasNew(SMap(name + '_metrics').ensure(it, MDI), run.fresh(name + '_rest', MRest))
    if isinstance(v, (ConverterV, FnV, FeatMat, E.FuncVal, E.Bound, Builtin, E.ModRef, E.ExtRef, E.ClassInfo)):
        return v
    if isinstance(v, Obj) and v.cls in ('SearchSpace', 'Metadata'):
        return v          # opaque content: nothing is tracked, nothing to havoc
    if isinstance(v, Obj) and not isinstance(v, ExcObj):
        return _path_havoc(it, v, name)
    return _prev_fresh_like(it, v, name)


M.fresh_like = _fresh_like

_prev_snapshot = M.snapshot


def _snapshot(v):
    if isinstance(v, VList):
        r = VList(v.n, v.arr, v.kind, v.pos)
        return r
    if isinstance(v, SMap):
        return v.copy()
    if isinstance(v, (ZipList, EnumList, ItemsList)):
        return v
    return _prev_snapshot(v)


M.snapshot = _snapshot

_prev_deepcopy = M.deepcopy


def copy_trials(it, xs):
    """deepcopy of a batch: fresh pairwise-distinct trial references (each with a fresh ParameterDict object) with equal field values."""
    run = it.run
    arr = run.fresh('copy_a', z3.ArraySort(z3.IntSort(), TRef))
    pos = run.fresh('copy_pos', z3.ArraySort(TRef, z3.IntSort()))
    nobj = run.fresh('copy_pd', z3.ArraySort(z3.IntSort(), PDRef))
    opos = run.fresh('copy_pdpos', z3.ArraySort(PDRef, z3.IntSort()))
    j = z3.Int('j!cp')
    inr = z3.And(j >= 0, j < xs.n)
    old = heap_snapshot(run)
    run.axiom(z3.ForAll([j], z3.Implies(inr, z3.And(z3.Not(old['talloc'][arr[j]]), pos[arr[j]] == j,
                                                    z3.Not(old['palloc'][nobj[j]]), opos[nobj[j]] == j))))
    new = {}
    for f in ('fmset', 'metrics', 'rest', 'infeas', 'talloc', 'pobj', 'pval', 'palloc'):
        new[f] = run.fresh('H_' + f, old[f].sort())
        run.ghost['H.' + f] = new[f]
    r, o = z3.Const('r!cp', TRef), z3.Const('o!cp', PDRef)
    for f in ('fmset', 'metrics', 'rest', 'infeas'):
        run.axiom(z3.ForAll([j], z3.Implies(inr, new[f][arr[j]] == old[f][xs.arr[j]])))
        run.axiom(z3.ForAll([r], z3.Implies(old['talloc'][r], new[f][r] == old[f][r])))
    run.axiom(z3.ForAll([j], z3.Implies(inr, z3.And(new['pobj'][arr[j]] == nobj[j], new['palloc'][nobj[j]],
                                                    new['pval'][nobj[j]] == old['pval'][old['pobj'][xs.arr[j]]]))))
    run.axiom(z3.ForAll([r], z3.Implies(old['talloc'][r], new['pobj'][r] == old['pobj'][r])))
    run.axiom(z3.ForAll([o], z3.Implies(old['palloc'][o], z3.And(new['palloc'][o], new['pval'][o] == old['pval'][o]))))
    run.axiom(z3.ForAll([r], z3.Implies(old['talloc'][r], new['talloc'][r])))
    run.axiom(z3.ForAll([j], z3.Implies(inr, new['talloc'][arr[j]])))
    # nothing else is allocated by the copy
    run.axiom(z3.ForAll([r], z3.Implies(new['talloc'][r], z3.Or(old['talloc'][r], z3.And(pos[r] >= 0, pos[r] < xs.n, arr[pos[r]] == r)))))
    return VList(xs.n, arr, K_TRIAL, pos)


def _fresh_ref(run, r, allocfield):
    """concrete-spine runs: a reference assumed unallocated is distinct from every registered (allocated) reference."""
    if getattr(run, 'distinct_refs', None) is not None:
        know_distinct(run, r)


def copy_trial(it, t):
    run = it.run
    r = run.fresh('copy_t', TRef)
    run.assume(z3.Not(H(run, 'talloc')[r]))
    _fresh_ref(run, r, 'talloc')
    for f in TRIAL_FIELDS:
        Hset(run, f, r, H(run, f)[t.term])
    Hset(run, 'talloc', r, z3.BoolVal(True))
    return TrialV(r)


def copy_metricinfos(it, xs):
    run = it.run
    arr = run.fresh('micopy_a', z3.ArraySort(z3.IntSort(), MIRef))
    pos = run.fresh('micopy_pos', z3.ArraySort(MIRef, z3.IntSort()))
    j = z3.Int('j!mc')
    inr = z3.And(j >= 0, j < xs.n)
    old = heap_snapshot(run)
    run.axiom(z3.ForAll([j], z3.Implies(inr, z3.And(z3.Not(old['mialloc'][arr[j]]), pos[arr[j]] == j))))
    r = z3.Const('r!mc', MIRef)
    for f in ('goal', 'miname', 'mirest', 'mialloc'):
        new = run.fresh('H_' + f, old[f].sort())
        run.ghost['H.' + f] = new
        if f == 'mialloc':
            run.axiom(z3.ForAll([j], z3.Implies(inr, new[arr[j]])))
            run.axiom(z3.ForAll([r], z3.Implies(old[f][r], new[r])))
        else:
            run.axiom(z3.ForAll([j], z3.Implies(inr, new[arr[j]] == old[f][xs.arr[j]])))
            run.axiom(z3.ForAll([r], z3.Implies(old['mialloc'][r], new[r] == old[f][r])))
    return VList(xs.n, arr, K_MI, pos)


def _deepcopy(it, v, memo=None):
    memo = memo if memo is not None else {}
    if id(v) in memo:
        return memo[id(v)]
    if isinstance(v, VList) and v.kind is K_TRIAL:
        r = copy_trials(it, v)
    elif isinstance(v, VList) and v.kind is K_MI:
        r = copy_metricinfos(it, v)
    elif isinstance(v, VList):
        r = VList(v.n, v.arr, v.kind, v.pos)
    elif isinstance(v, TrialV):
        r = copy_trial(it, v)
    elif isinstance(v, PDictV):
        r = PDictV(new_pdict(it.run, H(it.run, 'pval')[v.term]))          # a fresh object with the same content
    elif isinstance(v, SMap):
        r = v.copy()
    elif isinstance(v, Abs):
        r = Abs(v.what)
    elif isinstance(v, (DictV, MetricV, PValV, RawV, GoalV, FeatV, ConverterV, FnV)):
        r = v
    elif isinstance(v, MeasNew):
        r = MeasNew(_deepcopy(it, v.metrics, memo), v.rest)
    elif isinstance(v, list) and v and all(isinstance(x, TrialV) for x in v):
        r = [copy_trial(it, x) for x in v]
    else:
        return _prev_deepcopy(it, v, memo)
    memo[id(v)] = r
    return r


M.deepcopy = _deepcopy


# ------------------------------------------------------------------------------------------ comprehensions / loops
_prev_filter_map = M.symbolic_filter_map


def _filter_map(it, fr, e, xs):
    """[elt(x) for x in xs] over an array-list of values: a map (no `if`): same length, pointwise definition."""
    if not isinstance(xs, (VList, ZipList, EnumList, ItemsList)):
        return _prev_filter_map(it, fr, e, xs)
    run = it.run
    gen = e.generators[0]
    if gen.ifs:
        raise Unsupported('filtering list comprehension over a symbolic list of values')
    J = run.fresh('cj', z3.IntSort())
    fr2 = E.Frame(fr.mod, {}, parent=fr)
    it.pure += 1
    try:
        it.assign(fr2, gen.target, xs.get(J))
        eltv = it.eval(fr2, e.elt)
    finally:
        it.pure -= 1
    k = kind_of_value(eltv)
    if k is None:
        if isinstance(eltv, MeasNew):
            return Abs('list of new measurements')
        raise Unsupported('comprehension element %r' % (eltv,))
    if k is K_ABS:
        r = abs_list(it)
        r.n = xs.n
        return r
    eterm = k.unwrap(it, eltv)
    arr = run.fresh('carr', z3.ArraySort(z3.IntSort(), k.sort))
    j = z3.Int('j!c')
    run.axiom(z3.ForAll([j], z3.Implies(z3.And(j >= 0, j < xs.n), arr[j] == z3.substitute(eterm, (J, j)))))
    r = VList(xs.n, arr, k)
    r.map_of = (xs, lambda i: z3.substitute(eterm, (J, i)))
    return r


M.symbolic_filter_map = _filter_map

_prev_comprehension = M.comprehension


def _comprehension(it, fr, e, kind):
    """dict comprehensions over symbolic lists: {k(x): v(x) for x in xs [if c(x)]} -> SMap by definition."""
    gens = e.generators
    if len(gens) == 1 and kind in ('dict', 'list', 'set', 'gen'):
        first = it.eval(fr, gens[0].iter)
        if isinstance(first, Abs):
            return Abs('comprehension')
        if kind == 'dict' and isinstance(first, SymList) and M.try_iterate(it, first) is None:
            return dict_comprehension(it, fr, e, first)
    return _prev_comprehension(it, fr, e, kind)


def dict_comprehension(it, fr, e, xs):
    run = it.run
    gen = e.generators[0]
    J = run.fresh('dj', z3.IntSort())
    fr2 = E.Frame(fr.mod, {}, parent=fr)
    it.pure += 1
    try:
        it.assign(fr2, gen.target, xs.get(J))
        cond = E.zbool(E.zand(*[it.truth_term(it.eval(fr2, c)) for c in gen.ifs]))
        kv, vv = it.eval(fr2, e.key), it.eval(fr2, e.value)
    finally:
        it.pure -= 1
    return dict_from_pairs(it, xs, J, cond, kv, vv)


def dict_from_pairs(it, xs, J, cond, kv, vv):
    """the dict {kv(J): vv(J) for J in range(len(xs)) if cond(J)} -- one symbolic-dict construction shared by dict comprehensions,
    dict(zip(a, b)), dict(pairs) and dict(d.items()) (later positions win, as in Python)."""
    run = it.run
    kt = pm._lift(kv, Str) if not isinstance(kv, RawV) else None
    if kt is None:
        return RawMap(run, xs, J, cond, kv, vv)
    if isinstance(vv, (MetricV,)) or xreal.is_x(vv) or (isinstance(vv, float)):
        di = MDI
    elif isinstance(vv, (PValV, RawV)):
        di = PDI
    else:
        di = None
    m = SMap('dcomp')
    if di is None:
        # values are not tracked (only membership is used): a name set
        m.di, m.opaque_values = PDI, True
        m.dom = run.fresh('dcomp_dom', z3.ArraySort(Str, z3.BoolSort()))
        m.val = run.fresh('dcomp_val', z3.ArraySort(Str, PVal))
        m.src = run.fresh('dcomp_src', z3.ArraySort(Str, z3.IntSort()))
    else:
        m.ensure(it, di)
    s, j = z3.Const('s!dc', Str), z3.Int('j!dc')
    key_at = lambda i: z3.substitute(kt, (J, i))
    cond_at = lambda i: z3.substitute(cond, (J, i))
    cl = [z3.ForAll([s], z3.Implies(m.dom[s], z3.And(m.src[s] >= 0, m.src[s] < xs.n, cond_at(m.src[s]), key_at(m.src[s]) == s))),
          z3.ForAll([j], z3.Implies(z3.And(j >= 0, j < xs.n, cond_at(j)), z3.And(m.dom[key_at(j)], m.src[key_at(j)] >= j)))]
    if di is not None:
        vt = di.vunwrap(it, vv)
        cl.append(z3.ForAll([s], z3.Implies(m.dom[s], m.val[s] == z3.substitute(vt, (J, m.src[s])))))
    for c in cl:
        run.axiom(c)
    m.comp_of = (xs, key_at, cond_at)
    return m


class RawMap:
    """{a: b for a, b in zip(F, P)} with raw parameter values as keys: src-skolemised definition."""

    def __init__(self, run, xs, J, cond, kv, vv):
        if not isinstance(vv, RawV):
            raise Unsupported('dict comprehension with raw-value keys and values %r' % (vv,))
        self.xs = xs
        self.dom = run.fresh('rm_dom', z3.ArraySort(PVal, z3.BoolSort()))
        self.val = run.fresh('rm_val', z3.ArraySort(PVal, PVal))
        self.src = run.fresh('rm_src', z3.ArraySort(PVal, z3.IntSort()))
        self.key_at = lambda i: z3.substitute(kv.term, (J, i))
        self.val_at = lambda i: z3.substitute(vv.term, (J, i))
        c_at = lambda i: z3.substitute(cond, (J, i))
        s, j = z3.Const('s!rm', PVal), z3.Int('j!rm')
        run.axiom(z3.ForAll([s], z3.Implies(self.dom[s], z3.And(self.src[s] >= 0, self.src[s] < xs.n, c_at(self.src[s]),
                                                                  self.key_at(self.src[s]) == s, self.val[s] == self.val_at(self.src[s])))))
        run.axiom(z3.ForAll([j], z3.Implies(z3.And(j >= 0, j < xs.n, c_at(j)),
                                            z3.And(self.dom[self.key_at(j)], self.src[self.key_at(j)] >= j))))


M.comprehension = _comprehension

ABS_LOOP = E.LoopSpec(lambda it, fr, ctx: [])
# optional resolver of loop contracts for loops that have none registered under their (function, ordinal) key, e.g. after a loop
# was moved into a helper: fn(it, fr, loop node, iterable, key) -> LoopSpec | None.  Loop contracts are checked hints (init /
# preserve are obligations), so choosing one by shape cannot make anything unsound.
LOOP_FALLBACK = [None]
HAVOC_ALL_LOOP = E.LoopSpec(lambda it, fr, ctx: [], ghost=ALL)
HAVOC_TRIALS_LOOP = E.LoopSpec(lambda it, fr, ctx: [], ghost=tuple('H.' + f for f in ('pobj', 'pval', 'palloc', 'fmset', 'metrics', 'rest', 'infeas', 'talloc')))
_prev_symbolic_loop = E.Interp.symbolic_loop


_PURE_METHODS = {'append', 'extend', 'add', 'info', 'debug', 'warning', 'error', 'format', 'get', 'keys', 'items', 'values', 'upper', 'lower',
                 'startswith', 'endswith', 'join', 'index', 'count', 'copy'}


def _heap_pure_body(node):
    """syntactic sufficient condition for a loop body that cannot write the heap of trials / parameter dicts / metric configs: no
    attribute or item store, and only calls of builtins and of container / string / logging methods."""
    for n in ast.walk(node):
        if isinstance(n, (ast.Attribute, ast.Subscript)) and isinstance(n.ctx, (ast.Store, ast.Del)):
            return False
        if isinstance(n, ast.Call):
            f = n.func
            if isinstance(f, ast.Attribute) and f.attr in _PURE_METHODS:
                continue
            if isinstance(f, ast.Name) and f.id in M.BUILTINS:
                continue
            return False
    return True


def _is_abstract_iter(v):
    if isinstance(v, VList):
        return v.kind is K_ABS or getattr(v, 'is_range', False)
    if isinstance(v, ZipList):
        return any(_is_abstract_iter(p) for p in v.parts)
    if isinstance(v, EnumList):
        return _is_abstract_iter(v.xs)
    return False


def _spec_fits(it, fr, iterable, spec):
    """does the loop found under a contract's key still have the shape the contract was written for?  (its invariant function raises
    Unsupported on a shape mismatch; loop contracts are checked hints, so choosing another one is always sound)"""
    ctx = E.LoopCtx()
    ctx.iter, ctx.phase, ctx.i = iterable, 'init', z3.IntVal(0)
    ctx.entry_env, ctx.entry_vals, ctx.entry_ghost = dict(fr.env), {}, dict(it.run.ghost)
    try:
        spec.invariant(it, fr, ctx)
        return True
    except Unsupported:
        return False
    except Exception:
        return True


def _symbolic_loop(self, fr, s, it_):
    if isinstance(it_, Abs):
        it_ = abs_list(self)
    if isinstance(it_, M.SymRange):
        # range(lo, hi) with symbolic bounds: the list lo, lo+1, ..., hi-1
        run = self.run
        lo, hi = E.as_int(it_.lo), E.as_int(it_.hi)
        if not (isinstance(it_.step, int) and it_.step == 1):
            raise Unsupported('symbolic range with a step')
        lo = lo if z3.is_expr(lo) else z3.IntVal(lo)
        hi = hi if z3.is_expr(hi) else z3.IntVal(hi)
        jj = z3.Int('j!rg')
        arr = z3.Lambda([jj], lo + jj)
        it_ = VList(z3.If(hi > lo, hi - lo, z3.IntVal(0)), arr, K_INT)
        it_.is_range = True
    key = self.loop_key(fr, s)
    added = False
    if key not in E.LOOPS and _is_abstract_iter(it_):
        # a loop over opaque values: no invariant is needed for what the model tracks: its write set is havocked, and -- outside
        # constructors, where the heap of trials matters -- the whole heap as well (the body may write trials / parameter dicts)
        E.LOOPS[key] = ABS_LOOP if key[1].endswith('.__init__') or _heap_pure_body(s) else HAVOC_ALL_LOOP
        added = True
    elif key not in E.LOOPS and key[1].endswith('.__init__') and key[0].startswith('vizier._src.benchmarks.experimenters'):
        # a loop inside a constructor: nothing is claimed about it -- the heap of trials and the loop's write set are havocked;
        # the MetricInformation heap too if the body can reach one (problem statements, goals, names)
        touches_mi = any(isinstance(n, ast.Attribute) and n.attr in ('problem_statement', 'goal', 'metric_information', 'flip_goal', 'item')
                         for n in ast.walk(s))
        E.LOOPS[key] = HAVOC_ALL_LOOP if touches_mi else HAVOC_TRIALS_LOOP
        added = True
    if key in E.LOOPS and not added and not _spec_fits(self, fr, it_, E.LOOPS[key]):
        saved_spec = E.LOOPS.pop(key)
        try:
            return _symbolic_loop(self, fr, s, it_)
        finally:
            E.LOOPS[key] = saved_spec
    if key not in E.LOOPS and LOOP_FALLBACK[0] is not None:
        spec = LOOP_FALLBACK[0](self, fr, s, it_, key)
        if spec is not None:
            E.LOOPS[key] = spec
            added = True
    old = getattr(self, '_c20_loop', None)
    self._c20_loop = s
    try:
        return _prev_symbolic_loop(self, fr, s, it_)
    finally:
        self._c20_loop = old
        if added:
            del E.LOOPS[key]


E.Interp.symbolic_loop = _symbolic_loop


# ------------------------------------------------------------------------------------------ converters / numpy
K_FEAT = Kind('features', Feat, FeatV, _unwrap_term(FeatV))
_prev_kind_of_value = kind_of_value


def kind_of_value(v):      # noqa: F811  (extended with feature rows)
    if isinstance(v, FeatV):
        return K_FEAT
    return _prev_kind_of_value(v)


class ParamsOf:
    """converter.to_parameters(features) for a one-row feature matrix."""

    def __init__(self, conv, feat):
        self.conv, self.feat = conv, feat


def as_trial_list(it, xs):
    """batch argument -> VList of trial references with a membership predicate."""
    if isinstance(xs, VList) and xs.kind is K_TRIAL:
        return xs
    conc = M.try_iterate(it, xs) if not isinstance(xs, SymList) else None
    if conc is not None and all(isinstance(t, TrialV) for t in conc):
        r = new_vlist(it, K_TRIAL, conc)
        r.conc = list(conc)
        return r
    raise Unsupported('%r used as a batch of trials' % (xs,))


def member_of(xs, r):
    conc = getattr(xs, 'conc', None)
    if conc is not None:
        return z3.Or(*[r == t.term for t in conc]) if conc else z3.BoolVal(False)
    return xs.member(r)


def conv_to_features(it, conv, arg):
    run = it.run
    if isinstance(arg, Abs):
        return FeatV(run.fresh('absfeat', Feat))
    xs = as_trial_list(it, arg)
    conc = getattr(xs, 'conc', None)
    if conc is not None and len(conc) == 1:
        return FeatV(featmat1(conv.term, H(run, 'params')[conc[0].term]))
    return FeatMat(conv, xs, HA(run, 'params'))


def conv_to_parameters(it, conv, arg):
    run = it.run
    if isinstance(arg, FeatV):
        return ParamsOf(conv, arg.term)
    if isinstance(arg, FeatMat) and getattr(arg.xs, 'conc', None) is not None:
        items = [DictV(PDI, toparrow(conv.term, featrow(arg.conv.term, arg.params[t.term]))) for t in arg.xs.conc]
        r = new_vlist(it, K_PD, items)
        r.topar_of = (conv, arg)
        return r
    if isinstance(arg, FeatMat):
        arr = run.fresh('topar_a', z3.ArraySort(z3.IntSort(), PD))
        j = z3.Int('j!tp')
        xs = arg.xs
        run.axiom(z3.ForAll([j], z3.Implies(z3.And(j >= 0, j < xs.n),
                                            arr[j] == toparrow(conv.term, featrow(arg.conv.term, arg.params[xs.arr[j]])))))
        r = VList(xs.n, arr, K_PD)
        r.topar_of = (conv, arg)
        return r
    n = run.fresh('topar_n', z3.IntSort())
    run.assume(n >= 0)
    return VList(n, run.fresh('topar_a', z3.ArraySort(z3.IntSort(), PD)), K_PD)


def conv_convert(it, conv, arg):
    """DefaultModelInputConverter.convert(trials): one feature row per trial."""
    run = it.run
    xs = as_trial_list(it, arg)
    if getattr(xs, 'conc', None) is not None:
        return new_vlist(it, K_FEAT, [FeatV(featrow(conv.term, H(run, 'params')[t.term])) for t in xs.conc])
    arr = run.fresh('conv_a', z3.ArraySort(z3.IntSort(), Feat))
    j = z3.Int('j!cv')
    P = HA(run, 'params')
    run.axiom(z3.ForAll([j], z3.Implies(z3.And(j >= 0, j < xs.n), arr[j] == featrow(conv.term, P[xs.arr[j]]))))
    return VList(xs.n, arr, K_FEAT)


def _new_converter(it, args, kw):
    return ConverterV(it.run.fresh('conv', Conv), dict(kw))


E.MODELS[CNV + ':TrialToArrayConverter.from_study_config'] = _new_converter
E.MODELS[CNV + ':TrialToArrayConverter'] = _new_converter


def _input_converter(it, args, kw):
    c = ConverterV(it.run.fresh('iconv', Conv), dict(kw))
    c.input = True
    return c


E.MODELS[CNV + ':DefaultModelInputConverter'] = _input_converter

_prev_value_getattr2 = M.value_getattr


def _value_getattr_conv(it, v, a):
    if isinstance(v, ConverterV) and a == 'convert':
        return _bi('convert', lambda it_, args, kw: conv_convert(it_, v, args[0]))
    return _prev_value_getattr2(it, v, a)


M.value_getattr = _value_getattr_conv


def _ext(name, fn):
    E.EXTERNAL[name] = Builtin(name, fn)


def _np_broadcast_to(it, args, kw):
    if it.run.choose(fresh_bool(it, 'broadcast_fails')):
        raise PyRaise(it.make_exc('ValueError', ['operands could not be broadcast']))
    return args[0] if isinstance(args[0], FeatV) else Abs('broadcast')


def _np_std(it, args, kw):
    run = it.run
    s = run.fresh('np_std', xreal.XReal)
    run.assume(z3.Not(xreal.is_ninf(s)))
    run.assume(z3.Implies(xreal.is_fin(s), xreal.r(s) >= 0))
    run.np_std_results = getattr(run, 'np_std_results', []) + [s]
    return s


_ext('numpy.broadcast_to', _np_broadcast_to)
_ext('numpy.std', _np_std)
_ext('numpy.mean', lambda it, args, kw: it.run.fresh('np_mean', xreal.XReal))
for _n in ('linspace', 'zeros', 'ones', 'array', 'asarray', 'max', 'min', 'power', 'sum', 'prod', 'arange', 'sqrt', 'abs'):
    _ext('numpy.' + _n, lambda it, args, kw, _n=_n: Abs('np.' + _n))
_ext('numpy.isfinite', lambda it, args, kw: (xreal.isfinite(xreal.lift(args[0])) if xreal.is_x(args[0]) or isinstance(args[0], (int, float))
                                              else fresh_bool(it, 'isfinite')))
E.EXTERNAL['numpy.nan'] = float('nan')
E.EXTERNAL['numpy.inf'] = float('inf')
_ext('numpy.random.default_rng', lambda it, args, kw: Abs('rng'))
_ext('numpy.random.RandomState', lambda it, args, kw: Abs('rng'))
E.EXTERNAL['numpy.ndarray'] = Abs('np.ndarray')
_ext('collections.defaultdict', lambda it, args, kw: Abs('defaultdict'))
_ext('functools.partial', lambda it, args, kw: Abs('partial'))
_ext('json.dumps', lambda it, args, kw: it.run.fresh('json', Str))
_ext('random.Random', lambda it, args, kw: Abs('random.Random'))
_ext('attr.evolve', lambda it, args, kw: Abs('evolve'))


# ------------------------------------------------------------------------------------------ pyvizier classes
class MetricsConfigV:
    """MetricsConfig: a mutable container of MetricInformation references."""

    def __init__(self, lst):
        self.lst = lst


MRest0 = z3.Const('MeasRest_default', MRest)


def _m_metric(it, args, kw):
    v = args[0] if args else kw.get('value')
    std = args[1] if len(args) > 1 else kw.get('std')
    if isinstance(v, (Abs, RawV)):
        v = it.run.fresh('absvalue', xreal.XReal)
    if not (xreal.is_x(v) or isinstance(v, (int, float)) or (z3.is_expr(v) and v.sort() in (z3.IntSort(), z3.RealSort()))):
        raise Unsupported('Metric(value=%r)' % (v,))
    if isinstance(std, OptStdV):
        # a std taken from an existing (validated) Metric: present iff it was present there, same value
        return MetricV(MetricS.mk(xreal.lift(v), std.has, std.term))
    if std is None:
        return MetricV(MetricS.mk(xreal.lift(v), z3.BoolVal(False), xreal.lit(0.0)))
    if isinstance(std, Abs):
        std = it.run.fresh('absstd', xreal.XReal)
    return MetricV(MetricS.mk(xreal.lift(v), z3.BoolVal(True), xreal.lift(std)))


def _m_measurement(it, args, kw):
    metrics = args[0] if args else kw.get('metrics')
    if metrics is None:
        metrics = M.PyDict()
    if not isinstance(metrics, (M.PyDict, SMap, DictV, Abs)):
        raise Unsupported('Measurement(metrics=%r)' % (metrics,))
    rest = MRest0 if not (set(kw) - {'metrics'}) and len(args) <= 1 else it.run.fresh('rest', MRest)
    return MeasNew(metrics, rest)


def _m_parameter_dict(it, args, kw):
    if kw:
        raise Unsupported('ParameterDict(**kwargs)')
    if not args:
        return DictV(PDI, PDI.empty())
    return to_dictv(it, args[0], PDI)


def _m_parameter_value(it, args, kw):
    v = args[0] if args else kw.get('value')
    if isinstance(v, (RawV, PValV)):
        return PValV(v.term)
    return PValV(it.run.fresh('pval', PVal))


def _m_trial(it, args, kw):
    run = it.run
    r = run.fresh('newtrial', TRef)
    run.assume(z3.Not(H(run, 'talloc')[r]))
    _fresh_ref(run, r, 'talloc')
    Hset(run, 'talloc', r, z3.BoolVal(True))
    p = args[0] if args else kw.get('parameters')
    Hset(run, 'params', r, (to_dictv(it, p, PDI).term if p is not None else PDI.empty()))
    Hset(run, 'infeas', r, z3.BoolVal(kw.get('infeasibility_reason') is not None))
    fm = kw.get('final_measurement')
    if fm is None:
        Hset(run, 'fmset', r, z3.BoolVal(False))
    else:
        md, rest = measurement_value(it, fm)
        Hset(run, 'fmset', r, z3.BoolVal(True))
        Hset(run, 'metrics', r, md)
        Hset(run, 'rest', r, rest)
    return TrialV(r)


def goal_member(it, name):
    cls = E.ModuleInfo.get(BSC).classes['ObjectiveMetricGoal']
    node = cls.assigns[name]
    if not (isinstance(node, ast.Constant) and isinstance(node.value, int)):
        raise Unsupported('ObjectiveMetricGoal.%s is not an int constant' % name)
    return GoalV(z3.IntVal(node.value))


def _m_metric_information(it, args, kw):
    run = it.run
    r = run.fresh('newmi', MIRef)
    run.assume(z3.Not(H(run, 'mialloc')[r]))
    _fresh_ref(run, r, 'mialloc')
    Hset(run, 'mialloc', r, z3.BoolVal(True))
    name = args[0] if args else kw.get('name', '')
    Hset(run, 'miname', r, pm._lift(name, Str))
    goal = kw.get('goal')
    if not isinstance(goal, GoalV):
        raise Unsupported('MetricInformation(goal=%r)' % (goal,))
    Hset(run, 'goal', r, goal.term)
    return MetricInfoV(r)


def _m_metrics_config(it, args, kw):
    src = args[0] if args else None
    if src is None:
        return MetricsConfigV(new_vlist(it, K_MI))
    if isinstance(src, VList) and src.kind is K_MI:
        return MetricsConfigV(VList(src.n, src.arr, K_MI, src.pos))
    conc = M.try_iterate(it, src)
    if conc is not None:
        return MetricsConfigV(new_vlist(it, K_MI, conc))
    raise Unsupported('MetricsConfig(%r)' % (src,))


def new_search_space(what='search_space'):
    return Obj('SearchSpace', {'_what': what})


def _m_problem_statement(it, args, kw):
    if args:
        raise Unsupported('ProblemStatement positional arguments')
    o = Obj('ProblemStatement', {'search_space': kw.get('search_space') or new_search_space(),
                                 'metric_information': kw.get('metric_information') or MetricsConfigV(new_vlist(it, K_MI)),
                                 'metadata': kw.get('metadata') or Obj('Metadata', {})})
    return o


E.MODELS[TRM + ':Metric'] = _m_metric
E.MODELS[TRM + ':Measurement'] = _m_measurement
E.MODELS[TRM + ':ParameterDict'] = _m_parameter_dict
E.MODELS[TRM + ':ParameterValue'] = _m_parameter_value
E.MODELS[TRM + ':Trial'] = _m_trial
E.MODELS[BSC + ':MetricInformation'] = _m_metric_information
E.MODELS[BSC + ':MetricsConfig'] = _m_metrics_config
E.MODELS[BSC + ':ProblemStatement'] = _m_problem_statement
E.MODELS[PCM + ':SearchSpace'] = lambda it, args, kw: new_search_space('new')
E.MODELS[PCM + ':ParameterConfig.factory'] = lambda it, args, kw: Abs('ParameterConfig')
E.MODELS[PCM + ':ParameterConfig'] = lambda it, args, kw: Abs('ParameterConfig')

_prev_class_attr_value = M.class_attr_value


def _class_attr_value(it, cls, name, node):
    if cls.mod.dotted == BSC and cls.qualname == 'ObjectiveMetricGoal' and isinstance(node, ast.Constant):
        return goal_member(it, name)
    return _prev_class_attr_value(it, cls, name, node)


M.class_attr_value = _class_attr_value


def _metrics_config_attr(it, mc, a):
    run = it.run
    lst = mc.lst
    if a == 'item':
        def item(it_, args, kw):
            if it_.run.choose(lst.n != 1):
                raise PyRaise(it_.make_exc('ValueError', ['Can be called only when there is exactly one metric']))
            return lst.get(z3.IntVal(0))
        return _bi('item', item)
    if a == 'of_type' or a == 'exclude_type':
        def of_type(it_, args, kw):
            r = it_.run
            n = r.fresh('oftype_n', z3.IntSort())
            arr = r.fresh('oftype_a', z3.ArraySort(z3.IntSort(), MIRef))
            src = r.fresh('oftype_src', z3.ArraySort(z3.IntSort(), z3.IntSort()))
            r.assume(n >= 0)
            r.assume(n <= lst.n)
            j = z3.Int('j!ot')
            r.axiom(z3.ForAll([j], z3.Implies(z3.And(j >= 0, j < n), z3.And(src[j] >= 0, src[j] < lst.n, arr[j] == lst.arr[src[j]]))))
            out = MetricsConfigV(VList(n, arr, K_MI))
            out.sub_of = (mc, src)
            return out
        return _bi(a, of_type)
    if a in ('is_single_objective', 'is_safety_metric'):
        key = '_' + a
        if not hasattr(mc, key):
            setattr(mc, key, fresh_bool(it, a))
        return getattr(mc, key)
    if a == 'append':
        def append(it_, args, kw):
            vlist_append(it_, lst, args[0])
        return _bi('append', append)
    raise Unsupported('MetricsConfig.%s' % a)


_prev_value_getattr3 = M.value_getattr


def _value_getattr_objs(it, v, a):
    if isinstance(v, MetricsConfigV):
        return _metrics_config_attr(it, v, a)
    return _prev_value_getattr3(it, v, a)


M.value_getattr = _value_getattr_objs

_prev_obj_getattr = M.obj_getattr


def _obj_getattr(it, o, a):
    if isinstance(o, Obj) and isinstance(o.cls, str):
        if o.cls == 'BaseExperimenter':
            if a == 'evaluate':
                return _bi('base.evaluate', lambda it_, args, kw: base_evaluate(it_, o, args[0] if args else kw['suggestions']))
            if a == 'problem_statement':
                return _bi('base.problem_statement', lambda it_, args, kw: base_problem_statement(it_, o))
            raise Unsupported('the wrapped experimenter is used through %s (only evaluate / problem_statement are in BaseContract)' % a)
        if o.cls == 'SearchSpace':
            if a == 'assert_contains':
                def assert_contains(it_, args, kw):
                    if it_.run.choose(fresh_bool(it_, 'not_in_search_space')):
                        raise PyRaise(it_.make_exc('ValueError', ['InvalidParameterError']))
                    return True
                return _bi('assert_contains', assert_contains)
            if a in ('add', 'select', 'select_root'):
                return _bi(a, lambda it_, args, kw: Abs('search_space.' + a))
            return Abs('search_space.' + a)
        if o.cls == 'Metadata':
            return Abs('metadata.' + a)
    return _prev_obj_getattr(it, o, a)


M.obj_getattr = _obj_getattr

_prev_symloop2 = E.Interp.symbolic_loop


def _symbolic_loop2(self, fr, s, it_):
    if isinstance(it_, MetricsConfigV):
        it_ = it_.lst
    return _prev_symloop2(self, fr, s, it_)


E.Interp.symbolic_loop = _symbolic_loop2

_prev_comprehension2 = M.comprehension


def _comprehension2(it, fr, e, kind):
    gens = e.generators
    if len(gens) == 1:
        first = it.eval(fr, gens[0].iter)
        if isinstance(first, MetricsConfigV):
            conc = M.try_iterate(it, first.lst)
            if conc is None:
                if kind == 'dict':
                    return dict_comprehension(it, fr, e, first.lst)
                if kind == 'list':
                    return _filter_map(it, fr, e, first.lst)
    return _prev_comprehension2(it, fr, e, kind)


M.comprehension = _comprehension2

_prev_iterate2 = M.try_iterate


def _try_iterate2(it, v):
    if isinstance(v, MetricsConfigV):
        return _prev_iterate2(it, v.lst)
    return _prev_iterate2(it, v)


M.try_iterate = _try_iterate2

_prev_deepcopy2 = M.deepcopy


def _deepcopy2(it, v, memo=None):
    memo = memo if memo is not None else {}
    if isinstance(v, MetricsConfigV):
        if id(v) in memo:
            return memo[id(v)]
        r = MetricsConfigV(M.deepcopy(it, v.lst, memo))
        memo[id(v)] = r
        return r
    return _prev_deepcopy2(it, v, memo)


M.deepcopy = _deepcopy2

_prev_len2 = M.len_hook


def _len2(it, v):
    if isinstance(v, MetricsConfigV):
        return v.lst.n
    return _prev_len2(it, v)


M.len_hook = _len2


# ------------------------------------------------------------------------------------------ BaseContract experimenter
metric_named = z3.Function('base_metric_named', z3.IntSort(), Str, z3.BoolSort())
metric_index = z3.Function('base_metric_index', z3.IntSort(), Str, z3.IntSort())


def make_metric_infos(run, tag):
    """a problem statement's metric list: symbolic length, pairwise distinct allocated references, unique names."""
    n = z3.Int('nmi_' + tag)
    arr = z3.Const('mi_' + tag, z3.ArraySort(z3.IntSort(), MIRef))
    pos = z3.Const('mipos_' + tag, z3.ArraySort(MIRef, z3.IntSort()))
    run.assume(n >= 0)
    j = z3.Int('j!mi')
    run.axiom(z3.ForAll([j], z3.Implies(z3.And(j >= 0, j < n), z3.And(pos[arr[j]] == j, H(run, 'mialloc')[arr[j]]))))
    return VList(n, arr, K_MI, pos)


def make_base(run, tag, bid):
    """the wrapped experimenter: opaque class, BaseContract assumed (see base_evaluate / base_problem_statement)."""
    lst = make_metric_infos(run, tag)
    ps = Obj('ProblemStatement', {'search_space': new_search_space('base'), 'metric_information': MetricsConfigV(lst),
                                  'metadata': Obj('Metadata', {})})
    b = Obj('BaseExperimenter', {'tag': tag, 'bid': bid, '_ps': ps})
    names0 = HA(run, 'miname')
    j, s = z3.Int('j!bn'), z3.Const('s!bn', Str)
    B = z3.IntVal(bid)
    # the metric names of the (constant) problem statement, as a predicate; names are unique (MetricsConfig invariant)
    run.axiom(z3.ForAll([j], z3.Implies(z3.And(j >= 0, j < lst.n), z3.And(metric_named(B, names0[lst.arr[j]]),
                                                                          metric_index(B, names0[lst.arr[j]]) == j))))
    run.axiom(z3.ForAll([s], z3.Implies(metric_named(B, s), z3.And(metric_index(B, s) >= 0, metric_index(B, s) < lst.n,
                                                                   names0[lst.arr[metric_index(B, s)]] == s))))
    b.names0, b.lst0 = names0, M.snapshot(lst)
    run.bases = getattr(run, 'bases', []) + [b]
    return b


def named(b, s):
    return metric_named(z3.IntVal(b.attrs['bid']), s)


def base_problem_statement(it, b):
    """BaseContract: a fresh deep copy (by value) of the experimenter's constant problem statement."""
    run = it.run
    r = M.deepcopy(it, b.attrs['_ps'])
    run.event('base.problem_statement', b.attrs['tag'])
    return r


def completed_formula(heap, b, r, extra_named=None):
    """BaseContract for one trial reference r in heap state `heap`: marked infeasible, or completed with (at least) every
    metric named in the problem statement."""
    s = z3.Const('s!cf', Str)
    nm = (lambda x: named(b, x)) if extra_named is None else extra_named
    return z3.Or(heap['infeas'][r],
                 z3.And(heap['fmset'][r], z3.ForAll([s], z3.Implies(nm(s), MDI.dom(heap['metrics'][r])[s]))))


def base_evaluate(it, b, arg):
    """BaseContract.evaluate (assumed): every given trial is completed with the metrics named in problem_statement() or marked
    infeasible; parameters are left as given; no other trial is touched.  Metric values are unconstrained."""
    run = it.run
    xs = as_trial_list(it, arg)
    pre = heap_snapshot(run)
    call = {'base': b, 'xs': M.snapshot(xs), 'pre': pre, 'locks': None}
    if getattr(xs, 'conc', None) is not None:
        call['xs'].conc = xs.conc
    hook = getattr(run, 'on_base_evaluate', None)
    if hook is not None:
        hook(it, call)
    if getattr(run, 'base_may_raise', False):
        if run.choose(z3.Bool('base_raises!%d' % len(getattr(run, 'base_calls', [])))):
            run.base_calls = getattr(run, 'base_calls', []) + [dict(call, raised=True, post=pre)]
            raise PyRaise(ExcObj(E.AnyExc('base.evaluate'), {'args': ()}))
    new = {}
    for f in ('fmset', 'metrics', 'rest', 'infeas'):
        new[f] = run.fresh('Hb_' + f, pre[f].sort())
        run.ghost['H.' + f] = new[f]
    post = heap_snapshot(run)
    j, s, r = z3.Int('j!be'), z3.Const('s!be', Str), z3.Const('r!be', TRef)
    conc = getattr(xs, 'conc', None)
    if conc is not None:
        for t in conc:
            rt = t.term
            run.axiom(z3.ForAll([s], z3.Implies(z3.And(z3.Not(post['infeas'][rt]), named(b, s)), MDI.dom(post['metrics'][rt])[s])))
            run.assume(z3.Or(post['infeas'][rt], post['fmset'][rt]))
    else:
        inr = z3.And(j >= 0, j < xs.n)
        rj = xs.arr[j]
        run.axiom(z3.ForAll([j, s], z3.Implies(z3.And(inr, z3.Not(post['infeas'][rj]), named(b, s)), MDI.dom(post['metrics'][rj])[s])))
        run.axiom(z3.ForAll([j], z3.Implies(inr, z3.Or(post['infeas'][rj], post['fmset'][rj]))))
    sfx = getattr(run, 'metric_suffix_free', None)
    if sfx is not None and conc is None:
        # precondition of NoisyExperimenter (stated): no reported metric name is another reported name followed by the suffix
        run.axiom(z3.ForAll([j, s], z3.Implies(z3.And(inr, MDI.dom(post['metrics'][rj])[s]),
                                               z3.Not(MDI.dom(post['metrics'][rj])[str_concat(s, sfx)]))))
    if getattr(run, 'base_never_infeasible', False):
        # residual class of the recorded findings: the wrapped experimenter completes every trial feasibly
        if conc is not None:
            for t in conc:
                run.assume(post['infeas'][t.term] == pre['infeas'][t.term])
        else:
            run.axiom(z3.ForAll([j], z3.Implies(inr, post['infeas'][rj] == pre['infeas'][rj])))
    mem = member_of(xs, r)
    for f in ('fmset', 'metrics', 'rest', 'infeas'):
        run.axiom(z3.ForAll([r], z3.Implies(z3.Not(mem), post[f][r] == pre[f][r])))
    call['post'] = post
    call['raised'] = False
    run.base_calls = getattr(run, 'base_calls', []) + [call]
    run.event('base.evaluate', b.attrs['tag'])
    return None


def make_batch(run, name='xs'):
    """a batch of trials of arbitrary size: pairwise distinct, allocated trial objects (precondition of evaluate)."""
    n = z3.Int('n_' + name)
    arr = z3.Const(name, z3.ArraySort(z3.IntSort(), TRef))
    pos = z3.Const('pos_' + name, z3.ArraySort(TRef, z3.IntSort()))
    run.assume(n >= 0)
    j = z3.Int('j!mb')
    run.axiom(z3.ForAll([j], z3.Implies(z3.And(j >= 0, j < n), z3.And(pos[arr[j]] == j, HA(run, 'talloc')[arr[j]]))))
    # every trial owns its ParameterDict object (Trial's attrs converter builds one per trial): allocated, not shared between trials
    owner = z3.Const('pdowner_' + name, z3.ArraySort(PDRef, z3.IntSort()))
    pobj, palloc = HA(run, 'pobj'), HA(run, 'palloc')
    run.axiom(z3.ForAll([j], z3.Implies(z3.And(j >= 0, j < n), z3.And(palloc[pobj[arr[j]]], owner[pobj[arr[j]]] == j))))
    return VList(n, arr, K_TRIAL, pos)


# ------------------------------------------------------------------------------------------ object graphs (by-value checks)
_MUTABLE = (Obj, MetricsConfigV, VList, SMap, M.PyDict, list, MeasNew)


def reachable(roots):
    """ids -> python-side mutable objects reachable from the roots (through attrs / containers)."""
    seen = {}
    todo = list(roots)
    while todo:
        v = todo.pop()
        if isinstance(v, _MUTABLE):
            if id(v) in seen:
                continue
            seen[id(v)] = v
        if isinstance(v, Obj):
            todo.extend(v.attrs.values())
        elif isinstance(v, MetricsConfigV):
            todo.append(v.lst)
        elif isinstance(v, M.PyDict):
            for k, x in v.items():
                todo.extend([k, x])
        elif isinstance(v, (list, tuple)):
            todo.extend(v)
        elif isinstance(v, MeasNew):
            todo.append(v.metrics)
    return seen


def metric_lists(roots):
    return [v for v in reachable(roots).values() if isinstance(v, VList) and v.kind is K_MI]


def state_fingerprint(roots):
    """identity structure of the python-side state: {id(obj): {attr: id(value) | repr(scalar)}} (for frame checks)."""
    out = {}
    for i, v in reachable(roots).items():
        if isinstance(v, Obj):
            out[i] = {k: (id(x) if isinstance(x, _MUTABLE) else _scalar_fp(x)) for k, x in v.attrs.items()}
        elif isinstance(v, MetricsConfigV):
            out[i] = {'lst': id(v.lst)}
        elif isinstance(v, VList):
            out[i] = {'n': _scalar_fp(v.n), 'arr': _scalar_fp(v.arr)}
        elif isinstance(v, SMap):
            out[i] = {'dom': _scalar_fp(v.dom), 'val': _scalar_fp(v.val)}
        elif isinstance(v, M.PyDict):
            out[i] = {'items': tuple((_scalar_fp(k), id(x) if isinstance(x, _MUTABLE) else _scalar_fp(x)) for k, x in v.items())}
        elif isinstance(v, list):
            out[i] = {'items': tuple(id(x) if isinstance(x, _MUTABLE) else _scalar_fp(x) for x in v)}
    return out


def _scalar_fp(x):
    if z3.is_expr(x):
        return ('z3', x.get_id())
    if hasattr(x, 'term') and z3.is_expr(x.term):
        return (type(x).__name__, x.term.get_id())
    if isinstance(x, (int, float, str, bool, type(None))):
        return ('py', repr(x))
    return ('obj', id(x))


# ------------------------------------------------------------------------------------------ bounded model query support
# Concrete-spine versions of the symbolic structures (batch of k trials, dicts with k symbolic keys): with them the
# engine unrolls every loop, no quantifier is generated, and a `sat` answer yields a replayable input (DESIGN 2.5).
def concrete_dict(di, items):
    """dict value with the given [(key term, value term)] in this iteration order (keys assumed pairwise distinct)."""
    dom, val = z3.K(Str, z3.BoolVal(False)), z3.K(Str, z3.Const('dflt_' + di.name, di.vsort))
    keys, idx = z3.K(z3.IntSort(), pm.str_lit('')), z3.K(Str, z3.IntVal(-1))
    for i, (k, v) in enumerate(items):
        dom, val = z3.Store(dom, k, z3.BoolVal(True)), z3.Store(val, k, v)
        keys, idx = z3.Store(keys, z3.IntVal(i), k), z3.Store(idx, k, z3.IntVal(i))
    t = di.mk(dom, val, z3.IntVal(len(items)), keys, idx)
    return t


_prev_to_dictv = to_dictv


def to_dictv(it, v, di):      # noqa: F811  (a concrete-spine dict keeps its spine)
    if isinstance(v, M.PyDict) and v.items_:
        items = [(pm._lift(k, Str), di.vunwrap(it, x)) for k, x in v.items()]
        dv = DictV(di, concrete_dict(di, items))
        dv.items_conc = items
        return dv
    return _prev_to_dictv(it, v, di)


def bounded_batch(run, k, nparams, name='t'):
    """k pairwise distinct allocated trials, each with `nparams` symbolic parameters (shared names)."""
    if getattr(run, 'distinct_refs', None) is None:
        run.distinct_refs = set()
    refs = [z3.Const('%s%d' % (name, i), TRef) for i in range(k)]
    know_distinct(run, *refs)
    if len(refs) > 1:
        run.assume(z3.Distinct(*refs))
    pnames = [z3.Const('pname%d' % i, Str) for i in range(nparams)]
    if len(pnames) > 1:
        run.assume(z3.Distinct(*pnames))
    run.strings = getattr(run, 'strings', []) + pnames
    arr, pos = z3.K(z3.IntSort(), z3.Const('dflt_trial', TRef)), z3.K(TRef, z3.IntVal(-1))
    desc = []
    for i, r in enumerate(refs):
        arr, pos = z3.Store(arr, z3.IntVal(i), r), z3.Store(pos, r, z3.IntVal(i))
        vals = [z3.Const('%s%d_p%d' % (name, i, q), PVal) for q in range(nparams)]
        Hset(run, 'params', r, concrete_dict(PDI, list(zip(pnames, vals))))
        Hset(run, 'talloc', r, z3.BoolVal(True))
        fm, inf = z3.Bool('%s%d_had_fm' % (name, i)), z3.BoolVal(False)
        Hset(run, 'fmset', r, z3.BoolVal(False))
        Hset(run, 'infeas', r, inf)
        desc.append({'ref': r, 'params': list(zip(pnames, vals))})
    xs = VList(z3.IntVal(k), arr, K_TRIAL, pos)
    xs.conc = [TrialV(r) for r in refs]
    xs.desc = desc
    spare = z3.Const('spare_trial', TRef)
    run.assume(z3.And(*[spare != r for r in refs]) if refs else z3.BoolVal(True))
    Hset(run, 'talloc', spare, z3.BoolVal(True))
    Hset(run, 'params', spare, z3.Const('spare_params', PD))
    run.spare_refs = [spare]
    know_distinct(run, spare, *refs)
    return xs


def bounded_base(run, tag, bid, nmetrics, naux=1):
    """wrapped experimenter with `nmetrics` named metrics; evaluate additionally reports `naux` auxiliary metrics."""
    mrefs = [z3.Const('mi_%s_%d' % (tag, i), MIRef) for i in range(nmetrics)]
    names = [z3.Const('mname_%s_%d' % (tag, i), Str) for i in range(nmetrics)]
    aux = [z3.Const('aux_%s_%d' % (tag, i), Str) for i in range(naux)]
    goals = [z3.Int('goal_%s_%d' % (tag, i)) for i in range(nmetrics)]
    if len(mrefs) > 1:
        run.assume(z3.Distinct(*mrefs))
    if len(names + aux) > 1:
        run.assume(z3.Distinct(*(names + aux)))
    run.strings = getattr(run, 'strings', []) + names + aux
    arr, pos = z3.K(z3.IntSort(), z3.Const('dflt_mi', MIRef)), z3.K(MIRef, z3.IntVal(-1))
    for i, m in enumerate(mrefs):
        arr, pos = z3.Store(arr, z3.IntVal(i), m), z3.Store(pos, m, z3.IntVal(i))
        Hset(run, 'mialloc', m, z3.BoolVal(True))
        Hset(run, 'miname', m, names[i])
        Hset(run, 'goal', m, goals[i])
        run.assume(z3.Or(goals[i] == 1, goals[i] == 2))
    lst = VList(z3.IntVal(nmetrics), arr, K_MI, pos)
    lst.conc = [MetricInfoV(m) for m in mrefs]
    know_distinct(run, *mrefs)
    ps = Obj('ProblemStatement', {'search_space': new_search_space('base'), 'metric_information': MetricsConfigV(lst),
                                  'metadata': Obj('Metadata', {})})
    b = Obj('BaseExperimenter', {'tag': tag, 'bid': bid, '_ps': ps})
    b.names_conc, b.aux_conc, b.goals_conc, b.mrefs = names, aux, goals, mrefs
    b.names0, b.lst0 = HA(run, 'miname'), lst
    run.bases = getattr(run, 'bases', []) + [b]
    return b


_prev_named = named


def named(b, s):      # noqa: F811
    nc = getattr(b, 'names_conc', None)
    if nc is not None:
        return z3.Or(*[s == n for n in nc]) if nc else z3.BoolVal(False)
    return _prev_named(b, s)


_prev_base_evaluate = base_evaluate


def base_evaluate(it, b, arg):      # noqa: F811
    """bounded variant: the scripted experimenter reports, per trial, its named metrics plus auxiliary ones with symbolic values
    (or marks the trial infeasible, with or without a measurement)."""
    if getattr(b, 'names_conc', None) is None:
        return _prev_base_evaluate(it, b, arg)
    run = it.run
    xs = as_trial_list(it, arg)
    conc = getattr(xs, 'conc', None)
    if conc is None:
        raise Unsupported('bounded base experimenter given a symbolic batch')
    pre = heap_snapshot(run)
    call = {'base': b, 'xs': M.snapshot(xs), 'pre': pre, 'raised': False, 'script': []}
    call['xs'].conc = conc
    hook = getattr(run, 'on_base_evaluate', None)
    if hook is not None:
        hook(it, call)
    ncall = len(getattr(run, 'base_calls', []))
    for i, t in enumerate(conc):
        r = t.term
        tagn = '%s_c%d_t%d' % (b.attrs['tag'], ncall, i)
        keys = b.names_conc + b.aux_conc
        vals = [MetricS.mk(z3.Const('%s_v%d' % (tagn, q), xreal.XReal), z3.Bool('%s_hs%d' % (tagn, q)), z3.Const('%s_s%d' % (tagn, q), xreal.XReal))
                for q in range(len(keys))]
        inf, fm = z3.Bool(tagn + '_infeasible'), z3.Bool(tagn + '_has_fm')
        run.assume(z3.Or(inf, fm))
        for q in range(len(keys)):
            # a std, when present, is a non-negative finite number (Metric validator)
            run.assume(z3.Implies(MetricS.has_std(vals[q]), z3.And(xreal.is_fin(MetricS.std(vals[q])), xreal.r(MetricS.std(vals[q])) >= 0)))
        Hset(run, 'metrics', r, concrete_dict(MDI, list(zip(keys, vals))))
        Hset(run, 'fmset', r, fm)
        Hset(run, 'infeas', r, z3.Or(pre['infeas'][r], inf))
        Hset(run, 'rest', r, z3.Const(tagn + '_rest', MRest))
        call['script'].append({'ref': r, 'keys': keys, 'vals': vals, 'infeasible': inf, 'has_fm': fm})
    call['post'] = heap_snapshot(run)
    run.base_calls = getattr(run, 'base_calls', []) + [call]
    run.event('base.evaluate', b.attrs['tag'])
    return None


_prev_deepcopy3 = M.deepcopy


def _deepcopy3(it, v, memo=None):
    memo = memo if memo is not None else {}
    if isinstance(v, VList) and getattr(v, 'conc', None) is not None and v.kind in (K_TRIAL, K_MI) and id(v) not in memo:
        run = it.run
        if v.kind is K_TRIAL:
            items = [copy_trial(it, t) for t in v.conc]
        else:
            items = []
            for m in v.conc:
                r = run.fresh('micopy', MIRef)
                run.assume(z3.Not(H(run, 'mialloc')[r]))
                _fresh_ref(run, r, 'mialloc')
                for f in ('goal', 'miname', 'mirest'):
                    Hset(run, f, r, H(run, f)[m.term])
                Hset(run, 'mialloc', r, z3.BoolVal(True))
                items.append(MetricInfoV(r))
        arr, pos = z3.K(z3.IntSort(), z3.Const('dflt_' + v.kind.name, v.kind.sort)), z3.K(v.kind.sort, z3.IntVal(-1))
        for i, x in enumerate(items):
            arr, pos = z3.Store(arr, z3.IntVal(i), x.term), z3.Store(pos, x.term, z3.IntVal(i))
        r = VList(z3.IntVal(len(items)), arr, v.kind, pos)
        r.conc = items
        memo[id(v)] = r
        return r
    return _prev_deepcopy3(it, v, memo)


M.deepcopy = _deepcopy3

_prev_snapshot3 = M.snapshot


def _snapshot3(v):
    r = _prev_snapshot3(v)
    if isinstance(v, VList) and getattr(v, 'conc', None) is not None and r is not v:
        r.conc = list(v.conc)
    return r


M.snapshot = _snapshot3


def model_str_names(model, terms):
    """distinct readable names for the Str terms of a model (equal terms get the same name)."""
    classes, out = [], {}
    for t in terms:
        v = model.eval(t, model_completion=True)
        for cv, name in classes:
            if cv.eq(v):
                out[t.get_id()] = name
                break
        else:
            name = 's%d' % len(classes)
            classes.append((v, name))
            out[t.get_id()] = name
    return out, classes


def model_pvals(model, terms, lo=0.15, step=0.07):
    """distinct floats in (0, 1) for the PVal terms of a model (equal terms get the same float)."""
    classes, out = [], {}
    for t in terms:
        v = model.eval(t, model_completion=True)
        for cv, x in classes:
            if cv.eq(v):
                out[t.get_id()] = x
                break
        else:
            x = round(lo + step * len(classes), 4)
            classes.append((v, x))
            out[t.get_id()] = x
    return out


# ------------------------------------------------------------------------------------------ tables of the wrappers
# Any Dict[str, Dict[value, value]] is exactly characterised by three functions (has, dom, apply); any
# Mapping[str, Sequence[value]] by (has, contains).  The wrappers' lookup tables are abstracted that way (fully general).
perm_has = z3.Function('perm_has', z3.IntSort(), Str, z3.BoolSort())
perm_dom = z3.Function('perm_dom', z3.IntSort(), Str, PVal, z3.BoolSort())
perm_apply = z3.Function('perm_apply', z3.IntSort(), Str, PVal, PVal)
disc_has = z3.Function('disc_has', z3.IntSort(), Str, z3.BoolSort())
feas_contains = z3.Function('feas_contains', z3.IntSort(), Str, PVal, z3.BoolSort())


class PermTable:
    def __init__(self, tid, names=None):
        self.tid = z3.IntVal(tid)
        self.names = names            # concrete-spine runs: the permuted parameter names (exactly these are keys)


class PermRow:
    def __init__(self, table, name):
        self.table, self.name = table, name


class DiscTable:
    def __init__(self, tid):
        self.tid = z3.IntVal(tid)


class FeasV:
    def __init__(self, table, name):
        self.table, self.name = table, name


def _tables_subscript(it, base, idx):
    if isinstance(base, PermTable):
        k = pm._lift(idx, Str)
        if not it.truth(perm_has(base.tid, k)):
            raise PyRaise(it.make_exc('KeyError', [idx]))
        return PermRow(base, k)
    if isinstance(base, PermRow):
        if not isinstance(idx, (RawV, PValV)):
            raise Unsupported('permutation lookup of %r' % (idx,))
        if not it.truth(perm_dom(base.table.tid, base.name, idx.term)):
            raise PyRaise(it.make_exc('KeyError', [idx]))
        return RawV(perm_apply(base.table.tid, base.name, idx.term))
    if isinstance(base, DiscTable):
        if isinstance(idx, Abs):
            return Abs('feasible values')
        k = pm._lift(idx, Str)
        if not it.truth(disc_has(base.tid, k)):
            raise PyRaise(it.make_exc('KeyError', [idx]))
        return FeasV(base, k)
    return M.MISSING


def _tables_contains(it, container, x):
    if isinstance(container, PermTable):
        return fresh_bool(it, 'in') if isinstance(x, Abs) else perm_has(container.tid, pm._lift(x, Str))
    if isinstance(container, DiscTable):
        return fresh_bool(it, 'in') if isinstance(x, Abs) else disc_has(container.tid, pm._lift(x, Str))
    if isinstance(container, FeasV):
        if isinstance(x, (RawV, PValV)):
            return feas_contains(container.table.tid, container.name, x.term)
        return fresh_bool(it, 'in')
    return M.MISSING


def _tables_getattr(it, v, a):
    if isinstance(v, PermTable) and v.names is not None and a in ('keys', 'items', 'values'):
        rows = [(n, PermRow(v, n)) for n in v.names]
        return _bi(a, lambda it_, args, kw: [r if a == 'items' else (r[0] if a == 'keys' else r[1]) for r in rows])
    if isinstance(v, (DiscTable, PermTable)) and a in ('keys', 'items', 'values'):
        return _bi(a, lambda it_, args, kw: Abs('table.' + a))
    return M.MISSING


_chain('subscript_hook', _tables_subscript)
_chain('contains_hook', _tables_contains)
_chain('value_getattr_hook', _tables_getattr)

_prev_truth4 = M.truth_hook


def _truth4(it, v):
    if isinstance(v, (PermTable, PermRow, DiscTable, FeasV, MetricsConfigV)):
        return True
    return _prev_truth4(it, v)


M.truth_hook = _truth4

_prev_fresh_like4 = M.fresh_like


def _fresh_like4(it, v, name):
    if isinstance(v, (PermTable, PermRow, DiscTable, FeasV, MetricsConfigV)):
        return v
    return _prev_fresh_like4(it, v, name)


M.fresh_like = _fresh_like4

_prev_dict_comprehension = dict_comprehension


def dict_comprehension(it, fr, e, xs):      # noqa: F811
    """comprehensions whose keys are opaque values give an opaque dict."""
    gen = e.generators[0]
    probe = xs.get(z3.Int('probe!dc'))
    flat = probe if isinstance(probe, tuple) else (probe,)
    if any(isinstance(x, Abs) for x in flat):
        return Abs('dict of opaque values')
    return _prev_dict_comprehension(it, fr, e, xs)


# ------------------------------------------------------------------------------------------ small language additions
class SuperV:
    def __init__(self, cls):
        self.cls = cls


def _b_super(it, args, kw):
    fv = it.stack[-1] if it.stack else None
    if fv is None or fv.cls is None or args:
        raise Unsupported('super() outside a method / with arguments')
    return SuperV(fv.cls)


M.BUILTINS['super'] = Builtin('super', _b_super)


def _super_getattr(it, v, a):
    if isinstance(v, SuperV):
        for c in E.mro(v.cls)[1:]:
            if isinstance(c, E.ClassInfo) and a in c.methods:
                raise Unsupported('super().%s resolves to %s.%s (a base class with behaviour)' % (a, c.qualname, a))
        if a in ('__init__', '__init_subclass__', '__post_init__'):
            return _bi('object.' + a, lambda it_, args, kw: None)
        raise Unsupported('super().%s' % a)
    return M.MISSING


_chain('value_getattr_hook', _super_getattr)

_prev_assign = E.Interp.assign


def _assign(self, fr, t, v):
    if isinstance(t, (ast.Tuple, ast.List)) and isinstance(v, Abs):
        for x in t.elts:
            _assign(self, fr, x.value if isinstance(x, ast.Starred) else x, Abs(v.what + '[]'))
        return
    return _prev_assign(self, fr, t, v)


E.Interp.assign = _assign

_prev_smap_set = SMap.set


def _smap_set(self, it, k, v):
    if isinstance(k, Abs):
        # a write under an unknown key: the whole dict is unknown afterwards
        run = it.run
        if self.di is not None:
            self.dom = run.fresh(self.name + '_dom', z3.ArraySort(Str, z3.BoolSort()))
            self.val = run.fresh(self.name + '_val', z3.ArraySort(Str, self.di.vsort))
            self.src = run.fresh(self.name + '_src', z3.ArraySort(Str, z3.IntSort()))
        return
    return _prev_smap_set(self, it, k, v)


SMap.set = _smap_set


# ------------------------------------------------------------------------------------------ normalisation tables
# Dict[str, float]: characterised by (has, value).
norm_has = z3.Function('norm_has', z3.IntSort(), Str, z3.BoolSort())
norm_val = z3.Function('norm_value', z3.IntSort(), Str, xreal.XReal)


class NormTable:
    def __init__(self, tid, role):
        self.tid, self.role = z3.IntVal(tid), role


def _norm_subscript(it, base, idx):
    if isinstance(base, NormTable):
        k = pm._lift(idx, Str)
        if not it.truth(norm_has(base.tid, k)):
            raise PyRaise(it.make_exc('KeyError', [idx]))
        return norm_val(base.tid, k)
    return M.MISSING


def _norm_contains(it, container, x):
    if isinstance(container, NormTable):
        return norm_has(container.tid, pm._lift(x, Str))
    return M.MISSING


_chain('subscript_hook', _norm_subscript)
_chain('contains_hook', _norm_contains)

_prev_truth5 = M.truth_hook


def _truth5(it, v):
    if isinstance(v, NormTable):
        return True
    return _prev_truth5(it, v)


M.truth_hook = _truth5

_prev_fresh_like5 = M.fresh_like


def _fresh_like5(it, v, name):
    if isinstance(v, NormTable):
        return v
    return _prev_fresh_like5(it, v, name)


M.fresh_like = _fresh_like5


# ------------------------------------------------------------------------------------------ parameter configs with feasible values (Permuting)
class ParamConfigV:
    """a ParameterConfig with finitely many feasible values: name, feasible_values (pairwise distinct raw values, as guaranteed by
    ParameterConfig's sorted-unique normalisation, C16), and the python type of those values (tag: 0 float, 1 str, 2 int)."""

    def __init__(self, name, fv, tag, finite):
        self.name, self.fv, self.tag, self.finite = name, fv, tag, finite


class NpArrayV(VList):
    """numpy array produced from a list of python values: elements are numpy scalars of the list's element type."""
    pass


def make_param_config(run, name, k):
    n = z3.Int('nfeas_%d' % k)
    arr = z3.Const('feas_%d' % k, z3.ArraySort(z3.IntSort(), PVal))
    fidx = z3.Const('feasidx_%d' % k, z3.ArraySort(PVal, z3.IntSort()))
    run.assume(n >= 0)
    j = z3.Int('j!pc')
    run.axiom(z3.ForAll([j], z3.Implies(z3.And(j >= 0, j < n), fidx[arr[j]] == j)))      # pairwise distinct
    fv = VList(n, arr, K_RAW)
    fv.fidx = fidx
    return ParamConfigV(name, fv, z3.Int('feastype_%d' % k), z3.Bool('finite_feasible_%d' % k))


def rng_permuted(it, rng, args, kw):
    """numpy Generator.permuted(x) (assumed contract): a permutation of x's entries, as an ndarray (numpy scalars)."""
    run = it.run
    xs = args[0]
    if not (isinstance(xs, VList) and xs.kind is K_RAW):
        return Abs('permuted')
    k = len(getattr(run, 'permutations', []))
    sig = run.fresh('sigma', z3.ArraySort(z3.IntSort(), z3.IntSort()))
    tau = run.fresh('tau', z3.ArraySort(z3.IntSort(), z3.IntSort()))
    arr = run.fresh('permuted', z3.ArraySort(z3.IntSort(), PVal))
    j = z3.Int('j!pm')
    inr = z3.And(j >= 0, j < xs.n)
    run.axiom(z3.ForAll([j], z3.Implies(inr, z3.And(sig[j] >= 0, sig[j] < xs.n, tau[sig[j]] == j, arr[j] == xs.arr[sig[j]]))))
    run.axiom(z3.ForAll([j], z3.Implies(inr, z3.And(tau[j] >= 0, tau[j] < xs.n, sig[tau[j]] == j))))
    r = NpArrayV(xs.n, arr, K_RAW)
    r.source, r.sigma, r.tau = xs, sig, tau
    run.permutations = getattr(run, 'permutations', []) + [r]
    return r


class RngV:
    pass


def _pc_getattr(it, v, a):
    if isinstance(v, ParamConfigV):
        if a == 'name':
            return v.name
        if a == 'feasible_values':
            return v.fv
        if a == 'num_feasible_values':
            return v
        return Abs('parameter_config.' + a)
    if isinstance(v, RngV):
        if a == 'permuted':
            return _bi('permuted', lambda it_, args, kw: rng_permuted(it_, v, args, kw))
        return Abs('rng.' + a)
    return M.MISSING


_chain('value_getattr_hook', _pc_getattr)

_prev_isfinite = E.EXTERNAL['numpy.isfinite'].fn


def _np_isfinite(it, args, kw):
    if args and isinstance(args[0], ParamConfigV):
        return args[0].finite
    return _prev_isfinite(it, args, kw)


E.EXTERNAL['numpy.isfinite'] = Builtin('numpy.isfinite', _np_isfinite)
_prev_default_rng = E.EXTERNAL['numpy.random.default_rng'].fn
E.EXTERNAL['numpy.random.default_rng'] = Builtin('numpy.random.default_rng', lambda it, args, kw: RngV() if getattr(it.run, 'space_model', None) else _prev_default_rng(it, args, kw))

_prev_obj_getattr6 = M.obj_getattr


def _obj_getattr6(it, o, a):
    if isinstance(o, Obj) and o.cls == 'SearchSpace' and a == 'get' and getattr(it.run, 'space_model', None) is not None:
        return _bi('SearchSpace.get', lambda it_, args, kw: it_.run.space_model(it_, args[0]))
    return _prev_obj_getattr6(it, o, a)


M.obj_getattr = _obj_getattr6

_prev_truth6 = M.truth_hook


def _truth6(it, v):
    if isinstance(v, (ParamConfigV, RngV, RawMap)):
        return True
    return _prev_truth6(it, v)


M.truth_hook = _truth6


# ------------------------------------------------------------------------------------------ indexing a python list with a raw parameter value
raw_index = z3.Function('raw_value_as_index', PVal, z3.IntSort())
_prev_subscript7 = M.subscript


def _subscript7(it, base, idx):
    if it.pure and isinstance(base, SymList) and isinstance(idx, int) and not isinstance(idx, bool) and idx >= 0:
        # inside a definitional comprehension no path can fork: the element term is used as is (the surrounding code is
        # responsible for the index being in range; recorded as an assumption)
        it.run.assumed.add('a constant index into a list inside a comprehension is in range')
        return base.get(z3.IntVal(idx))
    if isinstance(base, (list, tuple)) and isinstance(idx, (RawV, PValV)):
        k = raw_index(idx.term)
        for pos in range(len(base)):
            if it.truth(z3.Or(k == pos, k == pos - len(base))):
                return base[pos]
        raise PyRaise(it.make_exc('IndexError', ['list index out of range']))
    return _prev_subscript7(it, base, idx)


M.subscript = _subscript7


# ------------------------------------------------------------------------------------------ recording RNG constructions (seeded reproducibility)
class PartialV:
    """functools.partial(f, *args, **kw) (recorded, never called by the contracts)."""

    def __init__(self, fn, args, kw):
        self.fn, self.args, self.kw = fn, list(args), dict(kw)


_prev_default_rng8 = E.EXTERNAL['numpy.random.default_rng'].fn


def _default_rng8(it, args, kw):
    rec = getattr(it.run, 'rng_constructions', None)
    if rec is None:
        return _prev_default_rng8(it, args, kw)
    r = RngV()
    r.seed_arg = args[0] if args else kw.get('seed')          # default_rng() / default_rng(None): OS entropy
    rec.append(r)
    return r


E.EXTERNAL['numpy.random.default_rng'] = Builtin('numpy.random.default_rng', _default_rng8)
_prev_partial8 = E.EXTERNAL['functools.partial'].fn


def _partial8(it, args, kw):
    rec = getattr(it.run, 'partials', None)
    if rec is None:
        return _prev_partial8(it, args, kw)
    p = PartialV(args[0], args[1:], kw)
    rec.append(p)
    return p


E.EXTERNAL['functools.partial'] = Builtin('functools.partial', _partial8)
for _n in ('RandomState', 'seed', 'random', 'normal', 'uniform', 'rand', 'randn', 'randint', 'choice', 'permutation', 'shuffle', 'lognormal',
           'standard_cauchy'):
    def _global_np_random(it, args, kw, _n=_n):
        rec = getattr(it.run, 'ambient_random', None)
        if rec is not None:
            rec.append('numpy.random.' + _n)
        return Abs('np.random.' + _n)
    if _n != 'RandomState' or True:
        _prev = E.EXTERNAL.get('numpy.random.' + _n)
        if _prev is None:
            E.EXTERNAL['numpy.random.' + _n] = Builtin('numpy.random.' + _n, _global_np_random)

_prev_truth8 = M.truth_hook


def _truth8(it, v):
    if isinstance(v, PartialV):
        return True
    return _prev_truth8(it, v)


M.truth_hook = _truth8
_prev_fresh_like8 = M.fresh_like


def _fresh_like8(it, v, name):
    if isinstance(v, (PartialV, RngV)):
        return v
    return _prev_fresh_like8(it, v, name)


M.fresh_like = _fresh_like8


# ------------------------------------------------------------------------------------------ numpy scalar functions on extended reals
def _xnum(v):
    return xreal.is_x(v) or (isinstance(v, (int, float)) and not isinstance(v, bool)) or (z3.is_expr(v) and v.sort() in (z3.IntSort(), z3.RealSort()))


def x_min(a, b):
    """numpy minimum / python min on floats: NaN propagates (numpy semantics)"""
    X = xreal
    return z3.If(z3.Or(X.is_nan(a), X.is_nan(b)), X.nan, z3.If(X.lt(b, a), b, a))


def x_max(a, b):
    X = xreal
    return z3.If(z3.Or(X.is_nan(a), X.is_nan(b)), X.nan, z3.If(X.lt(a, b), b, a))


def _np_scalar(name, fn, nargs):
    prev = E.EXTERNAL.get('numpy.' + name)

    def f(it, args, kw):
        vals = list(args[:nargs])
        if name == 'clip':
            vals = [args[0], args[1] if len(args) > 1 else kw.get('a_min'), args[2] if len(args) > 2 else kw.get('a_max')]
        if len(vals) == nargs and all(v is None or _xnum(v) for v in vals) and _xnum(vals[0]):
            return fn(*[xreal.lift(v) if v is not None else None for v in vals])
        if prev is not None:
            return prev.fn(it, args, kw)
        return Abs('np.' + name)
    E.EXTERNAL['numpy.' + name] = Builtin('numpy.' + name, f)


def _x_clip(x, lo, hi):
    r = x
    if lo is not None:
        r = x_max(r, lo)
    if hi is not None:
        r = x_min(r, hi)
    return r


_np_scalar('clip', _x_clip, 3)
_np_scalar('minimum', x_min, 2)
_np_scalar('maximum', x_max, 2)
_np_scalar('abs', lambda a: z3.If(xreal.sign_neg(a), xreal.neg(a), a), 1)
_np_scalar('absolute', lambda a: z3.If(xreal.sign_neg(a), xreal.neg(a), a), 1)
_np_scalar('fabs', lambda a: z3.If(xreal.sign_neg(a), xreal.neg(a), a), 1)


# ------------------------------------------------------------------------------------------ dict(...) / {**a, **b} over symbolic contents
def _pairs_list(it, v):
    """a symbolic list whose elements are (key, value) pairs, or None."""
    if isinstance(v, ZipList) and len(v.parts) == 2:
        return v
    if isinstance(v, ItemsList) and v.what == 'items':
        return v
    return None


_prev_b_dict = M.BUILTINS['dict'].fn


def _b_dict(it, args, kw):
    if args:
        src = args[0]
        if isinstance(src, Abs) or (isinstance(src, VList) and src.kind is K_ABS):
            return Abs('dict')
        if isinstance(src, RawMap):
            return src                     # a copy of an (immutable in this model) value-keyed dict
        if isinstance(src, PDictV):
            src = pd_content(it, src)
        if isinstance(src, (DictV, SMap)):
            di = src.di
            if di is None:
                raise Unsupported('dict() of an untyped dict under construction')
            dom, val, _ = view(it, src, di)
            m = SMap('dictcopy', di, dom, val, z3.K(Str, z3.IntVal(-1)))
            for k, x in kw.items():
                m.set(it, k, x)
            return m
        xs = _pairs_list(it, src)
        if isinstance(xs, VList) and xs.kind is K_ABS:
            return Abs('dict of opaque values')
        if xs is not None and M.try_iterate(it, xs) is None:
            J = it.run.fresh('dj', z3.IntSort())
            pair = xs.get(J)
            if isinstance(pair, Abs) or any(isinstance(x, Abs) for x in pair):
                return Abs('dict of opaque values')
            m = dict_from_pairs(it, xs, J, z3.BoolVal(True), pair[0], pair[1])
            if kw:
                if not isinstance(m, SMap):
                    raise Unsupported('dict(pairs, **kw) with non-string keys')
                for k, x in kw.items():
                    m.set(it, k, x)
            return m
    return _prev_b_dict(it, args, kw)


M.BUILTINS['dict'] = Builtin('dict', _b_dict)

_prev_e_Dict = E.Interp.e_Dict


def _e_Dict(self, fr, e):
    """{**a, **b, k: v}: with symbolic operands the result is the right-biased union (same construction as item stores)."""
    if not any(k is None for k in e.keys):
        return _prev_e_Dict(self, fr, e)
    parts = [(None if k is None else self.eval(fr, k), self.eval(fr, v)) for k, v in zip(e.keys, e.values)]
    if not any(k is None and isinstance(v, (SMap, DictV, PDictV, Abs)) for k, v in parts):
        return _prev_e_Dict(self, fr, e)
    if any(k is None and isinstance(v, Abs) for k, v in parts):
        return Abs('dict')
    di = None
    for k, v in parts:
        if k is None:
            if isinstance(v, PDictV):
                di = di or PDI
            elif isinstance(v, (DictV, SMap)) and v.di is not None:
                di = di or v.di
    if di is None:
        raise Unsupported('dict display over untyped symbolic dicts')
    m = empty_smap(di, 'dictunion')
    for k, v in parts:
        if k is not None:
            m.set(self, k, v)
            continue
        if isinstance(v, PDictV):
            v = pd_content(self, v)
        dom, val, _ = view(self, v, di)
        s_ = z3.Const('s!du', Str)
        m.dom = z3.Lambda([s_], z3.Or(m.dom[s_], dom[s_]))
        m.val = z3.Lambda([s_], z3.If(dom[s_], val[s_], m.val[s_]))
    return m


E.Interp.e_Dict = _e_Dict


class PairList(SymList):
    """[(k(x), v(x), ...) for x in xs]: a symbolic list of tuples, defined pointwise."""

    def __init__(self, xs, J, elems):
        SymList.__init__(self, xs.n, xs.arr, 'tuple')
        self.xs, self.J, self.elems = xs, J, elems        # elems: [(Kind, term)]

    def get(self, i):
        return tuple(k.wrap(z3.substitute(t, (self.J, i))) for k, t in self.elems)


_prev_filter_map9 = M.symbolic_filter_map


def _filter_map9(it, fr, e, xs):
    if isinstance(xs, (VList, ZipList, EnumList, ItemsList)) and isinstance(e.elt, ast.Tuple) and not e.generators[0].ifs:
        run = it.run
        J = run.fresh('cj', z3.IntSort())
        fr2 = E.Frame(fr.mod, {}, parent=fr)
        it.pure += 1
        try:
            it.assign(fr2, e.generators[0].target, xs.get(J))
            vals = [it.eval(fr2, x) for x in e.elt.elts]
        finally:
            it.pure -= 1
        if any(isinstance(v, Abs) for v in vals):
            r = abs_list(it)
            r.n = xs.n
            return r
        kinds = [kind_of_value(v) for v in vals]
        if all(k is not None for k in kinds):
            return PairList(xs, J, [(k, k.unwrap(it, v)) for k, v in zip(kinds, vals)])
    return _prev_filter_map9(it, fr, e, xs)


M.symbolic_filter_map = _filter_map9
_prev_pairs_list = _pairs_list


def _pairs_list(it, v):      # noqa: F811
    if isinstance(v, PairList) and len(v.elems) == 2:
        return v
    if isinstance(v, M.LazyGen) and isinstance(v.e.elt, ast.Tuple) and len(v.e.elt.elts) == 2 and not v.e.generators[0].ifs \
            and isinstance(v.xs, (VList, ZipList, EnumList, ItemsList)):
        return _filter_map9(it, v.fr, v.e, v.xs)
    return _prev_pairs_list(it, v)
