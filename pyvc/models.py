"""Models of Python builtins, containers, protobuf messages and a few library calls (DESIGN.md 4.2, 4.4).

Everything here is the encoding's statement of language/library semantics: trusted, written once,
exercised by the engine-vs-CPython cross-check.
"""
import ast

import z3

from . import xreal
from . import protomodel as pm
from .protomodel import Msg, SymList, Str, Bytes, MsgSchema
from .source import ClassInfo, ModuleInfo
from . import engine as E
from .engine import (Unsupported, PyRaise, PyReturn, PathEnd, Obj, ExcObj, FuncVal, Bound, Builtin, ModRef, PbRef,
                     ExtRef, BuiltinClass, SymDict, Cell, EXTERNAL, zand, zor, znot, zbool, eq_values, to_z3, as_int)

MISSING = object()
INPLACE_DONE = object()
STRICT_ATTR = False


# ------------------------------------------------------------------------------------------ containers
class PyDict:
    """insertion-ordered dict; keys may be symbolic (lookups fork on key equality)."""

    def __init__(self, default_factory=None):
        self.items_ = []
        self.default_factory = default_factory

    def find(self, it, k):
        for idx, (ek, _) in enumerate(self.items_):
            c = eq_values(k, ek)
            if isinstance(c, bool):
                if c:
                    return idx
            elif it.truth(c):
                return idx
        return None

    def set(self, it, k, v):
        i = self.find(it, k)
        if i is None:
            self.items_.append([k, v])
        else:
            self.items_[i][1] = v

    def get(self, it, k, default=MISSING):
        i = self.find(it, k)
        if i is None:
            if default is MISSING:
                if self.default_factory is not None:
                    v = it.call(self.default_factory, [], {})
                    self.items_.append([k, v])
                    return v
                raise PyRaise(it.make_exc('KeyError', [k]))
            return default
        return self.items_[i][1]

    def items(self):
        return [(k, v) for k, v in self.items_]

    def keys(self):
        return [k for k, _ in self.items_]

    def values(self):
        return [v for _, v in self.items_]

    def __len__(self):
        return len(self.items_)


class PySet:
    def __init__(self):
        self.elems = []

    def find(self, it, k):
        for idx, ek in enumerate(self.elems):
            c = eq_values(k, ek)
            if isinstance(c, bool):
                if c:
                    return idx
            elif it.truth(c):
                return idx
        return None

    def add(self, it, k):
        if self.find(it, k) is None:
            self.elems.append(k)

    def __len__(self):
        return len(self.elems)


def make_set(it, elems):
    s = PySet()
    for x in elems:
        s.add(it, x)
    return s


class LockTable:
    def __init__(self, name):
        self.name = name


class VolatileIntMap:
    """In-memory integer-valued map attribute of a service object (e.g. collections.defaultdict(int)).  It is NOT part of the
    datastore view: a restarted server starts with its __init__ value while the datastore persists, and a long-running one
    holds whatever it accumulated -- so at the entry of an RPC nothing relates it to the datastore.  Model: reading a key
    yields an unconstrained non-negative integer (the same term for the same key on a path), writing updates it.  A
    counter-model that depends on it is only reported when it replays natively (service_replay 'RestartServer')."""

    def __init__(self, name):
        self.name = name
        self.vals = []          # [(key value, z3 Int)]


class LockRef:
    def __init__(self, table, key):
        self.table, self.key = table, key


class LockObj:
    def __init__(self, name):
        self.name = name


class OpaqueObj:
    """An opaque python object denoted by a term of sort PyObj; attribute access and method calls are
    uninterpreted functions of it (deterministic, nothing else assumed)."""

    _FN = {}

    def __init__(self, term, via=None):
        self.term, self.via = term, via

    @classmethod
    def fn(cls, name, sorts):
        key = (name, tuple(str(s) for s in sorts))
        if key not in cls._FN:
            cls._FN[key] = z3.Function('py_' + name + '_%d' % len(cls._FN), *(list(sorts) + [pm.PyObj]))
        return cls._FN[key]

    def attr(self, name):
        return OpaqueObj(OpaqueObj.fn('attr_' + name, [pm.PyObj])(self.term), via=(self, name))

    def call(self, it, args, kw):
        base, name = self.via if self.via else (self, '__call__')
        zargs = [base.term]
        for a in list(args) + [kw[k] for k in sorted(kw)]:
            try:
                zargs.append(to_z3(a))
            except Unsupported:
                zargs.append(it.run.fresh('arg', pm.PyObj))
        return OpaqueObj(OpaqueObj.fn('call_' + name, [a.sort() for a in zargs])(*zargs))


class Opaque:
    """A python value we know nothing about except identity (e.g. a datetime)."""

    def __init__(self, what, term=None):
        self.what, self.term = what, term

    def __repr__(self):
        return '<opaque %s>' % self.what


# ------------------------------------------------------------------------------------------ strings
_FSTR = {}
int2str = z3.Function('int2str', z3.IntSort(), Str)
str2int = z3.Function('str2int', Str, z3.IntSort())
is_int_str = z3.Function('is_int_str', Str, z3.BoolSort())
canonical_int_str = z3.Function('canonical_int_str', Str, z3.BoolSort())
exc_str = z3.Function('exc_str', z3.IntSort(), Str)


def str_of_int(it, t):
    """str(i): injective, int(str(i)) == i (instantiated on demand)."""
    if not z3.is_expr(t):
        return str(t)
    s = int2str(t)
    key = ('int2str', t.get_id())
    if key not in it.run.instantiated:
        it.run.instantiated.add(key)
        it.run.assume(str2int(s) == t)
        it.run.assume(is_int_str(s))
        it.run.assume(canonical_int_str(s))
    return s


def int_of_str(it, s):
    """int(s): ValueError unless s is an integer literal; int(str(i)) == i."""
    if isinstance(s, str):
        try:
            return int(s)
        except ValueError:
            raise PyRaise(it.make_exc('ValueError', ['invalid literal for int()']))
    if not it.truth(is_int_str(s)):
        raise PyRaise(it.make_exc('ValueError', ['invalid literal for int()']))
    key = ('str2int', s.get_id())
    v = str2int(s)
    if key not in it.run.instantiated:
        it.run.instantiated.add(key)
        # canonical decimal strings are the image of int2str
        it.run.assume(z3.Implies(canonical_int_str(s), int2str(v) == s))
    return v


def format_string(it, parts):
    """f-string / str.format / %-format: concrete if all parts are concrete, else a deterministic
    uninterpreted function of the template applied to the symbolic arguments."""
    if all(k == 's' or isinstance(v, (str, int, float, bool, type(None))) for k, v in parts):
        return ''.join(v if k == 's' else str(v) for k, v in parts)
    tmpl = tuple(v if k == 's' else None for k, v in parts)
    args = []
    for k, v in parts:
        if k == 'v':
            try:
                args.append(to_z3(v))
            except Unsupported:
                args.append(opaque_str_of(it, v))
    key = (tmpl, tuple(a.sort().name() for a in args))
    if key not in _FSTR:
        _FSTR[key] = z3.Function('fstr!%d' % len(_FSTR), *([a.sort() for a in args] + [Str]))
    return _FSTR[key](*args)


def opaque_str_of(it, v):
    return it.run.fresh('strof', Str)


def b_str(it, args, kw):
    if not args:
        return ''
    v = args[0]
    if isinstance(v, str):
        return v
    if isinstance(v, (int, float, bool)) or v is None:
        return str(v)
    if z3.is_expr(v):
        if v.sort() == Str:
            return v
        if v.sort() == z3.IntSort():
            return str_of_int(it, v)
    return opaque_str_of(it, v)


def b_repr(it, args, kw):
    v = args[0]
    if isinstance(v, (str, int, float, bool)) or v is None:
        return repr(v)
    return opaque_str_of(it, v)


def b_int(it, args, kw):
    if not args:
        return 0
    v = args[0]
    if isinstance(v, (int, float, bool)):
        try:
            return int(v)
        except (OverflowError, ValueError) as e:
            raise PyRaise(it.make_exc(type(e).__name__, [str(e)]))
    if isinstance(v, str):
        return int_of_str(it, v)
    if z3.is_expr(v):
        s = v.sort()
        if s == z3.IntSort():
            return v
        if s == z3.BoolSort():
            return as_int(v)
        if s == Str:
            return int_of_str(it, v)
        if s == xreal.XReal:
            if it.truth(xreal.is_nan(v)):
                raise PyRaise(it.make_exc('ValueError', ['cannot convert float NaN to integer']))
            if it.truth(z3.Not(xreal.is_fin(v))):
                raise PyRaise(it.make_exc('OverflowError', ['cannot convert float infinity to integer']))
            r = xreal.r(v)
            # truncation toward zero
            return z3.If(r >= 0, z3.ToInt(r), -z3.ToInt(-r))
    if isinstance(v, Obj):
        c, m = E.find_method(v.cls, '__int__') if isinstance(v.cls, ClassInfo) else (None, None)
        if m is not None:
            return it.invoke(FuncVal(c.mod, m, c), [v], {})
    raise Unsupported('int(%r)' % (v,))


float_of_str = z3.Function('float_of_str', Str, xreal.XReal)
is_float_str = z3.Function('is_float_str', Str, z3.BoolSort())


def b_float(it, args, kw):
    if not args:
        return 0.0
    v = args[0]
    if isinstance(v, (int, float, bool)):
        return float(v)
    if isinstance(v, str):
        try:
            return float(v)
        except ValueError:
            raise PyRaise(it.make_exc('ValueError', ['could not convert string to float']))
    if z3.is_expr(v):
        s = v.sort()
        if s == xreal.XReal:
            return v
        if s in (z3.IntSort(), z3.BoolSort(), z3.RealSort()):
            return xreal.lift(v)
        if s == Str:
            if not it.truth(is_float_str(v)):
                raise PyRaise(it.make_exc('ValueError', ['could not convert string to float']))
            return float_of_str(v)
    raise Unsupported('float(%r)' % (v,))


def b_bool(it, args, kw):
    if not args:
        return False
    return it.truth_term(args[0])


def b_len(it, args, kw):
    v = args[0]
    if isinstance(v, (list, tuple, str, bytes, dict, PyDict, PySet)):
        return len(v)
    if isinstance(v, SymList):
        return v.n
    if isinstance(v, Obj) and isinstance(v.cls, ClassInfo):
        c, m = E.find_method(v.cls, '__len__')
        if m is not None:
            return it.invoke(FuncVal(c.mod, m, c), [v], {})
    r = len_hook(it, v)
    if r is not MISSING:
        return r
    raise Unsupported('len(%r)' % (v,))


def len_hook(it, v):
    return MISSING


def b_isinstance(it, args, kw):
    o, cs = args
    cs = cs if isinstance(cs, tuple) else (cs,)
    return any_true(it, [isinstance_one(it, o, c) for c in cs])


def any_true(it, cs):
    return zor(*cs)


PY_TYPE_NAMES = {'int', 'float', 'str', 'bool', 'list', 'tuple', 'dict', 'set', 'bytes', 'type', 'object', 'frozenset'}


def isinstance_one(it, o, c):
    name = None
    if isinstance(c, Builtin) and c.name in PY_TYPE_NAMES:
        name = c.name
    if isinstance(c, BuiltinClass):
        name = c.name
    if name is not None:
        if name == 'object':
            return True
        if isinstance(o, bool):
            return name in ('bool', 'int')
        if isinstance(o, int):
            return name == 'int'
        if isinstance(o, float):
            return name == 'float'
        if isinstance(o, str):
            return name == 'str'
        if isinstance(o, bytes):
            return name == 'bytes'
        if isinstance(o, list):
            return name == 'list'
        if isinstance(o, SymList):
            return name == 'list' and o.owner is None
        if isinstance(o, tuple):
            return name == 'tuple'
        if isinstance(o, (dict, PyDict)):
            return name == 'dict'
        if isinstance(o, PySet):
            return name in ('set', 'frozenset')
        if z3.is_expr(o):
            s = o.sort()
            if s == z3.BoolSort():
                return name in ('bool', 'int')
            if s == z3.IntSort():
                return name == 'int'
            if s in (xreal.XReal, z3.RealSort()):
                return name == 'float'
            if s == Str:
                return name == 'str'
            if s == Bytes:
                return name == 'bytes'
            r = isinstance_hook(it, o, name)
            if r is not MISSING:
                return r
            return False
        if isinstance(o, ExcObj):
            if isinstance(o.cls, E.AnyExc):
                return it.anyexc_is(o.cls, BuiltinClass(name))
            return E.is_subclass(o.cls, BuiltinClass(name))
        if o is None or isinstance(o, (Obj, Msg, FuncVal, Bound, ClassInfo)):
            return False
        r = isinstance_hook(it, o, name)
        if r is not MISSING:
            return r
        return False
    if isinstance(c, ClassInfo):
        if isinstance(o, ExcObj) and isinstance(o.cls, E.AnyExc):
            return it.anyexc_is(o.cls, c)
        if isinstance(o, Obj):
            return E.is_subclass(o.cls, c)
        r = isinstance_hook(it, o, c)
        if r is not MISSING:
            return r
        return False
    if isinstance(c, PbRef):
        k = pm.lookup_pb2(c.module, list(c.path))
        if k and k[0] == 'msg':
            return isinstance(o, Msg) and o.schema.fq == k[1].fq
        return False
    if isinstance(c, ExtRef):
        if isinstance(o, ExcObj):
            t = BuiltinClass(E._ext_exc_name(c.dotted))
            if isinstance(o.cls, E.AnyExc):
                return it.anyexc_is(o.cls, t)
            return E.is_subclass(o.cls, t)
        if c.dotted == 'google.protobuf.message.Message':
            return isinstance(o, Msg)
        r = isinstance_hook(it, o, c)
        if r is not MISSING:
            return r
        return False
    raise Unsupported('isinstance(%r, %r)' % (o, c))


def isinstance_hook(it, o, c):
    return MISSING


def b_range(it, args, kw):
    if all(isinstance(a, int) for a in args):
        return list(range(*args))
    return SymRange(*args) if len(args) <= 3 else None


class SymRange:
    def __init__(self, *a):
        if len(a) == 1:
            self.lo, self.hi = 0, a[0]
        else:
            self.lo, self.hi = a[0], a[1]
        self.step = a[2] if len(a) > 2 else 1


def b_enumerate(it, args, kw):
    xs = try_iterate(it, args[0])
    if xs is None:
        raise Unsupported('enumerate over symbolic collection')
    start = args[1] if len(args) > 1 else kw.get('start', 0)
    return [(start + i, x) for i, x in enumerate(xs)]


def b_zip(it, args, kw):
    ls = [try_iterate(it, a) for a in args]
    if any(l is None for l in ls):
        raise Unsupported('zip over symbolic collection')
    return [tuple(t) for t in zip(*ls)]


def b_list(it, args, kw):
    if not args:
        return []
    v = args[0]
    if isinstance(v, SymList):
        return SymList(v.n, v.arr, v.elem)
    xs = try_iterate(it, v)
    if xs is None:
        raise Unsupported('list(%r)' % (v,))
    return list(xs)


def b_tuple(it, args, kw):
    if not args:
        return ()
    xs = try_iterate(it, args[0])
    if xs is None:
        raise Unsupported('tuple(%r)' % (args[0],))
    return tuple(xs)


def b_dict(it, args, kw):
    d = PyDict()
    if args:
        src = args[0]
        if isinstance(src, PyDict):
            for k, v in src.items():
                d.set(it, k, v)
        else:
            for kv in iterate(it, src):
                k, v = iterate(it, kv)
                d.set(it, k, v)
    for k, v in kw.items():
        d.set(it, k, v)
    return d


def b_set(it, args, kw):
    if not args:
        return PySet()
    xs = try_iterate(it, args[0])
    if xs is None:
        raise Unsupported('set(%r)' % (args[0],))
    return make_set(it, xs)


def num_lt(it, a, b):
    """a < b for python numbers / z3 numeric terms."""
    za, zb = z3.is_expr(a), z3.is_expr(b)
    if not za and not zb:
        return a < b
    fa = (za and a.sort() == xreal.XReal) or isinstance(a, float)
    fb = (zb and b.sort() == xreal.XReal) or isinstance(b, float)
    if fa or fb:
        return xreal.lt(xreal.lift(a), xreal.lift(b))
    if (za and a.sort() == Str) or (zb and b.sort() == Str) or isinstance(a, str) or isinstance(b, str):
        return str_lt(to_z3(a), to_z3(b))
    return as_int(a) < as_int(b)


str_lt = z3.Function('str_lt', Str, Str, z3.BoolSort())   # strict total order on strings (axioms instantiated by users)


def num_le(it, a, b):
    za, zb = z3.is_expr(a), z3.is_expr(b)
    if not za and not zb:
        return a <= b
    fa = (za and a.sort() == xreal.XReal) or isinstance(a, float)
    fb = (zb and b.sort() == xreal.XReal) or isinstance(b, float)
    if fa or fb:
        return xreal.le(xreal.lift(a), xreal.lift(b))
    if (za and a.sort() == Str) or (zb and b.sort() == Str) or isinstance(a, str) or isinstance(b, str):
        ta, tb = to_z3(a), to_z3(b)
        return z3.Or(str_lt(ta, tb), ta == tb)
    return as_int(a) <= as_int(b)


def b_max(it, args, kw):
    xs = list(args) if len(args) > 1 else try_iterate(it, args[0])
    if xs is None:
        raise Unsupported('max over symbolic collection')
    if not xs:
        if 'default' in kw:
            return kw['default']
        raise PyRaise(it.make_exc('ValueError', ['max() arg is an empty sequence']))
    best = xs[0]
    for x in xs[1:]:
        c = num_lt(it, best, x)
        best = ite(it, c, x, best)
    return best


def b_min(it, args, kw):
    xs = list(args) if len(args) > 1 else try_iterate(it, args[0])
    if xs is None:
        raise Unsupported('min over symbolic collection')
    if not xs:
        if 'default' in kw:
            return kw['default']
        raise PyRaise(it.make_exc('ValueError', ['min() arg is an empty sequence']))
    best = xs[0]
    for x in xs[1:]:
        c = num_lt(it, x, best)
        best = ite(it, c, x, best)
    return best


def b_abs(it, args, kw):
    v = args[0]
    if not z3.is_expr(v):
        return abs(v)
    if v.sort() == xreal.XReal:
        return z3.If(xreal.sign_neg(v), xreal.neg(v), v)
    return z3.If(v < 0, -v, v)


def b_all(it, args, kw):
    v = args[0]
    if isinstance(v, LazyGen):
        return v.forall(it)
    xs = iterate(it, v)
    return zand(*[it.truth_term(x) for x in xs])


def b_any(it, args, kw):
    v = args[0]
    if isinstance(v, LazyGen):
        return v.exists(it)
    xs = iterate(it, v)
    return zor(*[it.truth_term(x) for x in xs])


def b_sum(it, args, kw):
    xs = iterate(it, args[0])
    acc = args[1] if len(args) > 1 else 0
    for x in xs:
        acc = binop(it, ast.Add(), acc, x)
    return acc


def b_sorted(it, args, kw):
    xs = try_iterate(it, args[0])
    if xs is None:
        raise Unsupported('sorted over symbolic collection')
    key = kw.get('key')
    rev = kw.get('reverse', False)
    keys = [it.call(key, [x], {}) if key is not None else x for x in xs]
    items = list(zip(keys, xs))
    # insertion sort with symbolic comparisons (forks); stable
    out = []
    for k, x in items:
        pos = len(out)
        for j in range(len(out)):
            c = tuple_lt(it, k, out[j][0]) if not rev else tuple_lt(it, out[j][0], k)
            if it.truth(c):
                pos = j
                break
        out.insert(pos, (k, x))
    return [x for _, x in out]


def tuple_lt(it, a, b):
    if isinstance(a, tuple) and isinstance(b, tuple):
        if not a or not b:
            return len(a) < len(b)
        lt0 = num_lt(it, a[0], b[0])
        eq0 = eq_values(a[0], b[0])
        return zor(lt0, zand(eq0, tuple_lt(it, a[1:], b[1:])))
    return num_lt(it, a, b)


def b_getattr(it, args, kw):
    o, name = args[0], args[1]
    if not isinstance(name, str):
        raise Unsupported('getattr with symbolic name')
    try:
        return it.getattr(o, name)
    except PyRaise as pr:
        if len(args) > 2 and E.is_subclass(pr.exc.cls, BuiltinClass('AttributeError')):
            return args[2]
        raise
    except Unsupported:
        if len(args) > 2:
            return args[2]
        raise


def b_hasattr(it, args, kw):
    try:
        it.getattr(args[0], args[1])
        return True
    except (PyRaise, Unsupported):
        return False


def b_round(it, args, kw):
    v = args[0]
    if len(args) > 1:
        raise Unsupported('round with ndigits')
    if not z3.is_expr(v):
        return round(v)
    if v.sort() == z3.IntSort():
        return v
    if v.sort() == xreal.XReal:
        if it.truth(xreal.is_nan(v)):
            raise PyRaise(it.make_exc('ValueError', ['cannot convert float NaN to integer']))
        if it.truth(z3.Not(xreal.is_fin(v))):
            raise PyRaise(it.make_exc('OverflowError', ['cannot convert float infinity to integer']))
        r = xreal.r(v)
        fl = z3.ToInt(r)
        frac = r - z3.ToReal(fl)
        # banker's rounding
        return z3.If(frac < 0.5, fl, z3.If(frac > 0.5, fl + 1, z3.If(fl % 2 == 0, fl, fl + 1)))
    raise Unsupported('round(%r)' % (v,))


def b_type(it, args, kw):
    v = args[0]
    if isinstance(v, Obj):
        return v.cls
    raise Unsupported('type(%r)' % (v,))


def b_id(it, args, kw):
    return id(args[0])


def b_print(it, args, kw):
    return None


def b_iter(it, args, kw):
    return PyIter(iterate(it, args[0]))


class PyIter:
    def __init__(self, items):
        self.items, self.pos = list(items), 0


def b_next(it, args, kw):
    i = args[0]
    if isinstance(i, PyIter):
        if i.pos < len(i.items):
            i.pos += 1
            return i.items[i.pos - 1]
        if len(args) > 1:
            return args[1]
        raise PyRaise(it.make_exc('StopIteration'))
    if isinstance(i, GenObj):
        return i.next(it, args[1] if len(args) > 1 else MISSING)
    raise Unsupported('next(%r)' % (i,))


def b_super(it, args, kw):
    raise Unsupported('super() outside a method context')


def b_frozenset(it, args, kw):
    return b_set(it, args, kw)


def b_callable(it, args, kw):
    return isinstance(args[0], (FuncVal, Bound, Builtin, ClassInfo))


def b_reversed(it, args, kw):
    return list(reversed(iterate(it, args[0])))


def b_map(it, args, kw):
    f = args[0]
    ls = [iterate(it, a) for a in args[1:]]
    return [it.call(f, list(t), {}) for t in zip(*ls)]


def b_filter(it, args, kw):
    f, xs = args[0], iterate(it, args[1])
    return [x for x in xs if it.truth(it.call(f, [x], {}) if f is not None else x)]


BUILTINS = {n[2:]: Builtin(n[2:], f) for n, f in list(globals().items()) if n.startswith('b_') and callable(f)}
BUILTINS['None'] = None
BUILTINS['True'] = True
BUILTINS['False'] = False
BUILTINS['NotImplemented'] = Opaque('NotImplemented')
BUILTINS['object'] = BuiltinClass('object')


# ------------------------------------------------------------------------------------------ generators (concrete)
class GenObj:
    def __init__(self, items):
        self.items, self.pos = items, 0

    def next(self, it, default=MISSING):
        if self.pos < len(self.items):
            self.pos += 1
            return self.items[self.pos - 1]
        if default is not MISSING:
            return default
        raise PyRaise(it.make_exc('StopIteration'))


class _Yield(Exception):
    pass


def run_generator(it, fv, fr):
    """Generators without `send`: run eagerly, collecting yielded values (finite generators only)."""
    out = []
    old = getattr(it, '_yield_sink', None)
    it._yield_sink = out
    it.depth += 1
    try:
        it.block(fr, fv.node.body)
    except PyReturn:
        pass
    finally:
        it.depth -= 1
        it._yield_sink = old
    return GenObj(out)


def _e_Yield(self, fr, e):
    sink = getattr(self, '_yield_sink', None)
    if sink is None:
        raise Unsupported('yield outside generator')
    sink.append(self.eval(fr, e.value) if e.value is not None else None)
    return None


def _e_YieldFrom(self, fr, e):
    sink = getattr(self, '_yield_sink', None)
    if sink is None:
        raise Unsupported('yield from outside generator')
    for x in iterate(self, self.eval(fr, e.value)):
        sink.append(x)
    return None


E.Interp.e_Yield = _e_Yield
E.Interp.e_YieldFrom = _e_YieldFrom


# ------------------------------------------------------------------------------------------ iteration
def try_iterate(it, v):
    if isinstance(v, (list, tuple)):
        return list(v)
    if isinstance(v, PyDict):
        return v.keys()
    if isinstance(v, PySet):
        return list(v.elems)
    if isinstance(v, DictView):
        return v.items
    if isinstance(v, GenObj):
        return v.items[v.pos:]
    if isinstance(v, PyIter):
        return v.items[v.pos:]
    if isinstance(v, str):
        return list(v)
    if isinstance(v, LazyGen):
        return v.materialize(it)
    if isinstance(v, SymList):
        n = z3.simplify(v.n) if z3.is_expr(v.n) else v.n
        if z3.is_int_value(n):
            return [v.get(z3.IntVal(i)) for i in range(n.as_long())]
        if isinstance(n, int):
            return [v.get(z3.IntVal(i)) for i in range(n)]
        return None
    if isinstance(v, Obj) and isinstance(v.cls, ClassInfo):
        c, m = E.find_method(v.cls, '__iter__')
        if m is not None:
            return try_iterate(it, it.invoke(FuncVal(c.mod, m, c), [v], {}))
    r = iterate_hook(it, v)
    if r is not MISSING:
        return r
    return None


def iterate_hook(it, v):
    return MISSING


def iterate(it, v):
    r = try_iterate(it, v)
    if r is None:
        raise Unsupported('iteration over %r' % (v,))
    return r


class DictView:
    def __init__(self, items):
        self.items = items


# ------------------------------------------------------------------------------------------ comprehensions
class LazyGen:
    """Generator expression over a symbolic list, consumed by all()/any() as a quantifier."""

    def __init__(self, it, fr, e, xs):
        self.fr, self.e, self.xs = fr, e, xs

    def _body(self, it):
        gen = self.e.generators[0]
        J = it.run.fresh('q', z3.IntSort())
        fr2 = E.Frame(self.fr.mod, {}, parent=self.fr)
        it.pure += 1
        try:
            it.assign(fr2, gen.target, self.xs.get(J))
            conds = [it.truth_term(it.eval(fr2, c)) for c in gen.ifs]
            body = it.truth_term(it.eval(fr2, self.e.elt))
        finally:
            it.pure -= 1
        return J, zand(*conds), body

    def forall(self, it):
        J, c, b = self._body(it)
        return z3.ForAll([J], z3.Implies(z3.And(J >= 0, J < self.xs.n, zbool(c)), zbool(b)))

    def exists(self, it):
        J, c, b = self._body(it)
        return z3.Exists([J], z3.And(J >= 0, J < self.xs.n, zbool(c), zbool(b)))

    def materialize(self, it):
        raise Unsupported('generator over symbolic list used outside all()/any()')


def comprehension(it, fr, e, kind):
    gens = e.generators
    first = it.eval(fr, gens[0].iter)
    conc = try_iterate(it, first)
    if conc is None and it.run.bounded and isinstance(first, SymList):
        it.concretize_len(first)
        conc = try_iterate(it, first)
    if conc is None and isinstance(first, SymList) and len(gens) == 1:
        if kind == 'gen':
            return LazyGen(it, fr, e, first)
        if kind == 'list':
            return symbolic_filter_map(it, fr, e, first)
        raise Unsupported('%s comprehension over a symbolic list' % kind)
    if conc is None:
        raise Unsupported('comprehension over %r' % (first,))
    out = []

    def rec(gi, frx):
        if gi == len(gens):
            if kind == 'dict':
                out.append((it.eval(frx, e.key), it.eval(frx, e.value)))
            else:
                out.append(it.eval(frx, e.elt))
            return
        g = gens[gi]
        items = conc if gi == 0 else iterate(it, it.eval(frx, g.iter))
        for item in items:
            fr2 = E.Frame(frx.mod, {}, parent=frx)
            it.assign(fr2, g.target, item)
            if all(it.truth(it.eval(fr2, c)) for c in g.ifs):
                rec(gi + 1, fr2)

    rec(0, E.Frame(fr.mod, {}, parent=fr))
    if kind == 'list':
        it.run.filters = getattr(it.run, 'filters', []) + [list(out)]
        return out
    if kind == 'gen':
        return GenObj(out)
    if kind == 'set':
        return make_set(it, out)
    d = PyDict()
    for k, v in out:
        d.set(it, k, v)
    return d


def symbolic_filter_map(it, fr, e, xs):
    """[elt(x) for x in xs if c(x)] over an array-list: definitional encoding (DESIGN 2.4)."""
    run = it.run
    gen = e.generators[0]
    J = run.fresh('cj', z3.IntSort())
    fr2 = E.Frame(fr.mod, {}, parent=fr)
    it.pure += 1
    try:
        it.assign(fr2, gen.target, xs.get(J))
        cond = zbool(zand(*[it.truth_term(it.eval(fr2, c)) for c in gen.ifs]))
        eltv = it.eval(fr2, e.elt)
    finally:
        it.pure -= 1
    if isinstance(eltv, Msg):
        elem, eterm = eltv.schema, eltv.pack()
    else:
        eterm = to_z3(eltv)
        elem = {z3.IntSort(): 'int', z3.BoolSort(): 'bool', Str: 'str', xreal.XReal: 'float', pm.PyObj: 'pyobj'}.get(eterm.sort())
        if elem is None:
            raise Unsupported('comprehension element sort %s' % eterm.sort())
    n = run.fresh('cn', z3.IntSort())
    arr = run.fresh('carr', z3.ArraySort(z3.IntSort(), eterm.sort()))
    src = run.fresh('csrc', z3.ArraySort(z3.IntSort(), z3.IntSort()))
    r = SymList(n, arr, elem)
    r.src, r.parent, r.cond_at, r.elt_at = src, xs, (lambda i: z3.substitute(cond, (J, i))), (lambda i: z3.substitute(eterm, (J, i)))
    run.assume(n >= 0)
    run.assume(n <= xs.n)
    run.filters = getattr(run, 'filters', []) + [snapshot(r)]
    j, k, i = z3.Int('j!c'), z3.Int('k!c'), z3.Int('i!c')
    run.axiom(z3.ForAll([j], z3.Implies(z3.And(j >= 0, j < n),
                                        z3.And(src[j] >= 0, src[j] < xs.n, r.cond_at(src[j]), arr[j] == r.elt_at(src[j])))))
    run.axiom(z3.ForAll([j, k], z3.Implies(z3.And(j >= 0, j < k, k < n), src[j] < src[k])))
    run.axiom(z3.ForAll([i], z3.Implies(z3.And(i >= 0, i < xs.n, r.cond_at(i)),
                                        z3.Exists([j], z3.And(j >= 0, j < n, src[j] == i)))))
    return r


# ------------------------------------------------------------------------------------------ operators
def ite(it, c, a, b):
    if isinstance(c, bool):
        return a if c else b
    if a is b:
        return a
    if isinstance(a, Msg) and isinstance(b, Msg) and a.schema.fq == b.schema.fq:
        return Msg.from_term(a.schema, z3.If(c, a.pack(), b.pack()))
    try:
        ta, tb = to_z3(a), to_z3(b)
    except Unsupported:
        raise Unsupported('conditional over non-scalar values in pure mode')
    if ta.sort() != tb.sort():
        if xreal.XReal in (ta.sort(), tb.sort()):
            ta, tb = xreal.lift(ta), xreal.lift(tb)
        elif {ta.sort(), tb.sort()} == {z3.IntSort(), z3.BoolSort()}:
            ta, tb = as_int(ta), as_int(tb)
        else:
            raise Unsupported('conditional over values of different sorts')
    return z3.If(c, ta, tb)


def contains(it, container, x):
    if isinstance(container, (list, tuple)):
        return zor(*[eq_values(x, y) for y in container])
    if isinstance(container, PyDict):
        return container.find(it, x) is not None
    if isinstance(container, PySet):
        return container.find(it, x) is not None
    if isinstance(container, str) and isinstance(x, str):
        return x in container
    if isinstance(container, SymList):
        j = z3.Int('j!in')
        xt = to_z3(x)
        return z3.Exists([j], z3.And(j >= 0, j < container.n, container.arr[j] == xt))
    if isinstance(container, DictView):
        return zor(*[eq_values(x, y) for y in container.items])
    r = contains_hook(it, container, x)
    if r is not MISSING:
        return r
    if isinstance(container, Obj) and isinstance(container.cls, ClassInfo):
        c, m = E.find_method(container.cls, '__contains__')
        if m is not None:
            return it.truth_term(it.invoke(FuncVal(c.mod, m, c), [container, x], {}))
    raise Unsupported('`in` on %r' % (container,))


def contains_hook(it, container, x):
    return MISSING


def compare(it, op, l, r):
    if isinstance(op, ast.In):
        return contains(it, r, l)
    if isinstance(op, ast.NotIn):
        return znot(contains(it, r, l))
    if isinstance(op, ast.Is):
        if l is None or r is None or isinstance(l, (bool, Obj, Msg)) or isinstance(r, (bool, Obj, Msg)):
            if (l is None) != (r is None):
                return False
            if isinstance(l, bool) and isinstance(r, bool):
                return l == r
            return l is r
        return l is r
    if isinstance(op, ast.IsNot):
        return znot(compare(it, ast.Is(), l, r))
    if isinstance(op, (ast.Eq, ast.NotEq)):
        c = MISSING
        if isinstance(l, Obj) and isinstance(l.cls, ClassInfo):
            c = obj_eq(it, l, r)
        elif isinstance(r, Obj) and isinstance(r.cls, ClassInfo):
            c = obj_eq(it, r, l)
        if c is MISSING:
            c = eq_values(l, r)
        return c if isinstance(op, ast.Eq) else znot(c)
    if isinstance(l, Obj) or isinstance(r, Obj):
        raise Unsupported('ordering comparison on objects')
    if isinstance(l, (tuple, list)) and isinstance(r, (tuple, list)):
        if isinstance(op, ast.Lt):
            return tuple_lt(it, tuple(l), tuple(r))
        if isinstance(op, ast.Gt):
            return tuple_lt(it, tuple(r), tuple(l))
        raise Unsupported('<=/>= on sequences')
    if isinstance(op, ast.Lt):
        return num_lt(it, l, r)
    if isinstance(op, ast.LtE):
        return num_le(it, l, r)
    if isinstance(op, ast.Gt):
        return num_lt(it, r, l)
    if isinstance(op, ast.GtE):
        return num_le(it, r, l)
    raise Unsupported('comparison operator')


def obj_eq(it, o, other):
    c, m = E.find_method(o.cls, '__eq__')
    if m is not None:
        return it.truth_term(it.invoke(FuncVal(c.mod, m, c), [o, other], {}))
    r = attrs_eq_hook(it, o, other)
    if r is not MISSING:
        return r
    return o is other


def attrs_eq_hook(it, o, other):
    return MISSING


def unary(it, op, v):
    if isinstance(op, ast.USub):
        if not z3.is_expr(v):
            return -v
        if v.sort() == xreal.XReal:
            return xreal.neg(v)
        return -as_int(v)
    if isinstance(op, ast.UAdd):
        return v
    if isinstance(op, ast.Invert):
        if z3.is_expr(v) and v.sort() == z3.BoolSort():
            raise Unsupported('~ on bool term')
        return ~v
    raise Unsupported('unary operator')


def is_floaty(v):
    return isinstance(v, float) or (z3.is_expr(v) and v.sort() in (xreal.XReal, z3.RealSort()))


def binop(it, op, l, r, inplace=False):
    zl, zr = z3.is_expr(l), z3.is_expr(r)
    if isinstance(op, ast.Add):
        if isinstance(l, list) and isinstance(r, list):
            if inplace:
                l.extend(r)
                return INPLACE_DONE
            return l + r
        if isinstance(l, tuple) and isinstance(r, tuple):
            return l + r
        if isinstance(l, SymList) and inplace:
            symlist_extend(it, l, r)
            return INPLACE_DONE
        if isinstance(l, str) and isinstance(r, str):
            return l + r
        if (zl and l.sort() == Str) or (zr and r.sort() == Str) or isinstance(l, str) or isinstance(r, str):
            return format_string(it, [('v', l), ('v', r)])
    if isinstance(op, ast.Mod) and (isinstance(l, str) or (zl and l.sort() == Str)):
        args = list(r) if isinstance(r, tuple) else [r]
        if isinstance(l, str) and all(isinstance(a, (str, int, float)) for a in args):
            return l % tuple(args)
        return format_string(it, [('s', l if isinstance(l, str) else '%')] + [('v', a) for a in args])
    if isinstance(op, ast.Mult) and isinstance(l, (list, tuple, str)) and isinstance(r, int):
        return l * r
    if isinstance(op, ast.BitOr) and isinstance(l, PySet) and isinstance(r, PySet):
        s = PySet()
        for x in l.elems + r.elems:
            s.add(it, x)
        if inplace:
            l.elems = s.elems
            return INPLACE_DONE
        return s
    h = binop_hook(it, op, l, r, inplace)
    if h is not MISSING:
        return h
    if isinstance(l, Obj) and isinstance(l.cls, ClassInfo):
        name = {ast.Add: '__add__', ast.Sub: '__sub__', ast.Mult: '__mul__', ast.BitOr: '__or__', ast.BitAnd: '__and__',
                ast.Div: '__truediv__'}.get(type(op))
        c, m = E.find_method(l.cls, name) if name else (None, None)
        if m is not None:
            return it.invoke(FuncVal(c.mod, m, c), [l, r], {})
    if not zl and not zr:
        try:
            if isinstance(op, ast.Add):
                return l + r
            if isinstance(op, ast.Sub):
                return l - r
            if isinstance(op, ast.Mult):
                return l * r
            if isinstance(op, ast.Div):
                return l / r
            if isinstance(op, ast.FloorDiv):
                return l // r
            if isinstance(op, ast.Mod):
                return l % r
            if isinstance(op, ast.Pow):
                return l ** r
            if isinstance(op, ast.BitAnd):
                return l & r
            if isinstance(op, ast.BitOr):
                return l | r
            if isinstance(op, ast.BitXor):
                return l ^ r
            if isinstance(op, ast.LShift):
                return l << r
            if isinstance(op, ast.RShift):
                return l >> r
        except ZeroDivisionError:
            raise PyRaise(it.make_exc('ZeroDivisionError'))
        except TypeError as e:
            raise Unsupported('binop on %r, %r' % (l, r))
    if (zl and l.sort() == z3.BoolSort()) and (zr and r.sort() == z3.BoolSort()) or \
            (isinstance(l, bool) and zr and r.sort() == z3.BoolSort()) or (isinstance(r, bool) and zl and l.sort() == z3.BoolSort()):
        if isinstance(op, ast.BitAnd):
            return zand(zbool(l), zbool(r))
        if isinstance(op, ast.BitOr):
            return zor(zbool(l), zbool(r))
    if is_floaty(l) or is_floaty(r) or isinstance(op, ast.Div):
        a, b = xreal.lift(l), xreal.lift(r)
        if isinstance(op, ast.Add):
            return xreal.add(a, b)
        if isinstance(op, ast.Sub):
            return xreal.sub(a, b)
        if isinstance(op, ast.Mult):
            return xreal.mul(a, b)
        raise Unsupported('float operator %s' % type(op).__name__)
    a, b = as_int(l), as_int(r)
    if isinstance(op, ast.Add):
        return a + b
    if isinstance(op, ast.Sub):
        return a - b
    if isinstance(op, ast.Mult):
        return a * b
    if isinstance(op, (ast.FloorDiv, ast.Mod)):
        bz = b if z3.is_expr(b) else z3.IntVal(b)
        az = a if z3.is_expr(a) else z3.IntVal(a)
        if it.truth(bz == 0):
            raise PyRaise(it.make_exc('ZeroDivisionError'))
        # python floor semantics; z3 div/mod are euclidean (mod >= 0): equal when b > 0
        q = z3.If(bz > 0, az / bz, z3.If(az % bz == 0, az / bz, az / bz - 1))
        if isinstance(op, ast.FloorDiv):
            return q
        return az - bz * q
    raise Unsupported('int operator %s' % type(op).__name__)


def binop_hook(it, op, l, r, inplace):
    return MISSING


# ------------------------------------------------------------------------------------------ subscripts
def sym_index(it, lst, idx):
    """bounds-checked index into an array-list; returns the normalised z3 index."""
    i = as_int(idx)
    iz = i if z3.is_expr(i) else z3.IntVal(i)
    if isinstance(i, int) and i < 0:
        ok = lst.n >= -i
        pos = lst.n + i
    elif isinstance(i, int):
        ok = lst.n > i
        pos = z3.IntVal(i)
    else:
        ok = z3.And(iz < lst.n, iz >= -lst.n)
        pos = z3.If(iz < 0, lst.n + iz, iz)
    if not it.truth(ok):
        raise PyRaise(it.make_exc('IndexError', ['list index out of range']))
    return pos


def _vol_find(it, base, idx):
    from . import engine as _E
    for k, v in base.vals:
        try:
            c = _E.eq_values(k, idx)
        except Unsupported:
            continue
        if c is True or (z3.is_expr(c) and it.truth(c)):
            return k
    return None


def subscript(it, base, idx):
    if isinstance(base, LockTable):
        return LockRef(base, idx)
    if isinstance(base, VolatileIntMap):
        k = _vol_find(it, base, idx)
        if k is not None:
            return [v for kk, v in base.vals if kk is k][0]
        t = it.run.fresh('volatile_' + base.name, z3.IntSort())
        it.run.assume(t >= 0)
        it.run.volatile_reads = getattr(it.run, 'volatile_reads', []) + [(base.name, t)]
        base.vals.append((idx, t))
        return t
    if isinstance(base, SymList):
        if isinstance(idx, slice):
            if idx.step is not None:
                raise Unsupported('slice of array-list with a step')
            if idx.start not in (None, 0):
                # lst[lo:hi]: fresh array shifted by lo (definitional axiom)
                lo = as_int(idx.start)
                lz = lo if z3.is_expr(lo) else z3.IntVal(lo)
                lo_n = z3.If(lz >= 0, z3.If(lz < base.n, lz, base.n), z3.If(base.n + lz > 0, base.n + lz, 0))
                if idx.stop is None:
                    hi_n = base.n
                else:
                    hz0 = as_int(idx.stop)
                    hz0 = hz0 if z3.is_expr(hz0) else z3.IntVal(hz0)
                    hi_n = z3.If(hz0 >= 0, z3.If(hz0 < base.n, hz0, base.n), z3.If(base.n + hz0 > 0, base.n + hz0, 0))
                n3 = z3.If(hi_n > lo_n, hi_n - lo_n, 0)
                arr3 = it.run.fresh('slice', base.arr.sort())
                jj = z3.Int('j!sl')
                it.run.axiom(z3.ForAll([jj], z3.Implies(z3.And(jj >= 0, jj < n3), arr3[jj] == base.arr[jj + lo_n])))
                r = SymList(z3.simplify(n3), arr3, base.elem)
                r.parent_slice = (base, lo_n)
                return r
            if idx.stop is None:
                return SymList(base.n, base.arr, base.elem)
            hi = as_int(idx.stop)
            hz = hi if z3.is_expr(hi) else z3.IntVal(hi)
            n2 = z3.If(hz >= 0, z3.If(hz < base.n, hz, base.n), z3.If(base.n + hz > 0, base.n + hz, 0))
            r = SymList(n2, base.arr, base.elem)
            r.parent_prefix = base
            return r
        pos = sym_index(it, base, idx)
        return base.get(pos)
    if isinstance(base, (list, tuple, str)):
        if isinstance(idx, slice):
            if (z3.is_expr(idx.start) or z3.is_expr(idx.stop)) and idx.step is None and not isinstance(base, str) \
                    and not (z3.is_expr(idx.stop) and idx.start in (None, 0)):
                n = len(base)

                def pick(v, default):
                    if v is None:
                        return default
                    if not z3.is_expr(v):
                        return max(0, min(n, v if v >= 0 else n + v))
                    for k in range(n + 1):
                        if it.truth(zor(v == k, v == k - n) if k < n else v >= n):
                            return k
                    return 0
                lo_c, hi_c = pick(idx.start, 0), pick(idx.stop, n)
                return base[lo_c:hi_c]
            if z3.is_expr(idx.stop) and idx.start in (None, 0) and idx.step is None and not isinstance(base, str):
                # concrete spine, symbolic upper bound: fork over the resulting length
                hi = idx.stop
                n = len(base)
                for k in range(n):
                    if it.truth(zor(hi == k, hi == k - n)):
                        return base[:k]
                if it.truth(hi >= n):
                    return base[:n]
                return base[:0]
            if any(z3.is_expr(x) for x in (idx.start, idx.stop, idx.step)):
                raise Unsupported('symbolic slice of concrete sequence')
            return base[idx]
        if z3.is_expr(idx):
            idx = z3.simplify(idx)
            if z3.is_int_value(idx):
                idx = idx.as_long()
            else:
                # symbolic index into a concrete spine: fork over positions
                n = len(base)
                for k in range(n):
                    if it.truth(zor(idx == k, idx == k - n)):
                        return base[k]
                raise PyRaise(it.make_exc('IndexError', ['index out of range']))
        try:
            return base[idx]
        except IndexError:
            raise PyRaise(it.make_exc('IndexError', ['index out of range']))
        except TypeError:
            raise Unsupported('subscript %r[%r]' % (base, idx))
    if isinstance(base, PyDict):
        return base.get(it, idx)
    if isinstance(base, Obj) and isinstance(base.cls, ClassInfo):
        c, m = E.find_method(base.cls, '__getitem__')
        if m is not None:
            return it.invoke(FuncVal(c.mod, m, c), [base, idx], {})
    r = subscript_hook(it, base, idx)
    if r is not MISSING:
        return r
    if isinstance(base, (ExtRef, Builtin, ClassInfo)):
        return base   # typing subscripts, e.g. Optional[X]
    raise Unsupported('subscript of %r' % (base,))


def subscript_hook(it, base, idx):
    return MISSING


def setitem(it, base, idx, v):
    if isinstance(base, VolatileIntMap):
        k = _vol_find(it, base, idx)
        vz = v if z3.is_expr(v) else z3.IntVal(v)
        if k is not None:
            base.vals = [(kk, (vz if kk is k else vv)) for kk, vv in base.vals]
        else:
            base.vals.append((idx, vz))
        return
    if isinstance(base, list):
        if isinstance(idx, slice):
            if idx.start is None and idx.stop is None and idx.step is None:
                base[:] = iterate(it, v)
                return
            raise Unsupported('slice assignment')
        if z3.is_expr(idx):
            raise Unsupported('symbolic index store into concrete list')
        base[idx] = v
        return
    if isinstance(base, PyDict):
        base.set(it, idx, v)
        return
    if isinstance(base, SymList):
        if isinstance(idx, slice):
            if idx.start is None and idx.stop is None:
                symlist_assign(it, base, v)
                return
            raise Unsupported('slice assignment on array-list')
        pos = sym_index(it, base, idx)
        base.arr = z3.Store(base.arr, pos, to_z3(v))
        base.touch()
        return
    if isinstance(base, Obj) and isinstance(base.cls, ClassInfo):
        c, m = E.find_method(base.cls, '__setitem__')
        if m is not None:
            it.invoke(FuncVal(c.mod, m, c), [base, idx, v], {})
            return
    r = setitem_hook(it, base, idx, v)
    if r is not MISSING:
        return
    raise Unsupported('item assignment on %r' % (base,))


def setitem_hook(it, base, idx, v):
    return MISSING


def delitem(it, base, idx):
    if isinstance(base, PyDict):
        i = base.find(it, idx)
        if i is None:
            raise PyRaise(it.make_exc('KeyError', [idx]))
        del base.items_[i]
        return
    if isinstance(base, list):
        del base[idx]
        return
    if isinstance(base, SymList) and isinstance(idx, slice) and idx.start is None and idx.stop is None:
        base.n = z3.IntVal(0)
        base.touch()
        return
    r = delitem_hook(it, base, idx)
    if r is not MISSING:
        return
    raise Unsupported('del item on %r' % (base,))


def delitem_hook(it, base, idx):
    return MISSING


# ------------------------------------------------------------------------------------------ array-list ops
def elem_term(lst, v):
    if isinstance(lst.elem, MsgSchema):
        if not isinstance(v, Msg):
            raise Unsupported('non-message stored in message list')
        lst.stored.append((v, v.version))
        return v.pack()
    return pm._lift(v, lst.elem_sort()) if not z3.is_expr(v) else pm._lift(v, lst.elem_sort())


def symlist_append(it, lst, v):
    lst.arr = z3.Store(lst.arr, lst.n, elem_term(lst, v))
    lst.n = lst.n + 1
    lst.touch()


def symlist_extend(it, lst, other):
    if isinstance(other, SymList):
        n = z3.simplify(other.n) if z3.is_expr(other.n) else other.n
        if z3.is_int_value(n) or isinstance(n, int):
            for x in iterate(it, other):
                symlist_append(it, lst, x)
            return
        # symbolic extend: result defined by a fresh array with a quantified axiom
        run = it.run
        arr = run.fresh('ext', lst.arr.sort())
        j = z3.Int('j!e')
        run.axiom(z3.ForAll([j], z3.Implies(z3.And(j >= 0, j < lst.n), arr[j] == lst.arr[j])))
        run.axiom(z3.ForAll([j], z3.Implies(z3.And(j >= 0, j < other.n), arr[lst.n + j] == other.arr[j])))
        lst.arr, lst.n = arr, lst.n + other.n
        lst.touch()
        return
    for x in iterate(it, other):
        symlist_append(it, lst, x)


def symlist_assign(it, lst, v):
    if isinstance(v, SymList):
        lst.n, lst.arr = v.n, v.arr
    else:
        lst.n = z3.IntVal(0)
        for x in iterate(it, v):
            symlist_append(it, lst, x)
    lst.touch()


def symlist_pop(it, lst, args):
    if args:
        raise Unsupported('pop(i) on array-list')
    if not it.truth(lst.n > 0):
        raise PyRaise(it.make_exc('IndexError', ['pop from empty list']))
    lst.n = lst.n - 1
    lst.touch()
    return lst.get(lst.n)


def to_symlist(it, v, elem):
    """python list / SymList -> fresh SymList with the given element kind."""
    if isinstance(v, SymList):
        return SymList(v.n, v.arr, v.elem)
    es = pm.msg_sort(elem) if isinstance(elem, MsgSchema) else pm.scalar_sort(elem)
    r = SymList(z3.IntVal(0), pm.empty_array(es), elem)
    for x in iterate(it, v):
        symlist_append(it, r, x)
    return r


def check_aliasing(lst):
    for m, ver in lst.stored:
        if m.version != ver:
            raise Unsupported('aliasing: a message was mutated after being stored in an array-list')


# ------------------------------------------------------------------------------------------ protobuf
enum_name = z3.Function('enum_name', z3.IntSort(), Str)
ser = {}
deser = {}


def ser_fn(schema):
    if schema.fq not in ser:
        s = pm.msg_sort(schema)
        ser[schema.fq] = z3.Function('ser_' + schema.fq.replace('.', '_'), s, Bytes)
        deser[schema.fq] = z3.Function('deser_' + schema.fq.replace('.', '_'), Bytes, s)
    return ser[schema.fq], deser[schema.fq]


def pb_getattr(it, ref, a):
    path = list(ref.path) + [a]
    if a == 'Name' and ref.path:
        k = pm.lookup_pb2(ref.module, list(ref.path))
        if k and k[0] == 'enum':
            return Builtin('enum.Name', lambda it_, args, kw: enum_name(to_z3(args[0])) if z3.is_expr(args[0]) else _enum_name_conc(k[1], args[0]))
    if a == 'FromString' and ref.path:
        k = pm.lookup_pb2(ref.module, list(ref.path))
        if k and k[0] == 'msg':
            def from_string(it_, args, kw, schema=k[1]):
                s, d = ser_fn(schema)
                return Msg.from_term(schema, d(to_z3(args[0])))
            return Builtin('FromString', from_string)
    k = pm.lookup_pb2(ref.module, path)
    if k is None:
        raise Unsupported('pb2 attribute %s.%s' % (ref.module, '.'.join(path)))
    if k[0] == 'enumval':
        return k[1]
    return PbRef(ref.module, path)


def _enum_name_conc(enum, v):
    for n, x in enum.values.items():
        if x == v:
            return n
    return str(v)


def pb_construct(it, ref, args, kw):
    k = pm.lookup_pb2(ref.module, list(ref.path))
    if not k or k[0] != 'msg':
        raise Unsupported('construct %r' % (ref,))
    m = Msg.default(k[1])
    for name, v in kw.items():
        msg_setfield(it, m, name, v, init=True)
    return m


def msg_setfield(it, m, name, v, init=False):
    if name not in m.schema.fields:
        raise PyRaise(it.make_exc('ValueError' if init else 'AttributeError', ['no field %s' % name]))
    f = m.schema.fields[name]
    if f.repeated:
        if not init:
            raise PyRaise(it.make_exc('AttributeError', ['assignment not allowed to repeated field']))
        lst = m.get(name)
        if v is None:
            return
        if isinstance(v, SymList):
            lst.n, lst.arr = v.n, v.arr
            check_aliasing(v)
        else:
            for x in iterate(it, v):
                symlist_append(it, lst, x)
        m.touch()
        return
    if f.kind == 'message':
        if not init:
            raise PyRaise(it.make_exc('AttributeError', ['assignment not allowed to message field']))
        if v is None:
            return
        if not isinstance(v, Msg):
            raise Unsupported('message field initialised from %r' % (v,))
        child = m.get(name)
        child.copy_from(v)
        return
    if v is None and init:
        return
    # scalar: type checks of the protobuf runtime
    if f.kind == 'str' and not (isinstance(v, str) or (z3.is_expr(v) and v.sort() == Str)):
        raise PyRaise(it.make_exc('TypeError', ['bad argument type for string field']))
    if f.kind in ('int', 'enum') and not (isinstance(v, int) or (z3.is_expr(v) and v.sort() in (z3.IntSort(), z3.BoolSort()))):
        if is_floaty(v):
            raise PyRaise(it.make_exc('TypeError', ['float for integer field']))
        raise PyRaise(it.make_exc('TypeError', ['bad argument type for integer field']))
    if f.kind == 'float' and (isinstance(v, str) or (z3.is_expr(v) and v.sort() == Str)):
        raise PyRaise(it.make_exc('TypeError', ['bad argument type for float field']))
    if f.kind == 'float':
        v = xreal.lift(v) if z3.is_expr(v) else float(v)
    if f.kind in ('int', 'enum') and z3.is_expr(v) and v.sort() == z3.BoolSort():
        v = as_int(v)
    m.set(name, v)


def msg_setattr(it, m, a, v):
    msg_setfield(it, m, a, v)


def msg_getattr(it, m, a):
    if a in m.schema.fields:
        return m.get(a)
    if a == 'CopyFrom':
        def copy_from(it_, args, kw):
            o = args[0]
            if not isinstance(o, Msg) or o.schema.fq != m.schema.fq:
                raise PyRaise(it_.make_exc('TypeError', ['CopyFrom of a different message type']))
            m.copy_from(o)
        return Builtin('CopyFrom', copy_from)
    if a == 'ClearField':
        def clear(it_, args, kw):
            if args[0] not in m.schema.fields and args[0] not in m.schema.oneofs:
                raise PyRaise(it_.make_exc('ValueError', ['no field']))
            m.clear(args[0])
        return Builtin('ClearField', clear)
    if a == 'HasField':
        def has(it_, args, kw):
            n = args[0]
            if n in m.schema.oneofs:
                c = m.get_case(n)
                return c != 0
            if n not in m.schema.fields:
                raise PyRaise(it_.make_exc('ValueError', ['no field']))
            f = m.schema.fields[n]
            if f.repeated or (f.kind != 'message' and not f.optional and not f.oneof):
                raise PyRaise(it_.make_exc('ValueError', ['HasField on non-optional scalar']))
            return m.get_has(n)
        return Builtin('HasField', has)
    if a == 'WhichOneof':
        def which(it_, args, kw):
            n = args[0]
            if n not in m.schema.oneofs:
                raise PyRaise(it_.make_exc('ValueError', ['no oneof']))
            c = m.get_case(n)
            for fn in m.schema.oneofs[n]:
                num = m.schema.fields[fn].number
                if it_.truth(c == num if z3.is_expr(c) else c == num):
                    return fn
            return None
        return Builtin('WhichOneof', which)
    if a == 'SerializeToString':
        def serialize(it_, args, kw):
            s, d = ser_fn(m.schema)
            t = m.pack()
            b = s(t)
            it_.run.assume(d(b) == t)
            return b
        return Builtin('SerializeToString', serialize)
    if a == 'GetCurrentTime' and m.schema.fq == 'google.protobuf.Timestamp':
        def now(it_, args, kw):
            m.set('seconds', it_.run.fresh('now_s', z3.IntSort()))
            m.set('nanos', it_.run.fresh('now_ns', z3.IntSort()))
        return Builtin('GetCurrentTime', now)
    if a == 'ToDatetime' and m.schema.fq == 'google.protobuf.Timestamp':
        return Builtin('ToDatetime', lambda it_, args, kw: ts_to_dt(to_z3(m.get('seconds')), to_z3(m.get('nanos'))))
    if a == 'Pack' and m.schema.fq == 'google.protobuf.Any':
        def pack(it_, args, kw):
            o = args[0]
            s, d = ser_fn(o.schema)
            b = s(o.pack())
            it_.run.assume(d(b) == o.pack())
            m.set('type_url', 'type.googleapis.com/' + o.schema.fq)
            m.set('value', b)
        return Builtin('Pack', pack)
    if a == 'DESCRIPTOR':
        return Opaque('descriptor')
    # nested enum values accessible through instances
    for efq, e in pm.registry().enums.items():
        if efq.rsplit('.', 1)[0] == m.schema.fq and a in e.values:
            return e.values[a]
    raise Unsupported('message attribute %s.%s' % (m.schema.fq, a))


ts_to_dt = z3.Function('ts_to_dt', z3.IntSort(), z3.IntSort(), z3.IntSort())


# ------------------------------------------------------------------------------------------ attribute access on plain values
def value_getattr(it, v, a):
    if isinstance(v, SymList):
        if a == 'append':
            return Builtin('append', lambda it_, args, kw: symlist_append(it_, v, args[0]))
        if a == 'extend':
            return Builtin('extend', lambda it_, args, kw: symlist_extend(it_, v, args[0]))
        if a == 'pop':
            return Builtin('pop', lambda it_, args, kw: symlist_pop(it_, v, args))
        if a == 'add' and isinstance(v.elem, MsgSchema):
            def add(it_, args, kw):
                m = Msg.default(v.elem)
                for k, x in kw.items():
                    msg_setfield(it_, m, k, x, init=True)
                # the returned message writes later mutations through to its list slot (Msg.touch / slot)
                idx = v.n
                symlist_append(it_, v, m)
                m.slot = (v, idx)
                return m
            return Builtin('add', add)
        raise Unsupported('array-list method %s' % a)
    if isinstance(v, list):
        if a == 'append':
            return Builtin('append', lambda it_, args, kw: v.append(args[0]))
        if a == 'extend':
            return Builtin('extend', lambda it_, args, kw: v.extend(iterate(it_, args[0])))
        if a == 'pop':
            def pop(it_, args, kw):
                try:
                    return v.pop(*args)
                except IndexError:
                    raise PyRaise(it_.make_exc('IndexError', ['pop from empty list']))
            return Builtin('pop', pop)
        if a == 'insert':
            return Builtin('insert', lambda it_, args, kw: v.insert(args[0], args[1]))
        if a == 'copy':
            return Builtin('copy', lambda it_, args, kw: list(v))
        if a == 'clear':
            return Builtin('clear', lambda it_, args, kw: v.clear())
        if a == 'reverse':
            return Builtin('reverse', lambda it_, args, kw: v.reverse())
        if a == 'index':
            def index(it_, args, kw):
                for i, x in enumerate(v):
                    if it_.truth(eq_values(x, args[0])):
                        return i
                raise PyRaise(it_.make_exc('ValueError', ['not in list']))
            return Builtin('index', index)
        if a == 'sort':
            def sort(it_, args, kw):
                v[:] = b_sorted(it_, [v], kw)
            return Builtin('sort', sort)
        if a == 'count':
            return Builtin('count', lambda it_, args, kw: sum(1 for x in v if it_.truth(eq_values(x, args[0]))))
        if a == 'remove':
            def remove(it_, args, kw):
                for i, x in enumerate(v):
                    if it_.truth(eq_values(x, args[0])):
                        del v[i]
                        return
                raise PyRaise(it_.make_exc('ValueError', ['not in list']))
            return Builtin('remove', remove)
    if isinstance(v, tuple):
        if a == 'index':
            return value_getattr(it, list(v), 'index')
        if a == 'count':
            return value_getattr(it, list(v), 'count')
    if isinstance(v, PyDict):
        if a == 'items':
            return Builtin('items', lambda it_, args, kw: DictView(v.items()))
        if a == 'keys':
            return Builtin('keys', lambda it_, args, kw: DictView(v.keys()))
        if a == 'values':
            return Builtin('values', lambda it_, args, kw: DictView(v.values()))
        if a == 'get':
            return Builtin('get', lambda it_, args, kw: v.get(it_, args[0], args[1] if len(args) > 1 else None))
        if a == 'update':
            def update(it_, args, kw):
                if args:
                    src = args[0]
                    mp = mapping_items_hook(it_, src)   # dict.update(mapping object): keys() + __getitem__ (CPython semantics)
                    for k, x in (mp if mp is not MISSING else src.items() if isinstance(src, PyDict) else [tuple(iterate(it_, kv)) for kv in iterate(it_, src)]):
                        v.set(it_, k, x)
                for k, x in kw.items():
                    v.set(it_, k, x)
            return Builtin('update', update)
        if a == 'setdefault':
            def setdefault(it_, args, kw):
                i = v.find(it_, args[0])
                if i is None:
                    v.items_.append([args[0], args[1] if len(args) > 1 else None])
                    return v.items_[-1][1]
                return v.items_[i][1]
            return Builtin('setdefault', setdefault)
        if a == 'pop':
            def pop(it_, args, kw):
                i = v.find(it_, args[0])
                if i is None:
                    if len(args) > 1:
                        return args[1]
                    raise PyRaise(it_.make_exc('KeyError', [args[0]]))
                return v.items_.pop(i)[1]
            return Builtin('pop', pop)
        if a == 'copy':
            def copy(it_, args, kw):
                d = PyDict(v.default_factory)
                d.items_ = [[k, x] for k, x in v.items_]
                return d
            return Builtin('copy', copy)
        if a == 'clear':
            return Builtin('clear', lambda it_, args, kw: v.items_.clear())
    if isinstance(v, PySet):
        if a == 'add':
            return Builtin('add', lambda it_, args, kw: v.add(it_, args[0]))
        if a == 'issubset':
            return Builtin('issubset', lambda it_, args, kw: zand(*[contains(it_, args[0], x) for x in v.elems]))
        if a == 'update':
            return Builtin('update', lambda it_, args, kw: [v.add(it_, x) for x in iterate(it_, args[0])] and None)
        if a == 'union':
            def union(it_, args, kw):
                s = PySet()
                for x in v.elems:
                    s.add(it_, x)
                for o in args:
                    for x in iterate(it_, o):
                        s.add(it_, x)
                return s
            return Builtin('union', union)
        if a == 'discard':
            def discard(it_, args, kw):
                i = v.find(it_, args[0])
                if i is not None:
                    del v.elems[i]
            return Builtin('discard', discard)
    if isinstance(v, str) or (z3.is_expr(v) and v.sort() == Str):
        if a == 'format':
            def fmt(it_, args, kw):
                if isinstance(v, str) and all(isinstance(x, (str, int, float)) for x in list(args) + list(kw.values())):
                    return v.format(*args, **kw)
                return format_string(it_, [('s', v if isinstance(v, str) else '{}')] + [('v', x) for x in args] + [('v', x) for x in kw.values()])
            return Builtin('format', fmt)
        if a == 'join':
            def join(it_, args, kw):
                xs = iterate(it_, args[0])
                if isinstance(v, str) and all(isinstance(x, str) for x in xs):
                    return v.join(xs)
                for x in xs:
                    if not (isinstance(x, str) or (z3.is_expr(x) and x.sort() == Str)):
                        raise PyRaise(it_.make_exc('TypeError', ['sequence item: expected str instance']))
                return format_string(it_, [('s', 'join:' + (v if isinstance(v, str) else '?'))] + [('v', x) for x in xs])
            return Builtin('join', join)
        if isinstance(v, str) and a in ('startswith', 'endswith', 'lower', 'upper', 'strip', 'split', 'replace', 'encode', 'isdigit'):
            def strm(it_, args, kw, a=a):
                if all(isinstance(x, (str, int, tuple)) for x in args):
                    return getattr(v, a)(*args)
                raise Unsupported('str.%s with symbolic argument' % a)
            return Builtin('str.' + a, strm)
    if isinstance(v, OpaqueObj):
        return v.attr(a)
    if isinstance(v, LockObj) or isinstance(v, LockRef):
        if a in ('acquire', 'release'):
            raise Unsupported('explicit lock acquire/release')
    if isinstance(v, ExcObj):
        if a == 'args':
            return v.attrs.get('args', ())
    r = value_getattr_hook(it, v, a)
    if r is not MISSING:
        return r
    raise Unsupported('attribute %s of %r' % (a, v))


def value_getattr_hook(it, v, a):
    return MISSING


def mapping_items_hook(it, src):
    """[(key, value)] of a mapping *object* passed to dict.update(), or MISSING (extension hook)."""
    return MISSING


def obj_getattr(it, o, a):
    if isinstance(o, ExcObj):
        if a == 'args':
            return o.attrs.get('args', ())
        if a == 'with_traceback':
            return Builtin('with_traceback', lambda it_, args, kw: o)
    return MISSING


def class_getattr(it, c, a):
    if a == '__name__':
        return c.name
    return MISSING


def class_attr_value(it, cls, name, node):
    return it.eval(E.Frame(cls.mod, {}), node)


def truth_hook(it, v):
    if isinstance(v, (PyDict, PySet)):
        return len(v) > 0
    if isinstance(v, DictView):
        return len(v.items) > 0
    if isinstance(v, (LockTable, LockRef, LockObj, Opaque, GenObj, PyIter, VolatileIntMap)):
        return True
    if isinstance(v, OpaqueObj):
        raise Unsupported('truth value of an opaque python object')
    return None


def call_hook(it, f, args, kw):
    if isinstance(f, OpaqueObj):
        return f.call(it, args, kw)
    return MISSING


def is_frozen(cls):
    for d in cls.decorators:
        if 'frozen=True' in d.replace(' ', '') or d.startswith('attr.frozen') or d.startswith('attrs.frozen'):
            return True
    return False


# ------------------------------------------------------------------------------------------ with
def with_enter(it, cm):
    if isinstance(cm, LockRef):
        key = cm.key
        it.run.event('acq', cm.table.name, key)
        it.run.locks.append((cm.table.name, key, len(it.run.events)))
        return None
    if isinstance(cm, LockObj):
        it.run.event('acq', cm.name, None)
        it.run.locks.append((cm.name, None, len(it.run.events)))
        return None
    if isinstance(cm, Opaque):
        return cm
    r = with_hook(it, cm, True)
    if r is not MISSING:
        return r
    raise Unsupported('with %r' % (cm,))


def with_exit(it, cm):
    if isinstance(cm, (LockRef, LockObj)):
        it.run.locks.pop()
        if isinstance(cm, LockRef):
            it.run.event('rel', cm.table.name, cm.key)
        else:
            it.run.event('rel', cm.name, None)
        return
    if isinstance(cm, Opaque):
        return
    with_hook(it, cm, False)


def with_hook(it, cm, enter):
    return MISSING


# ------------------------------------------------------------------------------------------ construction
def construct(it, cls, args, kw):
    key = '%s:%s' % (cls.mod.dotted, cls.qualname)
    if key in E.MODELS:
        return E.MODELS[key](it, list(args), kw)
    if E.is_subclass(cls, BuiltinClass('BaseException')):
        o = ExcObj(cls, {'args': tuple(args)})
        c, m = E.find_method(cls, '__init__')
        if m is not None:
            it.invoke(FuncVal(c.mod, m, c), [o] + list(args), kw)
        return o
    r = construct_hook(it, cls, args, kw)
    if r is not MISSING:
        return r
    o = Obj(cls)
    c, m = E.find_method(cls, '__init__')
    if m is not None:
        old = getattr(it, '_in_init', 0)
        it._in_init = old + 1
        try:
            it.invoke(FuncVal(c.mod, m, c), [o] + list(args), kw)
        finally:
            it._in_init = old
    elif args or kw:
        raise PyRaise(it.make_exc('TypeError', ['%s() takes no arguments' % cls.name]))
    return o


def construct_hook(it, cls, args, kw):
    return MISSING


# ------------------------------------------------------------------------------------------ fresh values (havoc)
def fresh_like(it, v, name):
    run = it.run
    if isinstance(v, bool):
        return run.fresh(name, z3.BoolSort())
    if isinstance(v, int):
        return run.fresh(name, z3.IntSort())
    if isinstance(v, float):
        return run.fresh(name, xreal.XReal)
    if isinstance(v, str):
        return run.fresh(name, Str)
    if z3.is_expr(v):
        return run.fresh(name, v.sort())
    if isinstance(v, SymList):
        v.n = run.fresh(name + '_n', z3.IntSort())
        v.arr = run.fresh(name + '_a', v.arr.sort())
        v.stored = []
        run.assume(v.n >= 0)
        return v      # same object: aliases see the havoc
    if isinstance(v, Msg):
        v.base = run.fresh(name, pm.msg_sort(v.schema))
        v.f, v.has, v.case = {}, {}, {}
        return v
    if v is None:
        return None
    if isinstance(v, list):
        if not v:
            raise Unsupported('havoc of an empty concrete list %s (element sort unknown): declare it in the loop contract' % name)
        raise Unsupported('havoc of concrete list %s' % name)
    r = fresh_like_hook(it, v, name)
    if r is not MISSING:
        return r
    raise Unsupported('havoc of %s = %r' % (name, v))


def snapshot(v):
    """immutable snapshot of a value at loop entry (array-lists and messages are havoced in place)."""
    if isinstance(v, SymList):
        r = SymList(v.n, v.arr, v.elem)
        for at in ('src', 'parent', 'cond_at', 'elt_at', 'list_of', 'sop_list'):
            if hasattr(v, at):
                setattr(r, at, getattr(v, at))
        return r
    if isinstance(v, Msg):
        try:
            return Msg.from_term(v.schema, v.pack())
        except Exception:
            return v
    return v


def fresh_like_hook(it, v, name):
    return MISSING


# ------------------------------------------------------------------------------------------ external library models
def _noop(it, args, kw):
    return None


for _n in ('info', 'warning', 'warn', 'error', 'exception', 'debug', 'fatal', 'log', 'vlog', 'log_every_n', 'log_first_n',
           'log_every_n_seconds', 'critical'):
    EXTERNAL['absl.logging.' + _n] = Builtin('logging.' + _n, _noop)
    EXTERNAL['logging.' + _n] = Builtin('logging.' + _n, _noop)

for _c in ('OK', 'CANCELLED', 'UNKNOWN', 'INVALID_ARGUMENT', 'DEADLINE_EXCEEDED', 'NOT_FOUND', 'ALREADY_EXISTS',
           'PERMISSION_DENIED', 'RESOURCE_EXHAUSTED', 'FAILED_PRECONDITION', 'ABORTED', 'OUT_OF_RANGE', 'UNIMPLEMENTED',
           'INTERNAL', 'UNAVAILABLE', 'DATA_LOSS', 'UNAUTHENTICATED'):
    EXTERNAL['grpc.StatusCode.' + _c] = 'StatusCode.' + _c
EXTERNAL['grpc.RpcError'] = BuiltinClass('grpc.RpcError')
for _n in ('google.rpc.code_pb2.Code', 'google.rpc.code_pb2'):
    for _k, _v in dict(OK=0, CANCELLED=1, UNKNOWN=2, INVALID_ARGUMENT=3, DEADLINE_EXCEEDED=4, NOT_FOUND=5, ALREADY_EXISTS=6,
                       PERMISSION_DENIED=7, RESOURCE_EXHAUSTED=8, FAILED_PRECONDITION=9, ABORTED=10, OUT_OF_RANGE=11,
                       UNIMPLEMENTED=12, INTERNAL=13, UNAVAILABLE=14, DATA_LOSS=15, UNAUTHENTICATED=16).items():
        EXTERNAL[_n + '.' + _k] = _v


def deepcopy(it, v, memo=None):
    memo = memo if memo is not None else {}
    if id(v) in memo:
        return memo[id(v)]
    if isinstance(v, Msg):
        r = v.clone()
    elif isinstance(v, SymList):
        check_aliasing(v)
        r = SymList(v.n, v.arr, v.elem)
        for at in ('src', 'parent', 'cond_at', 'elt_at'):
            if hasattr(v, at):
                setattr(r, at, getattr(v, at))
    elif isinstance(v, list):
        r = []
        memo[id(v)] = r
        r.extend(deepcopy(it, x, memo) for x in v)
    elif isinstance(v, tuple):
        r = tuple(deepcopy(it, x, memo) for x in v)
    elif isinstance(v, PyDict):
        r = PyDict(v.default_factory)
        memo[id(v)] = r
        r.items_ = [[deepcopy(it, k, memo), deepcopy(it, x, memo)] for k, x in v.items_]
    elif isinstance(v, PySet):
        r = PySet()
        r.elems = list(v.elems)
    elif isinstance(v, DictView):
        r = DictView([deepcopy(it, x, memo) for x in v.items])
    elif isinstance(v, ExcObj):
        r = v
    elif isinstance(v, Obj):
        c, m = E.find_method(v.cls, '__deepcopy__') if isinstance(v.cls, ClassInfo) else (None, None)
        if m is not None:
            return it.invoke(FuncVal(c.mod, m, c), [v, PyDict()], {})
        r = Obj(v.cls)
        memo[id(v)] = r
        r.attrs = {k: deepcopy(it, x, memo) for k, x in v.attrs.items()}
    else:
        r = deepcopy_hook(it, v, memo)
        if r is MISSING:
            r = v
    memo[id(v)] = r
    return r


def deepcopy_hook(it, v, memo):
    return MISSING


EXTERNAL['copy.deepcopy'] = Builtin('copy.deepcopy', lambda it, args, kw: deepcopy(it, args[0]))


def _shallow(it, args, kw):
    v = args[0]
    if isinstance(v, list):
        return list(v)
    if isinstance(v, PyDict):
        d = PyDict(v.default_factory)
        d.items_ = [[k, x] for k, x in v.items_]
        return d
    if isinstance(v, Obj):
        r = Obj(v.cls)
        r.attrs = dict(v.attrs)
        return r
    return deepcopy(it, v)


EXTERNAL['copy.copy'] = Builtin('copy.copy', _shallow)
EXTERNAL['threading.Lock'] = Builtin('threading.Lock', lambda it, args, kw: LockObj('lock'))


def _defaultdict(it, args, kw):
    fac = args[0] if args else None
    if isinstance(fac, Builtin) and fac.name == 'threading.Lock':
        return LockTable('locks')
    return PyDict(default_factory=fac)


EXTERNAL['collections.defaultdict'] = Builtin('collections.defaultdict', _defaultdict)
EXTERNAL['collections.OrderedDict'] = Builtin('collections.OrderedDict', b_dict)
def _utcnow(it, args, kw):
    t = it.run.fresh('utcnow', z3.IntSort())
    it.run.now_terms = getattr(it.run, 'now_terms', []) + [t]
    return t


EXTERNAL['datetime.datetime.utcnow'] = Builtin('utcnow', _utcnow)
EXTERNAL['datetime.datetime.now'] = Builtin('now', lambda it, args, kw: it.run.fresh('now', z3.IntSort()))
EXTERNAL['time.sleep'] = Builtin('sleep', _noop)
EXTERNAL['time.time'] = Builtin('time', lambda it, args, kw: it.run.fresh('time', xreal.XReal))
EXTERNAL['math.isfinite'] = Builtin('isfinite', lambda it, args, kw: xreal.isfinite(xreal.lift(args[0])) if z3.is_expr(args[0]) else __import__('math').isfinite(args[0]))
EXTERNAL['math.isnan'] = Builtin('isnan', lambda it, args, kw: xreal.is_nan(xreal.lift(args[0])) if z3.is_expr(args[0]) else __import__('math').isnan(args[0]))
EXTERNAL['math.isinf'] = Builtin('isinf', lambda it, args, kw: z3.And(z3.Not(xreal.isfinite(xreal.lift(args[0]))), z3.Not(xreal.is_nan(xreal.lift(args[0])))) if z3.is_expr(args[0]) else __import__('math').isinf(args[0]))
EXTERNAL['math.inf'] = float('inf')
EXTERNAL['math.nan'] = float('nan')


def _typing_passthrough(it, args, kw):
    return args[0] if args else None


for _n in ('typing.cast',):
    EXTERNAL[_n] = Builtin(_n, lambda it, args, kw: args[1])
EXTERNAL['typing.TYPE_CHECKING'] = False
