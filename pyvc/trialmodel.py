"""pyvc.trialmodel -- models shared by the checks about *which trials an algorithm is given* (C12).

  * `PT`          pyvizier Trial abstraction: z3 datatype (id: Int, status: Str, ident: Int); `ident` is the ghost identity
                  of the trial (two trials that held the same id at different times have different identities)
  * `PredSet`     python set of ints as a characteristic predicate (DESIGN 2.2: sets as `Int -> Bool`), with `len` as an
                  abstract cardinality term; set(range(a, b)), set(<generator over an array-list>), `-`, `|`, `|=`, `in`
  * `ProvList`    append provenance for `out = []; for x in xs: if c(x): out.append(x)` (DESIGN 2.4): `out.src[j]` = index of
                  the iteration that appended out[j]
  * `SupporterRef` abstract PolicySupporter: `GetTrials(...)` by contract over the ghost list `run.ALL` of the study's trials
                  (the contract that C12 discharges for InRamPolicySupporter.GetTrials / ServicePolicySupporter.GetTrials)
  * `DesignerRef` a hosted algorithm: `update/suggest/dump/load` are recorded as events (any behaviour)
  * json.dumps / json.loads on lists of ints as an assumed inverse pair
"""
import ast

import z3

from . import engine as E
from . import models as M
from . import protomodel as pm
from .engine import Obj, ExcObj, PyRaise, Unsupported, Builtin, BuiltinClass
from .protomodel import SymList, Str

# ------------------------------------------------------------------------------------------ trials
PT = z3.Datatype('PTrial')
PT.declare('mk', ('id', z3.IntSort()), ('status', Str), ('ident', z3.IntSort()))
PT = PT.create()

STATUSES = ('UNKNOWN', 'REQUESTED', 'ACTIVE', 'COMPLETED', 'STOPPING')
PT_KIND = 'ptrial'
# attributes of a pyvizier Trial outside the abstraction (assignments to them do not change id/status/identity)
OUTSIDE = {'measurements', 'metadata', 'description', 'related_links', 'assigned_worker'}

_scalar_sort = pm.scalar_sort


def _scalar_sort2(kind):
    if kind == PT_KIND:
        return PT
    return _scalar_sort(kind)


pm.scalar_sort = _scalar_sort2


def status_lit(s):
    return pm.str_lit(s)


def status_domain(t):
    return z3.Or(*[PT.status(t) == status_lit(s) for s in STATUSES])


def is_ptrial(v):
    return z3.is_expr(v) and v.sort() == PT


# ------------------------------------------------------------------------------------------ sets of ints
class PredSet:
    """finite: optional list of python ints that contains every possible member (bounded model queries): then emptiness,
    max and min are exact ground terms instead of skolemised facts."""

    def __init__(self, pred, card=None, finite=None):
        self.pred, self.card, self.finite = pred, card, finite
        self._nonempty = self._max = self._min = None

    def has(self, x):
        return self.pred(E.as_int(x) if not z3.is_expr(x) else x)

    def copy(self):
        return PredSet(self.pred, self.card, self.finite)

    def __repr__(self):
        return '<predset>'


def _fact(run, f):
    (run.axiom if E._has_quantifier(f) else run.assume)(f)


def set_nonempty(it, s):
    """bool(s): exists x. x in s   (skolemised: a witness when true, a universal fact when false)"""
    if s._nonempty is None:
        run = it.run
        if s.finite is not None:
            s._nonempty = z3.Or(*[s.has(z3.IntVal(i)) for i in s.finite]) if s.finite else z3.BoolVal(False)
        else:
            b, w, x = run.fresh('nonempty', z3.BoolSort()), run.fresh('member', z3.IntSort()), z3.Int('x!ne')
            _fact(run, z3.Implies(b, s.has(w)))
            run.axiom(z3.Implies(z3.Not(b), z3.ForAll([x], z3.Not(s.has(x)))))
            s._nonempty = b
    return s._nonempty


def set_extreme(it, s, which):
    """max(s) / min(s): ValueError on the empty set, else a member that bounds every member."""
    if not it.truth(set_nonempty(it, s)):
        raise PyRaise(it.make_exc('ValueError', ['%s() arg is an empty sequence' % which]))
    cached = s._max if which == 'max' else s._min
    if cached is None:
        run = it.run
        v, x = run.fresh(which + '_of_set', z3.IntSort()), z3.Int('x!mx')
        bound = (lambda e: e <= v) if which == 'max' else (lambda e: e >= v)
        _fact(run, s.has(v))
        if s.finite is not None:
            for i in s.finite:
                run.assume(z3.Implies(s.has(z3.IntVal(i)), bound(z3.IntVal(i))))
        else:
            run.axiom(z3.ForAll([x], z3.Implies(s.has(x), bound(x))))
        cached = v
        if which == 'max':
            s._max = v
        else:
            s._min = v
    return cached


# number of distinct elements of the list (n, arr)
card_of_list = z3.Function('card_of_list', z3.IntSort(), z3.ArraySort(z3.IntSort(), z3.IntSort()), z3.IntSort())


def from_array(arr, card=None):
    return PredSet(lambda x: z3.Select(arr, x if z3.is_expr(x) else z3.IntVal(x)), card)


def as_predset(it, v):
    if isinstance(v, PredSet):
        return v
    if isinstance(v, M.PySet):
        elems = list(v.elems)
        return PredSet(lambda x: z3.Or(*[(x if z3.is_expr(x) else z3.IntVal(x)) == E.as_int(e) for e in elems]) if elems else z3.BoolVal(False),
                       card=None)
    if isinstance(v, (list, tuple)):
        return as_predset(it, M.make_set(it, list(v)))
    if isinstance(v, M.SymRange):
        lo, hi, st = v.lo, v.hi, v.step
        if st != 1:
            raise Unsupported('set(range) with a step')
        lo_t = lo if z3.is_expr(lo) else z3.IntVal(lo)
        hi_t = hi if z3.is_expr(hi) else z3.IntVal(hi)
        return PredSet(lambda x: z3.And((x if z3.is_expr(x) else z3.IntVal(x)) >= lo_t, (x if z3.is_expr(x) else z3.IntVal(x)) < hi_t),
                       card=z3.If(hi_t > lo_t, hi_t - lo_t, 0))
    if isinstance(v, SymList) and getattr(v, 'sorted_set', None) is not None:
        return v.sorted_set[0]                 # set(sorted(s)) == s
    if isinstance(v, SymList):
        n, arr = v.n, v.arr
        if v.elem != 'int':
            raise Unsupported('set() of an array-list of %s' % (v.elem,))
        j = z3.Int('j!ps')
        return PredSet(lambda x: z3.Exists([j], z3.And(j >= 0, j < n, arr[j] == (x if z3.is_expr(x) else z3.IntVal(x)))), card=card_of_list(n, arr))
    if isinstance(v, M.LazyGen):
        gen = v.e.generators[0]
        J = it.run.fresh('q', z3.IntSort())
        fr2 = E.Frame(v.fr.mod, {}, parent=v.fr)
        it.pure += 1
        try:
            it.assign(fr2, gen.target, v.xs.get(J))
            cond = E.zbool(E.zand(*[it.truth_term(it.eval(fr2, c)) for c in gen.ifs]))
            elt = E.to_z3(it.eval(fr2, v.e.elt))
        finally:
            it.pure -= 1
        n = v.xs.n
        j = z3.Int('j!pg')
        return PredSet(lambda x: z3.Exists([j], z3.And(j >= 0, j < n, z3.substitute(cond, (J, j)),
                                                         z3.substitute(elt, (J, j)) == (x if z3.is_expr(x) else z3.IntVal(x)))))
    return None


_orig_set = M.BUILTINS['set'].fn


def _b_set(it, args, kw):
    if args and isinstance(args[0], (PredSet, M.SymRange, M.LazyGen)) or (args and isinstance(args[0], SymList) and M.try_iterate(it, args[0]) is None):
        r = as_predset(it, args[0])
        if r is None:
            raise Unsupported('set(%r)' % (args[0],))
        return r.copy()
    return _orig_set(it, args, kw)


M.BUILTINS['set'] = Builtin('set', _b_set)
M.BUILTINS['frozenset'] = Builtin('frozenset', _b_set)


def _binop(it, op, l, r, inplace):
    if isinstance(l, PredSet) or isinstance(r, PredSet):
        if isinstance(op, (ast.Sub, ast.BitOr, ast.BitAnd)):
            a, b = as_predset(it, l), as_predset(it, r)
            if a is None or b is None:
                raise Unsupported('set operation between %r and %r' % (l, r))
            both = sorted(set(a.finite) | set(b.finite)) if (a.finite is not None and b.finite is not None) else None
            if isinstance(op, ast.Sub):
                return PredSet(lambda x: z3.And(a.has(x), z3.Not(b.has(x))), finite=a.finite)
            if isinstance(op, ast.BitOr):
                return PredSet(lambda x: z3.Or(a.has(x), b.has(x)), finite=both)
            return PredSet(lambda x: z3.And(a.has(x), b.has(x)), finite=a.finite if a.finite is not None else b.finite)
    if isinstance(op, ast.Sub) and isinstance(l, M.PySet) and isinstance(r, M.PySet):
        s = M.PySet()
        for x in l.elems:
            if r.find(it, x) is None:
                s.elems.append(x)
        return s
    return M.MISSING


def _contains(it, container, x):
    if isinstance(container, PredSet):
        return container.has(x)
    return M.MISSING


def _len(it, v):
    if isinstance(v, PredSet):
        if v.card is None:
            v.card = it.run.fresh('card', z3.IntSort())
            it.run.assume(v.card >= 0)
        return v.card
    return M.MISSING


def _iterate(it, v):
    if isinstance(v, PredSet):
        raise Unsupported('iteration over a symbolic set')
    return M.MISSING


def list_of_set(it, s):
    """list(s): some listing of the set without repetition (the order is unspecified)."""
    run = it.run
    n = run.fresh('setlist_n', z3.IntSort())
    arr = run.fresh('setlist_a', z3.ArraySort(z3.IntSort(), z3.IntSort()))
    run.assume(n >= 0)
    x, j, k = z3.Int('x!sl'), z3.Int('j!sl'), z3.Int('k!sl')
    run.axiom(z3.ForAll([x], s.has(x) == z3.Exists([j], z3.And(j >= 0, j < n, arr[j] == x))))
    run.axiom(z3.ForAll([j, k], z3.Implies(z3.And(j >= 0, j < k, k < n), arr[j] != arr[k])))
    run.assume(card_of_list(n, arr) == n)             # a listing without repetition has as many distinct elements as entries
    if s.card is not None:
        run.assume(n == s.card)                       # ... and that number is |s|
    run.set_listings = getattr(run, 'set_listings', []) + [(n, arr, s)]
    return SymList(n, arr, 'int')


def _wrap_extreme(which):
    orig = M.BUILTINS[which].fn

    def fn(it, args, kw):
        if len(args) == 1 and isinstance(args[0], PredSet):
            if 'default' in kw and not it.truth(set_nonempty(it, args[0])):
                return kw['default']
            return set_extreme(it, args[0], which)
        return orig(it, args, kw)
    M.BUILTINS[which] = Builtin(which, fn)


_wrap_extreme('max')
_wrap_extreme('min')

_orig_list = M.BUILTINS['list'].fn


def _b_list(it, args, kw):
    if args and isinstance(args[0], PredSet):
        return list_of_set(it, args[0])
    return _orig_list(it, args, kw)


M.BUILTINS['list'] = Builtin('list', _b_list)

# ------------------------------------------------------------------------------------------ json (assumed inverse pair on lists of ints)
json_dumps_ints = z3.Function('json_dumps_ints', z3.IntSort(), z3.ArraySort(z3.IntSort(), z3.IntSort()), Str)


def _json_dumps(it, args, kw):
    v = args[0]
    if isinstance(v, (list, tuple)):
        ps = as_predset(it, list(v))
        v = M.to_symlist(it, list(v), 'int')
        it.run.set_listings = getattr(it.run, 'set_listings', []) + [(v.n, v.arr, ps)]
    if isinstance(v, SymList) and v.elem == 'int':
        return json_dumps_ints(v.n, v.arr)
    raise Unsupported('json.dumps(%r)' % (v,))


def _json_loads(it, args, kw):
    s = args[0]
    if z3.is_expr(s) and z3.is_app(s) and s.decl().eq(json_dumps_ints):
        return SymList(s.arg(0), s.arg(1), 'int')       # assumed: json.loads(json.dumps(l)) == l
    run = it.run
    if run.choose(z3.Bool('json_invalid!%d' % run.cursor)):
        raise PyRaise(it.make_exc('json.JSONDecodeError', ['invalid json']))
    n = run.fresh('json_n', z3.IntSort())
    run.assume(n >= 0)
    return SymList(n, run.fresh('json_a', z3.ArraySort(z3.IntSort(), z3.IntSort())), 'int')


E.EXTERNAL['json.dumps'] = Builtin('json.dumps', _json_dumps)
E.EXTERNAL['json.loads'] = Builtin('json.loads', _json_loads)
E.EXTERNAL['json.JSONDecodeError'] = BuiltinClass('json.JSONDecodeError')
for _n in ('log_if',):
    E.EXTERNAL['absl.logging.' + _n] = Builtin('logging.' + _n, lambda it, args, kw: None)


# ------------------------------------------------------------------------------------------ append provenance
class ProvList(SymList):
    """array-list with the append provenance ghost `src` (index of the loop iteration that appended each element)."""

    def __init__(self, n, arr, elem, src=None, pos=None):
        SymList.__init__(self, n, arr, elem)
        self.src = src if src is not None else z3.K(z3.IntSort(), z3.IntVal(-1))
        # inverse ghost: pos[i] = position in this list of the element appended in iteration i
        self.pos = pos if pos is not None else z3.K(z3.IntSort(), z3.IntVal(-1))


def empty_provlist(kind):
    if isinstance(kind, pm.MsgSchema):
        es = pm.msg_sort(kind)
        return ProvList(z3.IntVal(0), z3.K(z3.IntSort(), pm._default_term(es)), kind)
    es = pm.scalar_sort(kind)
    return ProvList(z3.IntVal(0), z3.K(z3.IntSort(), pm._default_term(es) if es != PT else z3.Const('default_PTrial', PT)), kind)


_orig_append = M.symlist_append


def _append(it, lst, v):
    if isinstance(lst, ProvList):
        clk = it.run.ghost.get('symdict.clock', z3.IntVal(-1))
        lst.src = z3.Store(lst.src, lst.n, clk)
        lst.pos = z3.Store(lst.pos, clk, lst.n)
    return _orig_append(it, lst, v)


M.symlist_append = _append

_orig_snapshot = M.snapshot


def _snapshot(v):
    if isinstance(v, ProvList):
        return ProvList(v.n, v.arr, v.elem, v.src, v.pos)
    return _orig_snapshot(v)


M.snapshot = _snapshot


# ------------------------------------------------------------------------------------------ trials as values
def _getattr(it, v, a):
    if is_ptrial(v):
        if a == 'id':
            return PT.id(v)
        if a == 'status':
            return PT.status(v)
        raise Unsupported('attribute %s of a trial is outside the (id, status, identity) abstraction' % a)
    return M.MISSING


_orig_setattr = E.Interp.setattr


def _setattr(self, o, a, v):
    if is_ptrial(o):
        if a in OUTSIDE:
            self.run.assumed.add('assigning Trial.%s does not change the trial\'s id / status' % a)
            return
        raise Unsupported('assignment to Trial.%s' % a)
    return _orig_setattr(self, o, a, v)


E.Interp.setattr = _setattr


# ------------------------------------------------------------------------------------------ supporter / designer
def keep_fn(kw):
    """the filter of GetTrials(trial_ids, min_trial_id, max_trial_id, status_matches) as a predicate on a PT term."""
    ids, lo, hi, st = kw.get('trial_ids'), kw.get('min_trial_id'), kw.get('max_trial_id'), kw.get('status_matches')

    def keep(t):
        cs = []
        if ids is not None:
            cs.append(ids.has(PT.id(t)))
        if lo is not None:
            cs.append(PT.id(t) >= E.as_int(lo))
        if hi is not None:
            cs.append(PT.id(t) <= E.as_int(hi))
        if st is not None:
            cs.append(PT.status(t) == E.to_z3(st))
        return z3.And(*cs) if cs else z3.BoolVal(True)
    return keep


def filtered(it, xs, keep, tag):
    """[x for x in xs if keep(x)] : definitional (fresh list + provenance) or concrete (forks) when |xs| is concrete."""
    run = it.run
    conc = M.try_iterate(it, xs)
    if conc is not None:
        return [x for x in conc if it.truth(keep(E.to_z3(x)))]
    n = run.fresh(tag + '_n', z3.IntSort())
    arr = run.fresh(tag + '_a', z3.ArraySort(z3.IntSort(), PT))
    src = run.fresh(tag + '_src', z3.ArraySort(z3.IntSort(), z3.IntSort()))
    pos = run.fresh(tag + '_pos', z3.ArraySort(z3.IntSort(), z3.IntSort()))
    run.assume(n >= 0)
    run.assume(n <= xs.n)
    j, k, i = z3.Int('j!f'), z3.Int('k!f'), z3.Int('i!f')
    run.axiom(z3.ForAll([j], z3.Implies(z3.And(j >= 0, j < n), z3.And(src[j] >= 0, src[j] < xs.n, keep(xs.arr[src[j]]), arr[j] == xs.arr[src[j]]))))
    run.axiom(z3.ForAll([j, k], z3.Implies(z3.And(j >= 0, j < k, k < n), src[j] < src[k])))
    # every kept element occurs (skolemised: at position pos[i])
    run.axiom(z3.ForAll([i], z3.Implies(z3.And(i >= 0, i < xs.n, keep(xs.arr[i])), z3.And(pos[i] >= 0, pos[i] < n, src[pos[i]] == i))))
    r = ProvList(n, arr, PT_KIND, src, pos)
    r.parent = xs
    return r


class SupporterRef:
    """abstract PolicySupporter over the ghost list run.ALL (storage order)."""

    def __init__(self, tag='supporter'):
        self.tag = tag


def _supporter_get_trials(it, args, kw):
    run = it.run
    sup = args[0]
    if len(args) > 1:
        raise PyRaise(it.make_exc('TypeError', ['GetTrials takes keyword arguments only']))
    kw = dict(kw)
    unknown = set(kw) - {'study_guid', 'trial_ids', 'min_trial_id', 'max_trial_id', 'status_matches', 'include_intermediate_measurements'}
    if unknown:
        raise PyRaise(it.make_exc('TypeError', ['unexpected keyword %s' % sorted(unknown)[0]]))
    if kw.get('study_guid') is not None:
        raise Unsupported('GetTrials for a prior study')
    if kw.get('trial_ids') is not None:
        ps = as_predset(it, kw['trial_ids'])
        if ps is None:
            raise Unsupported('GetTrials(trial_ids=%r)' % (kw['trial_ids'],))
        kw['trial_ids'] = ps
    n = len([e for e in run.events if e[0] == 'GetTrials'])
    r = filtered(it, run.ALL, keep_fn(kw), 'gt%d' % n)
    run.event('GetTrials', {k: v for k, v in kw.items() if v is not None}, r if not isinstance(r, list) else list(r))
    return r


class DesignerRef:
    def __init__(self, tag):
        self.tag = tag


def _trials_of(v):
    if isinstance(v, Obj) and 'trials' in v.attrs:
        return v.attrs['trials']
    return v


def _designer_method(name):
    def fn(it, args, kw):
        run = it.run
        d = args[0]
        if name == 'update':
            rest = list(args[1:])
            names = ['completed', 'all_active']
            vals = dict(kw)
            for nm, v in zip(names, rest):
                vals[nm] = v
            run.event('designer.update', d.tag, _trials_of(vals.get('completed')), _trials_of(vals.get('all_active')))
            return None
        if name == 'suggest':
            run.event('designer.suggest', d.tag)
            n = run.fresh('nsugg', z3.IntSort())
            run.assume(n >= 0)
            run.nsugg = n
            return SymList(n, run.fresh('sugg', z3.ArraySort(z3.IntSort(), pm.PyObj)), 'pyobj')
        if name == 'dump':
            run.event('designer.dump', d.tag)
            hook = getattr(run, 'designer_dump', None)
            if hook is None:
                raise Unsupported('designer.dump() needs run.designer_dump')
            return hook(it, d)
        if name == 'load':
            run.event('designer.load', d.tag)
            if run.choose(z3.Bool('designer_load_fails!%d' % run.cursor)):
                cls = getattr(run, 'decode_error_class', None)
                if cls is None:
                    raise Unsupported('designer.load() failure needs run.decode_error_class')
                raise PyRaise(ExcObj(cls, {'args': ('cannot decode',)}))
            return None
        raise Unsupported('designer method %s' % name)
    return fn


def _value_getattr(it, v, a):
    if isinstance(v, SupporterRef):
        if a == 'GetTrials':
            return E.Bound(v, Builtin('supporter.GetTrials', _supporter_get_trials))
        raise Unsupported('PolicySupporter.%s has no contract' % a)
    if isinstance(v, DesignerRef):
        if a in ('update', 'suggest', 'dump', 'load'):
            return E.Bound(v, Builtin('designer.' + a, _designer_method(a)))
        raise Unsupported('Designer.%s has no contract' % a)
    return _getattr(it, v, a)


def _truth(prev):
    def hook(it, v):
        if isinstance(v, (SupporterRef, DesignerRef)):
            return True
        if isinstance(v, PredSet):
            return set_nonempty(it, v)
        return prev(it, v)
    return hook


M.truth_hook = _truth(M.truth_hook)


def _chain(name, fn):
    prev = getattr(M, name)

    def hook(*a):
        r = fn(*a)
        if r is not M.MISSING:
            return r
        return prev(*a)
    setattr(M, name, hook)


_chain('binop_hook', _binop)
_chain('contains_hook', _contains)
_chain('len_hook', _len)
_chain('iterate_hook', _iterate)
_chain('value_getattr_hook', _value_getattr)


def _fresh_like(it, v, name):
    if isinstance(v, ProvList):
        return M.MISSING          # handled by models.fresh_like (SymList branch); the loop contract havocs `src` at the head
    return M.MISSING


# str(obj) of an opaque python object inside a logging call
TRUST = ['json.dumps / json.loads are an inverse pair on lists of ints (DESIGN 9.4)',
         'list(set) enumerates the set without repetition, in an unspecified order',
         'pyvizier Trial abstracted to (id, status, ghost identity); assigning Trial.measurements does not change them']


# ------------------------------------------------------------------------------------------ comprehensions producing trials
_orig_filter_map = M.symbolic_filter_map


def _filter_map(it, fr, e, xs):
    """[elt(x) for x in xs if c(x)] over an array-list of trials (models.symbolic_filter_map knows only scalar/message elements)."""
    if xs.elem != PT_KIND and not isinstance(xs.elem, pm.MsgSchema):
        return _orig_filter_map(it, fr, e, xs)
    run = it.run
    gen = e.generators[0]
    J = run.fresh('cj', z3.IntSort())
    fr2 = E.Frame(fr.mod, {}, parent=fr)
    it.pure += 1
    try:
        it.assign(fr2, gen.target, xs.get(J))
        cond = E.zbool(E.zand(*[it.truth_term(it.eval(fr2, c)) for c in gen.ifs]))
        eltv = it.eval(fr2, e.elt)
    finally:
        it.pure -= 1
    eterm = E.to_z3(eltv)
    kind = {z3.IntSort(): 'int', z3.BoolSort(): 'bool', Str: 'str', PT: PT_KIND}.get(eterm.sort())
    if isinstance(eltv, pm.Msg):
        kind = eltv.schema
    if kind is None:
        raise Unsupported('comprehension element sort %s' % eterm.sort())
    n = run.fresh('cn', z3.IntSort())
    arr = run.fresh('carr', z3.ArraySort(z3.IntSort(), eterm.sort()))
    src = run.fresh('csrc', z3.ArraySort(z3.IntSort(), z3.IntSort()))
    pos = run.fresh('cpos', z3.ArraySort(z3.IntSort(), z3.IntSort()))
    r = ProvList(n, arr, kind, src, pos)
    r.parent, r.cond_at, r.elt_at = xs, (lambda i: z3.substitute(cond, (J, i))), (lambda i: z3.substitute(eterm, (J, i)))
    run.assume(n >= 0)
    run.assume(n <= xs.n)
    run.filters = getattr(run, 'filters', []) + [M.snapshot(r)]
    run.filters[-1].parent, run.filters[-1].cond_at, run.filters[-1].elt_at = r.parent, r.cond_at, r.elt_at
    j, k, i = z3.Int('j!c'), z3.Int('k!c'), z3.Int('i!c')
    run.axiom(z3.ForAll([j], z3.Implies(z3.And(j >= 0, j < n), z3.And(src[j] >= 0, src[j] < xs.n, r.cond_at(src[j]), arr[j] == r.elt_at(src[j])))))
    run.axiom(z3.ForAll([j, k], z3.Implies(z3.And(j >= 0, j < k, k < n), src[j] < src[k])))
    run.axiom(z3.ForAll([i], z3.Implies(z3.And(i >= 0, i < xs.n, r.cond_at(i)), z3.And(pos[i] >= 0, pos[i] < n, src[pos[i]] == i))))
    return r


M.symbolic_filter_map = _filter_map


# ------------------------------------------------------------------------------------------ all()/any() over range(a, b) with symbolic bounds
class RangeGen:
    """generator expression over range(lo, hi) with symbolic bounds, consumed by all()/any() as a bounded quantifier"""

    def __init__(self, fr, e, rng):
        self.fr, self.e, self.rng = fr, e, rng

    def quantified(self, it, universal):
        run = it.run
        gen = self.e.generators[0]
        if self.rng.step != 1 or len(self.e.generators) != 1 or not isinstance(gen.target, ast.Name):
            raise Unsupported('generator over a symbolic range with a step / nested generators')
        J = run.fresh('r', z3.IntSort())
        fr2 = E.Frame(self.fr.mod, {gen.target.id: J}, parent=self.fr)
        it.pure += 1
        try:
            cond = E.zbool(E.zand(*[it.truth_term(it.eval(fr2, c)) for c in gen.ifs]))
            body = E.zbool(it.truth_term(it.eval(fr2, self.e.elt)))
        finally:
            it.pure -= 1
        lo = self.rng.lo if z3.is_expr(self.rng.lo) else z3.IntVal(self.rng.lo)
        hi = self.rng.hi if z3.is_expr(self.rng.hi) else z3.IntVal(self.rng.hi)
        j = z3.Int('j!rg')
        inr = z3.And(j >= lo, j < hi, z3.substitute(cond, (J, j)))
        f = z3.ForAll([j], z3.Implies(inr, z3.substitute(body, (J, j)))) if universal else z3.Exists([j], z3.And(inr, z3.substitute(body, (J, j))))
        # the path solver stays quantifier-free: branch on a fresh boolean defined by the quantified fact
        b = run.fresh('all_in_range' if universal else 'any_in_range', z3.BoolSort())
        run.axiom(b == f)
        return b


_orig_comprehension = M.comprehension


def _comprehension(it, fr, e, kind):
    if kind == 'gen' and len(e.generators) == 1:
        first = it.eval(fr, e.generators[0].iter)
        if isinstance(first, M.SymRange):
            return RangeGen(fr, e, first)
    return _orig_comprehension(it, fr, e, kind)


M.comprehension = _comprehension


def _wrap_quant(name, universal):
    orig = M.BUILTINS[name].fn

    def fn(it, args, kw):
        if args and isinstance(args[0], RangeGen):
            return args[0].quantified(it, universal)
        return orig(it, args, kw)
    M.BUILTINS[name] = Builtin(name, fn)


_wrap_quant('all', True)
_wrap_quant('any', False)


# ------------------------------------------------------------------------------------------ sorted(<symbolic set of ints>)
def sorted_of_set(it, s):
    """sorted(s): the strictly increasing listing of the set; `lpos` is its inverse (position of a member)."""
    run = it.run
    n = run.fresh('sortedset_n', z3.IntSort())
    arr = run.fresh('sortedset_a', z3.ArraySort(z3.IntSort(), z3.IntSort()))
    lpos = run.fresh('sortedset_pos', z3.ArraySort(z3.IntSort(), z3.IntSort()))
    run.assume(n >= 0)
    x, j, k = z3.Int('x!ss'), z3.Int('j!ss'), z3.Int('k!ss')
    run.axiom(z3.ForAll([j], z3.Implies(z3.And(j >= 0, j < n), z3.And(s.has(arr[j]), lpos[arr[j]] == j))))
    run.axiom(z3.ForAll([x], z3.Implies(s.has(x), z3.And(lpos[x] >= 0, lpos[x] < n, arr[lpos[x]] == x))))
    run.axiom(z3.ForAll([j, k], z3.Implies(z3.And(j >= 0, j < k, k < n), arr[j] < arr[k])))
    run.assume(card_of_list(n, arr) == n)
    if s.card is not None:
        run.assume(n == s.card)
    r = SymList(n, arr, 'int')
    r.sorted_set = (s, lpos)
    run.set_listings = getattr(run, 'set_listings', []) + [(n, arr, s)]
    return r


def _wrap_sorted():
    orig = M.BUILTINS['sorted'].fn

    def fn(it, args, kw):
        if args and isinstance(args[0], PredSet):
            if kw.get('key') is not None or kw.get('reverse', False) is not False:
                raise Unsupported('sorted(<symbolic set>, key=/reverse=)')
            return sorted_of_set(it, args[0])
        return orig(it, args, kw)
    M.BUILTINS['sorted'] = Builtin('sorted', fn)


_wrap_sorted()
