"""pyvc.flowframe -- construction frames (DESIGN.md 6): backward data-flow slice from a sink expression to its sources.

`Slicer(cls_info, producers, ...).origins_of_returns('suggest')` computes, flow-insensitively and class-aware, the set of
*leaves* every value reaching the return expressions of a method can come from:

    producer:<label>   a call of a declared value producer (its arguments are not followed: the producer's contract holds for
                       every argument)
    const:<repr>       a literal;  arith:<op>  the result of an arithmetic / comparison operator
    call:<dotted>      a call of anything else;  param:<name>  a parameter of the method under analysis
    attr:self.<name>   an attribute of self never assigned in the class

Followed transparently: local assignments, for / comprehension targets (element of the iterable; zip / enumerate /
.items() positionally), container mutation (x.append(v), x.extend(v), x[k] = v, x.update(v), x[k].append(v)),
subscripts (x[i] -> x), `self.attr` (every assignment / mutation of that attribute in any method of the class),
`self.method(...)` (the return expressions of that method, parameters substituted by the arguments), pass-through
calls (copy.deepcopy, dict, list, tuple, sorted, reversed, .items/.values/.keys/.copy/.get) and the sink constructors.
Constructs outside this list raise `Unanalysable` (the obligation is then undecided / a checker error, never a violation).
"""
import ast


class Unanalysable(Exception):
    pass


PASS_FUNCS = {'copy.deepcopy', 'copy.copy', 'dict', 'list', 'tuple', 'sorted', 'reversed', 'set', 'frozenset', 'iter', 'next'}
PASS_METHODS = {'items', 'values', 'keys', 'copy', 'get', 'pop', 'setdefault'}
MUTATORS = {'append': 0, 'extend': 0, 'add': 0, 'update': 0, 'insert': 1}
INPLACE_NOOP = {'shuffle', 'sort', 'reverse', 'clear', 'fast_forward'}


def dotted(e):
    if isinstance(e, ast.Name):
        return e.id
    if isinstance(e, ast.Attribute):
        b = dotted(e.value)
        return None if b is None else b + '.' + e.attr
    return None


def dotted_calls(e):
    """like dotted(), with intermediate calls rendered as `f()`:  lib.RandomDesigner(space).suggest -> lib.RandomDesigner().suggest"""
    if isinstance(e, ast.Name):
        return e.id
    if isinstance(e, ast.Attribute):
        b = dotted_calls(e.value)
        return None if b is None else b + '.' + e.attr
    if isinstance(e, ast.Call):
        b = dotted_calls(e.func)
        return None if b is None else b + '()'
    return None


def root_name(e):
    """the local name / self attribute a container expression is rooted at: x, x[k], x[k][j], self.a, self.a[k]"""
    while isinstance(e, ast.Subscript):
        e = e.value
    if isinstance(e, ast.Name):
        return ('local', e.id)
    if isinstance(e, ast.Attribute) and isinstance(e.value, ast.Name) and e.value.id == 'self':
        return ('self', e.attr)
    return None


class Slicer:
    def __init__(self, cls_info, producers, sinks=('TrialSuggestion', 'ParameterDict'), module_funcs=None, max_depth=60):
        self.cls = cls_info
        self.producers = producers            # {dotted-suffix: label}
        self.sinks = set(sinks)
        self.module_funcs = module_funcs or {}
        self.max_depth = max_depth
        self.assumptions = set()

    # ------------------------------------------------------------------ helpers
    def methods(self):
        out = {}
        for k, node in self.cls.methods.items():
            if '.' not in k:
                out[k] = node
        return out

    def producer_label(self, call, fn=None):
        d = dotted_calls(call.func)
        # receiver bound once to a constructor call:  d = lib.RandomDesigner(space); d.suggest(n)   ->   lib.RandomDesigner().suggest
        f = call.func
        if fn is not None and isinstance(f, ast.Attribute) and isinstance(f.value, ast.Name):
            binds = [n.value for n in ast.walk(fn) if isinstance(n, ast.Assign) and any(isinstance(t, ast.Name) and t.id == f.value.id for t in n.targets)]
            if len(binds) == 1 and isinstance(binds[0], ast.Call):
                b = dotted_calls(binds[0])
                if b is not None:
                    d = b + '.' + f.attr
        if d is None:
            return None
        for suffix, label in self.producers.items():
            if d == suffix or d.endswith('.' + suffix):
                return label
        return None

    def params(self, fn):
        a = fn.args
        return [x.arg for x in a.posonlyargs + a.args + a.kwonlyargs]

    # ------------------------------------------------------------------ the slice
    def origins_of_returns(self, method):
        fn = self.methods()[method]
        out = set()
        for n in ast.walk(fn):
            if isinstance(n, ast.Return) and n.value is not None:
                out |= self.expr(fn, n.value, {}, frozenset(), 0)
        return out

    def expr(self, fn, e, env, seen, depth):
        if depth > self.max_depth:
            raise Unanalysable('slice depth exceeded')
        rec = lambda x, env2=None: self.expr(fn, x, env if env2 is None else env2, seen, depth + 1)
        if isinstance(e, ast.Constant):
            return set() if e.value is None else {'const:%r' % (e.value,)}
        if isinstance(e, ast.Name):
            if e.id in env:
                return set(env[e.id])
            return self.local(fn, e.id, seen, depth)
        if isinstance(e, ast.Attribute):
            if isinstance(e.value, ast.Name) and e.value.id == 'self':
                return self.self_attr(e.attr, seen, depth)
            return rec(e.value)                      # a field of a produced / configured object
        if isinstance(e, ast.Subscript):
            return rec(e.value)
        if isinstance(e, (ast.List, ast.Tuple, ast.Set)):
            out = set()
            for x in e.elts:
                out |= rec(x.value if isinstance(x, ast.Starred) else x)
            return out
        if isinstance(e, ast.Dict):
            out = set()
            for x in e.values:
                out |= rec(x)
            return out
        if isinstance(e, ast.IfExp):
            return rec(e.body) | rec(e.orelse)
        if isinstance(e, ast.BoolOp):
            out = set()
            for x in e.values:
                out |= rec(x)
            return out
        if isinstance(e, (ast.BinOp, ast.UnaryOp, ast.Compare)):
            return {'arith:%s' % type(getattr(e, 'op', e)).__name__}
        if isinstance(e, (ast.ListComp, ast.GeneratorExp, ast.SetComp, ast.DictComp)):
            env2 = dict(env)
            for g in e.generators:
                self.bind_target(fn, g.target, g.iter, env2, seen, depth)
            return self.expr(fn, e.value if isinstance(e, ast.DictComp) else e.elt, env2, seen, depth + 1)
        if isinstance(e, ast.Call):
            return self.call(fn, e, env, seen, depth)
        if isinstance(e, ast.JoinedStr):
            return {'const:<f-string>'}
        raise Unanalysable('expression %s at line %s' % (type(e).__name__, getattr(e, 'lineno', '?')))

    def call(self, fn, e, env, seen, depth):
        rec = lambda x: self.expr(fn, x, env, seen, depth + 1)
        lab = self.producer_label(e, fn)
        if lab is not None:
            return {'producer:' + lab}
        d = dotted(e.func)
        if any(isinstance(a, ast.Starred) for a in e.args) or any(k.arg is None for k in e.keywords):
            raise Unanalysable('star-arguments in a call at line %s' % e.lineno)
        last = d.split('.')[-1] if d else None
        if last in self.sinks:
            out = set()
            for a in list(e.args) + [k.value for k in e.keywords if k.arg in (None, 'parameters')]:
                out |= rec(a)
            return out
        if d in PASS_FUNCS or (d and d.split('.', 1)[-1] in PASS_FUNCS):
            return rec(e.args[0]) if e.args else set()
        if isinstance(e.func, ast.Attribute) and e.func.attr in PASS_METHODS:
            return rec(e.func.value)
        if d in ('zip', 'enumerate'):
            out = set()
            for a in e.args:
                out |= rec(a)
            return out
        if isinstance(e.func, ast.Attribute) and isinstance(e.func.value, ast.Name) and e.func.value.id == 'self' \
                and e.func.attr in self.methods():
            return self.method_returns(e.func.attr, e, fn, env, seen, depth)
        if isinstance(e.func, ast.Name) and e.func.id in self.module_funcs:
            return self.function_returns(self.module_funcs[e.func.id], e, fn, env, seen, depth, skip_self=False)
        if isinstance(e.func, ast.Attribute) and isinstance(e.func.value, ast.Name) and e.func.value.id == 'self':
            return {'unresolved:self.%s (not defined in the class: inherited?)' % e.func.attr}
        return {'call:%s' % (d or '<expr>')}

    def method_returns(self, name, call, fn, env, seen, depth):
        key = ('method', name)
        if key in seen:
            return set()
        return self.function_returns(self.methods()[name], call, fn, env, seen | {key}, depth, skip_self=True)

    def function_returns(self, callee, call, fn, env, seen, depth, skip_self):
        ps = self.params(callee)
        if skip_self and ps and ps[0] in ('self', 'cls'):
            ps = ps[1:]
        env2 = {}
        for i, a in enumerate(call.args):
            if i < len(ps):
                env2[ps[i]] = self.expr(fn, a, env, seen, depth + 1)
        for k in call.keywords:
            env2[k.arg] = self.expr(fn, k.value, env, seen, depth + 1)
        out = set()
        for n in ast.walk(callee):
            if isinstance(n, ast.Return) and n.value is not None:
                out |= self.expr(callee, n.value, env2, seen, depth + 1)
        return out

    # ------------------------------------------------------------------ names
    def local(self, fn, name, seen, depth):
        key = ('local', id(fn), name)
        if key in seen:
            return set()
        seen = seen | {key}
        out, found = set(), False
        if name in self.params(fn):
            if name in ('self', 'cls'):
                return set()
            out.add('param:' + name)
            found = True
        for n in ast.walk(fn):
            if isinstance(n, (ast.Assign, ast.AnnAssign)):
                targets = n.targets if isinstance(n, ast.Assign) else [n.target]
                if n.value is None:
                    continue
                for t in targets:
                    if self.target_binds(t, name):
                        out |= self.expr(fn, n.value, {}, seen, depth + 1)
                        found = True
                    if isinstance(t, ast.Subscript) and root_name(t) == ('local', name):
                        out |= self.expr(fn, n.value, {}, seen, depth + 1)        # x[k] = v
                        found = True
            elif isinstance(n, ast.AugAssign):
                if self.target_binds(n.target, name) or (isinstance(n.target, ast.Subscript) and root_name(n.target) == ('local', name)):
                    out |= {'arith:%s' % type(n.op).__name__} if not isinstance(n.op, ast.Add) else self.expr(fn, n.value, {}, seen, depth + 1)
                    found = True
            elif isinstance(n, (ast.For, ast.comprehension)):
                if self.target_binds(n.target, name):
                    env2 = {}
                    self.bind_target(fn, n.target, n.iter, env2, seen, depth)
                    out |= env2.get(name, set())
                    found = True
            elif isinstance(n, ast.Call) and isinstance(n.func, ast.Attribute) and n.func.attr in MUTATORS \
                    and root_name(n.func.value) == ('local', name):
                i = MUTATORS[n.func.attr]
                if len(n.args) > i:
                    out |= self.expr(fn, n.args[i], {}, seen, depth + 1)
                found = True
        # elements mutated through a loop alias:  for d, v in zip(name, vs): d[k] = v   /   for d in name: d.append(v)
        for alias in self.element_aliases(fn, name):
            if ('alias', id(fn), alias) in seen:
                continue
            m = self.mutations(fn, alias, seen | {('alias', id(fn), alias)}, depth)
            out |= m
        if not found:
            d = self.cls.mod.imports.get(name) if hasattr(self.cls.mod, 'imports') else None
            if d is not None or name in self.cls.mod.funcs or name in self.cls.mod.classes:
                return {'call:%s' % name}
            raise Unanalysable('name %s has no binding in %s' % (name, fn.name))
        return out

    def element_aliases(self, fn, name):
        out = []
        for n in ast.walk(fn):
            if not isinstance(n, (ast.For, ast.comprehension)):
                continue
            it, tg = n.iter, n.target
            if isinstance(it, ast.Name) and it.id == name and isinstance(tg, ast.Name):
                out.append(tg.id)
            elif isinstance(it, ast.Call) and dotted(it.func) == 'zip' and isinstance(tg, (ast.Tuple, ast.List)) and len(tg.elts) == len(it.args):
                for t, a in zip(tg.elts, it.args):
                    if isinstance(a, ast.Name) and a.id == name and isinstance(t, ast.Name):
                        out.append(t.id)
        return out

    def mutations(self, fn, name, seen, depth):
        """origins of everything stored into the container `name` (x[k] = v, x.append(v), ...)"""
        out = set()
        for n in ast.walk(fn):
            if isinstance(n, ast.Assign):
                for t in n.targets:
                    if isinstance(t, ast.Subscript) and root_name(t) == ('local', name):
                        env = {}
                        out |= self.expr(fn, n.value, env, seen, depth + 1)
            elif isinstance(n, ast.Call) and isinstance(n.func, ast.Attribute) and n.func.attr in MUTATORS \
                    and root_name(n.func.value) == ('local', name):
                i = MUTATORS[n.func.attr]
                if len(n.args) > i:
                    out |= self.expr(fn, n.args[i], {}, seen, depth + 1)
        return out

    def target_binds(self, t, name):
        if isinstance(t, ast.Name):
            return t.id == name
        if isinstance(t, (ast.Tuple, ast.List)):
            return any(self.target_binds(x, name) for x in t.elts)
        if isinstance(t, ast.Starred):
            return self.target_binds(t.value, name)
        return False

    def bind_target(self, fn, target, it, env, seen, depth):
        """bind the names of a for / comprehension target to the origins of the elements of `it`"""
        ex = lambda x: self.expr(fn, x, env, seen, depth + 1)
        if isinstance(target, ast.Name):
            env[target.id] = ex(it)
            return
        if isinstance(target, (ast.Tuple, ast.List)):
            if isinstance(it, ast.Call) and dotted(it.func) == 'zip' and len(it.args) == len(target.elts):
                for t, a in zip(target.elts, it.args):
                    self.bind_target(fn, t, a, env, seen, depth)
                return
            if isinstance(it, ast.Call) and dotted(it.func) == 'enumerate' and len(target.elts) == 2:
                self.bind_target(fn, target.elts[0], ast.Constant(value=None), env, seen, depth)
                self.bind_target(fn, target.elts[1], it.args[0], env, seen, depth)
                return
            if isinstance(it, ast.Call) and isinstance(it.func, ast.Attribute) and it.func.attr == 'items' and len(target.elts) == 2:
                self.bind_target(fn, target.elts[0], ast.Constant(value=None), env, seen, depth)     # keys: not values
                self.bind_target(fn, target.elts[1], it.func.value, env, seen, depth)
                return
            o = ex(it)
            for t in target.elts:
                for nm in [x.id for x in ast.walk(t) if isinstance(x, ast.Name)]:
                    env[nm] = set(o)
            return
        raise Unanalysable('loop target %s' % type(target).__name__)

    # ------------------------------------------------------------------ attributes of self
    def self_attr(self, attr, seen, depth):
        key = ('self', attr)
        if key in seen:
            return set()
        seen = seen | {key}
        out, found = set(), False
        for mname, fn in self.methods().items():
            for n in ast.walk(fn):
                if isinstance(n, (ast.Assign, ast.AnnAssign)) and n.value is not None:
                    targets = n.targets if isinstance(n, ast.Assign) else [n.target]
                    for t in targets:
                        if root_name(t) == ('self', attr):
                            out |= self.expr(fn, n.value, {}, seen, depth + 1)
                            found = True
                elif isinstance(n, ast.AugAssign) and root_name(n.target) == ('self', attr):
                    out |= {'arith:%s' % type(n.op).__name__}
                    found = True
                elif isinstance(n, ast.Call) and isinstance(n.func, ast.Attribute) and n.func.attr in MUTATORS \
                        and root_name(n.func.value) == ('self', attr):
                    i = MUTATORS[n.func.attr]
                    if len(n.args) > i:
                        out |= self.expr(fn, n.args[i], {}, seen, depth + 1)
                    found = True
        if not found:
            return {'attr:self.' + attr}
        return out
