"""Extraction of the functions under contract from the repository's *current* working tree.

Every run re-reads the files from $VERIF_REPO (default /repo); nothing is cached across
runs and there is no hand-written copy of any repository function in /verif.
"""
import ast
import hashlib
import os

REPO = os.environ.get('VERIF_REPO', '/repo')


class ClassInfo:
    def __init__(self, mod, node, outer=None):
        self.mod, self.node, self.name = mod, node, node.name
        self.outer = outer
        self.qualname = (outer.qualname + '.' if outer else '') + node.name
        self.bases = [ast.unparse(b) for b in node.bases]
        self.base_nodes = list(node.bases)
        self.decorators = [ast.unparse(d) for d in node.decorator_list]
        self.methods, self.assigns, self.classes, self.annotations = {}, {}, {}, {}
        self.field_order = []
        for n in node.body:
            if isinstance(n, (ast.FunctionDef,)):
                # keep the *last* definition unless it is a property setter
                decos = [ast.unparse(d) for d in n.decorator_list]
                if any(d.endswith('.setter') or d.endswith('.deleter') for d in decos):
                    self.methods.setdefault(n.name + '.setter', n)
                    continue
                self.methods[n.name] = n
            elif isinstance(n, ast.ClassDef):
                self.classes[n.name] = ClassInfo(mod, n, self)
            elif isinstance(n, ast.Assign) and len(n.targets) == 1 and isinstance(n.targets[0], ast.Name):
                self.assigns[n.targets[0].id] = n.value
                self.field_order.append(n.targets[0].id)
            elif isinstance(n, ast.AnnAssign) and isinstance(n.target, ast.Name):
                self.annotations[n.target.id] = n.annotation
                self.field_order.append(n.target.id)
                if n.value is not None:
                    self.assigns[n.target.id] = n.value

    def __repr__(self):
        return '<class %s.%s>' % (self.mod.dotted, self.qualname)

    def method_decorators(self, name):
        n = self.methods.get(name)
        return [ast.unparse(d) for d in n.decorator_list] if n is not None else []


class ModuleInfo:
    cache = {}

    def __init__(self, dotted, path):
        self.dotted, self.path = dotted, path
        self.src = open(path).read()
        self.tree = ast.parse(self.src)
        self.lines = self.src.splitlines()
        self.funcs, self.classes, self.imports, self.assigns = {}, {}, {}, {}
        self._scan(self.tree.body)

    def _scan(self, body):
        for n in body:
            if isinstance(n, ast.FunctionDef):
                self.funcs[n.name] = n
            elif isinstance(n, ast.ClassDef):
                self.classes[n.name] = ClassInfo(self, n)
            elif isinstance(n, ast.ImportFrom):
                base = n.module or ''
                if n.level:
                    pk = self.dotted.split('.')[:-n.level]
                    base = '.'.join(pk + ([n.module] if n.module else []))
                for a in n.names:
                    self.imports[a.asname or a.name] = base + '.' + a.name
            elif isinstance(n, ast.Import):
                for a in n.names:
                    if a.asname:
                        self.imports[a.asname] = a.name
                    else:
                        self.imports[a.name.split('.')[0]] = a.name.split('.')[0]
            elif isinstance(n, ast.Assign) and len(n.targets) == 1 and isinstance(n.targets[0], ast.Name):
                self.assigns[n.targets[0].id] = n.value
            elif isinstance(n, ast.AnnAssign) and isinstance(n.target, ast.Name) and n.value is not None:
                self.assigns[n.target.id] = n.value
            elif isinstance(n, (ast.If, ast.Try)):
                # module-level conditional definitions (e.g. `if typing.TYPE_CHECKING`)
                for sub in getattr(n, 'body', []):
                    if isinstance(sub, (ast.FunctionDef, ast.ClassDef, ast.Assign)):
                        self._scan([sub])

    @classmethod
    def get(cls, dotted):
        key = (REPO, dotted)
        if key not in cls.cache:
            p = module_path(dotted)
            if p is None:
                raise FileNotFoundError(dotted)
            cls.cache[key] = ModuleInfo(dotted, p)
        return cls.cache[key]

    @classmethod
    def exists(cls, dotted):
        return module_path(dotted) is not None

    def find(self, qualname):
        """'f' | 'Class.method' | 'Class.Inner.method' -> (ClassInfo|None, FunctionDef)."""
        parts = qualname.split('.')
        if len(parts) == 1:
            return None, self.funcs[parts[0]]
        c = self.classes[parts[0]]
        for p in parts[1:-1]:
            c = c.classes[p]
        return c, c.methods[parts[-1]]

    def find_class(self, qualname):
        parts = qualname.split('.')
        c = self.classes[parts[0]]
        for p in parts[1:]:
            c = c.classes[p]
        return c

    def segment(self, node):
        return '\n'.join(self.lines[node.lineno - 1:node.end_lineno])


def module_path(dotted):
    base = os.path.join(REPO, dotted.replace('.', '/'))
    if os.path.isfile(base + '.py'):
        return base + '.py'
    if os.path.isfile(os.path.join(base, '__init__.py')):
        return os.path.join(base, '__init__.py')
    return None


def file_to_dotted(relpath):
    p = relpath[:-3] if relpath.endswith('.py') else relpath
    if p.endswith('/__init__'):
        p = p[:-9]
    return p.replace('/', '.')


def function_record(dotted, qualname):
    """Evidence record of a function under contract: path, line span, sha256 of its text."""
    m = ModuleInfo.get(dotted)
    _, fn = m.find(qualname)
    text = m.segment(fn)
    return {
        'file': os.path.relpath(m.path, REPO),
        'qualname': qualname,
        'lines': [fn.lineno, fn.end_lineno],
        'sha256': hashlib.sha256(text.encode()).hexdigest(),
    }


def resolve_alias(mod, expr_src, depth=0):
    """Follow `X = pkg.Y` style re-exports (vizier/pyvizier/__init__.py etc.) to (ModuleInfo, name)."""
    if depth > 8:
        return None
    parts = expr_src.split('.')
    head = parts[0]
    if head in mod.imports:
        target = mod.imports[head]
        rest = parts[1:]
        # target may be module or module.attr
        cand = target
        while True:
            if ModuleInfo.exists(cand):
                m2 = ModuleInfo.get(cand)
                remaining = target[len(cand):].lstrip('.').split('.') if target != cand else []
                remaining = [r for r in remaining if r] + rest
                return _walk(m2, remaining, depth)
            if '.' not in cand:
                return None
            cand = cand.rsplit('.', 1)[0]
    if head in mod.classes or head in mod.funcs:
        return _walk(mod, parts, depth)
    if head in mod.assigns:
        v = mod.assigns[head]
        if isinstance(v, (ast.Attribute, ast.Name)):
            r = resolve_alias(mod, ast.unparse(v), depth + 1)
            if r is None:
                return None
            m2, q = r
            return (m2, '.'.join([q] + parts[1:])) if len(parts) > 1 else r
    return None


def _walk(m, parts, depth):
    if not parts:
        return (m, '')
    head = parts[0]
    if head in m.classes or head in m.funcs:
        return (m, '.'.join(parts))
    if head in m.imports or head in m.assigns:
        return resolve_alias(m, '.'.join(parts), depth + 1)
    sub = m.dotted + '.' + head
    if ModuleInfo.exists(sub):
        return _walk(ModuleInfo.get(sub), parts[1:], depth)
    return None
