"""pyvc.symdict -- dict / set with *symbolic keys* as characteristic arrays (DESIGN.md 2.2: `dict`, `set`).

    SymMap : dom : K -> Bool, val : K -> V, src : K -> Int   (src = write provenance ghost, see below)
    SymSet : mem : K -> Bool

A loop over an array-list that builds a dict (`for x in xs: d[key(x)] = x`) then has a *first-order* invariant
(no existential index maps): the engine havocs `dom/val/src` at the loop head, the loop contract states e.g.

    forall k. dom[k] => 0 <= src[k] < i  /\  key(xs[src[k]]) = k  /\  val[k] = xs[src[k]]
    forall j. 0 <= j < i => dom[key(xs[j])] /\ src[key(xs[j])] >= j

**Write provenance** (the dict analogue of the append provenance of DESIGN 2.4): every `d[k] = v` records
`src[k] := clock`, where `clock` is a ghost value set by the loop contract at the loop head (`set_clock(run, ctx.i)`:
the ghost assignment `clock := i`; the code never reads it).  `reset_src(m)` is the ghost assignment `src := K(-1)`.

Library model added here (trusted, stated once): `sorted(d.values(), key=f)` for a symbolic dict is a list `r` that is a
*permutation of the values* (a bijection `pos : dom -> [0, n)` with inverse `keyat`), ascending by `f` (ties in any
order -- CPython's stability is not modelled, which only over-approximates).

Everything registers itself through the extension hooks of `pyvc.models` (the previous hook is kept and chained).
A concrete `models.PyDict` that reaches the write set of a symbolic loop is lifted to a `SymMap` if its key/value sorts
were declared with `declare(module, qualname, varname, key=..., val=...)`.
"""
import z3

from . import engine as E
from . import models as M
from . import protomodel as pm
from . import xreal
from .engine import Unsupported, PyRaise, Builtin
from .protomodel import Msg, SymList, Str, MsgSchema

# ------------------------------------------------------------------------------------------ key / value specs
_TUPLES = {}


def tuple_sort(sorts):
    key = tuple(str(s) for s in sorts)
    if key not in _TUPLES:
        dt = z3.Datatype('Tup_' + '_'.join(key))
        dt.declare('mk', *[('c%d' % i, s) for i, s in enumerate(sorts)])
        _TUPLES[key] = dt.create()
    return _TUPLES[key]


class Spec:
    """How python-side values of one kind are turned into z3 terms and back.
    kind: 'str' | 'int' | 'bool' | 'float' | MsgSchema | ('tuple', [Spec, ...])"""

    def __init__(self, kind):
        self.kind = kind
        if isinstance(kind, MsgSchema):
            self.sort = pm.msg_sort(kind)
        elif isinstance(kind, tuple) and kind[0] == 'tuple':
            self.parts = [p if isinstance(p, Spec) else Spec(p) for p in kind[1]]
            self.sort = tuple_sort([p.sort for p in self.parts])
        else:
            self.sort = pm.scalar_sort(kind)

    def term(self, v):
        if isinstance(self.kind, MsgSchema):
            if not isinstance(v, Msg) or v.schema.fq != self.kind.fq:
                raise Unsupported('symbolic dict: value %r is not a %s message' % (v, self.kind.fq))
            return v.pack()
        if isinstance(self.kind, tuple):
            if z3.is_expr(v) and v.sort() == self.sort:
                return v
            if not isinstance(v, tuple) or len(v) != len(self.parts):
                raise Unsupported('symbolic dict: key %r is not a %d-tuple' % (v, len(self.parts)))
            return self.sort.mk(*[p.term(x) for p, x in zip(self.parts, v)])
        return pm._lift(v, self.sort)

    def wrap(self, t):
        if isinstance(self.kind, MsgSchema):
            return Msg.from_term(self.kind, t)
        if isinstance(self.kind, tuple):
            return tuple(p.wrap(self.sort.accessor(0, i)(t)) for i, p in enumerate(self.parts))
        return t

    def default(self):
        return pm._default_term(self.sort) if not isinstance(self.kind, tuple) else z3.Const('default_' + str(self.sort), self.sort)


def spec(kind):
    return kind if isinstance(kind, Spec) else Spec(kind)


# ------------------------------------------------------------------------------------------ the containers
class SymMap:
    def __init__(self, kspec, vspec, dom=None, val=None, src=None):
        self.kspec, self.vspec = spec(kspec), spec(vspec)
        ks, vs = self.kspec.sort, self.vspec.sort
        self.dom = dom if dom is not None else z3.K(ks, z3.BoolVal(False))
        self.val = val if val is not None else z3.K(ks, self.vspec.default())
        self.src = src if src is not None else z3.K(ks, z3.IntVal(-1))
        self.stored = []

    def copy(self):
        return SymMap(self.kspec, self.vspec, self.dom, self.val, self.src)

    def key(self, k):
        return self.kspec.term(k)

    def set(self, it, k, v):
        kt, vt = self.key(k), self.vspec.term(v)
        if isinstance(v, Msg):
            self.stored.append((v, v.version))
        self.dom = z3.Store(self.dom, kt, z3.BoolVal(True))
        self.val = z3.Store(self.val, kt, vt)
        self.src = z3.Store(self.src, kt, clock(it.run))

    def has(self, k):
        return z3.Select(self.dom, self.key(k))

    def get(self, it, k, default=M.MISSING):
        kt = self.key(k)
        if not it.truth(z3.Select(self.dom, kt)):
            if default is M.MISSING:
                raise PyRaise(it.make_exc('KeyError', [k]))
            return default
        return self.vspec.wrap(z3.Select(self.val, kt))

    def __repr__(self):
        return '<symdict %s -> %s>' % (self.kspec.sort, self.vspec.sort)


class SymMapView:
    """d.values() / d.keys() / d.items() of a symbolic dict (a snapshot: the engine does not support mutation while
    a view is alive)."""

    def __init__(self, m, what):
        self.m, self.what = m.copy(), what


class SymSet:
    def __init__(self, kspec, mem=None):
        self.kspec = spec(kspec)
        self.mem = mem if mem is not None else z3.K(self.kspec.sort, z3.BoolVal(False))

    def copy(self):
        return SymSet(self.kspec, self.mem)

    def has(self, k):
        return z3.Select(self.mem, self.kspec.term(k))

    def add(self, k):
        self.mem = z3.Store(self.mem, self.kspec.term(k), z3.BoolVal(True))

    def __repr__(self):
        return '<symset of %s>' % self.kspec.sort


def clock(run):
    return run.ghost.get('symdict.clock', z3.IntVal(-1))


def set_clock(run, i):
    """ghost assignment `clock := i` (loop contracts call it at the loop head)."""
    run.ghost['symdict.clock'] = i


def reset_src(m):
    """ghost assignment `src := K(-1)`: forget the provenance of earlier writes."""
    m.src = z3.K(m.kspec.sort, z3.IntVal(-1))


def lift(it, d, kspec, vspec):
    """concrete models.PyDict / SymMap -> SymMap (a copy) with the given sorts."""
    if isinstance(d, SymMap):
        return d.copy()
    if isinstance(d, M.PyDict):
        m = SymMap(kspec, vspec)
        for k, v in d.items():
            m.set(it, k, v)
        return m
    raise Unsupported('cannot view %r as a symbolic dict' % (d,))


# declared sorts of dict-typed locals that reach the write set of a symbolic loop while still concrete
DECLS = {}


def declare(module, qualname, varname, key, val):
    """key/val: a kind accepted by Spec, or a zero-argument function returning one (schemas are read lazily)."""
    DECLS[(module, qualname, varname)] = (key, val)


def _declared(it, name):
    for fv in reversed(it.stack):
        d = DECLS.get((fv.mod.dotted, fv.qualname, name))
        if d is not None:
            k, v = d
            return (k() if callable(k) else k), (v() if callable(v) else v)
    return None


# ------------------------------------------------------------------------------------------ sorted(d.values(), key=f)
def sort_key_terms(it, keyfn, elem_spec, term):
    """f(x) evaluated in pure mode on the element denoted by `term`; returns a python tuple of z3 terms."""
    it.pure += 1
    try:
        k = it.call(keyfn, [elem_spec.wrap(term)], {}) if keyfn is not None else elem_spec.wrap(term)
    finally:
        it.pure -= 1
    return k


def sorted_values(it, view, keyfn, reverse=False):
    m = view.m
    if view.what != 'values':
        raise Unsupported('sorted() over the %s of a symbolic dict' % view.what)
    if reverse is not False:
        raise Unsupported('sorted(reverse=...) over a symbolic dict')
    run = it.run
    ks, vs = m.kspec.sort, m.vspec.sort
    n = run.fresh('sorted_n', z3.IntSort())
    arr = run.fresh('sorted_a', z3.ArraySort(z3.IntSort(), vs))
    pos = run.fresh('sorted_pos', z3.ArraySort(ks, z3.IntSort()))
    keyat = run.fresh('sorted_keyat', z3.ArraySort(z3.IntSort(), ks))
    run.assume(n >= 0)
    k = z3.Const('k!sv', ks)
    i, j = z3.Int('i!sv'), z3.Int('j!sv')
    run.axiom(z3.ForAll([k], z3.Implies(m.dom[k], z3.And(pos[k] >= 0, pos[k] < n, arr[pos[k]] == m.val[k], keyat[pos[k]] == k))))
    run.axiom(z3.ForAll([j], z3.Implies(z3.And(j >= 0, j < n), z3.And(m.dom[keyat[j]], pos[keyat[j]] == j, arr[j] == m.val[keyat[j]]))))
    ki = sort_key_terms(it, keyfn, m.vspec, arr[i])
    kj = sort_key_terms(it, keyfn, m.vspec, arr[j])
    lt = M.tuple_lt(it, kj, ki)
    run.axiom(z3.ForAll([i, j], z3.Implies(z3.And(i >= 0, i < j, j < n), z3.Not(E.zbool(lt)))))
    elem = m.vspec.kind if isinstance(m.vspec.kind, MsgSchema) else m.vspec.kind
    if not (isinstance(elem, MsgSchema) or isinstance(elem, str)):
        raise Unsupported('sorted() over dict values of sort %s' % vs)
    r = SymList(n, arr, elem)
    r.sorted_of = (m, pos, keyat, keyfn)
    run.sorted_lists = getattr(run, 'sorted_lists', []) + [M.snapshot(r)]
    run.sorted_lists[-1].sorted_of = r.sorted_of
    return r


_orig_sorted = M.BUILTINS['sorted'].fn


def _b_sorted(it, args, kw):
    if args and isinstance(args[0], SymMapView):
        return sorted_values(it, args[0], kw.get('key'), kw.get('reverse', False))
    return _orig_sorted(it, args, kw)


M.BUILTINS['sorted'] = Builtin('sorted', _b_sorted)


# ------------------------------------------------------------------------------------------ string order
def str_order_axioms():
    """models.str_lt is a strict total order (python compares str by code points): irreflexive, transitive, total;
    '' is the least string."""
    a, b, c = z3.Const('a!so', Str), z3.Const('b!so', Str), z3.Const('c!so', Str)
    lt = M.str_lt
    return [
        z3.ForAll([a], z3.Not(lt(a, a))),
        z3.ForAll([a, b, c], z3.Implies(z3.And(lt(a, b), lt(b, c)), lt(a, c))),
        z3.ForAll([a, b], z3.Or(lt(a, b), a == b, lt(b, a))),
    ]


def ground_str_order(terms):
    """the same axioms instantiated on a finite set of terms (quantifier-free; for bounded model queries)."""
    lt = M.str_lt
    ts = list(terms)
    out = []
    for a in ts:
        out.append(z3.Not(lt(a, a)))
        for b in ts:
            if a is not b:
                out.append(z3.Or(lt(a, b), a == b, lt(b, a)))
                out.append(z3.Implies(a == b, z3.And(z3.Not(lt(a, b)), z3.Not(lt(b, a)))))
            for c in ts:
                out.append(z3.Implies(z3.And(lt(a, b), lt(b, c)), lt(a, c)))
    return out


# ------------------------------------------------------------------------------------------ hooks
def _chain(name, fn):
    prev = getattr(M, name)

    def hook(*a):
        r = fn(*a)
        if r is not M.MISSING:
            return r
        return prev(*a)
    setattr(M, name, hook)


def _setitem(it, base, idx, v):
    if isinstance(base, SymMap):
        base.set(it, idx, v)
        return True
    return M.MISSING


def _subscript(it, base, idx):
    if isinstance(base, SymMap):
        return base.get(it, idx)
    return M.MISSING


def _contains(it, container, x):
    if isinstance(container, SymMap):
        return container.has(x)
    if isinstance(container, SymSet):
        return container.has(x)
    if isinstance(container, SymMapView) and container.what == 'keys':
        return container.m.has(x)
    return M.MISSING


def _getattr(it, v, a):
    if isinstance(v, SymMap):
        if a in ('values', 'keys', 'items'):
            return Builtin(a, lambda it_, args, kw: SymMapView(v, a))
        if a == 'get':
            return Builtin('get', lambda it_, args, kw: v.get(it_, args[0], args[1] if len(args) > 1 else None))
        if a == 'copy':
            return Builtin('copy', lambda it_, args, kw: v.copy())
        if a == 'clear':
            def clear(it_, args, kw):
                e = SymMap(v.kspec, v.vspec)
                v.dom, v.val, v.src = e.dom, e.val, e.src
            return Builtin('clear', clear)
        raise Unsupported('symbolic dict method %s' % a)
    if isinstance(v, SymSet):
        if a == 'add':
            return Builtin('add', lambda it_, args, kw: v.add(args[0]))
        if a == 'copy':
            return Builtin('copy', lambda it_, args, kw: v.copy())
        raise Unsupported('symbolic set method %s' % a)
    return M.MISSING


def _fresh_like(it, v, name):
    run = it.run
    if isinstance(v, M.PyDict):
        d = _declared(it, name)
        if d is None:
            return M.MISSING
        v = lift(it, v, d[0], d[1])
    if isinstance(v, SymMap):
        # havoc in place (like array-lists): every alias of the dict -- e.g. the caller of a helper that fills it -- sees it
        ks = v.kspec.sort
        v.dom = run.fresh(name + '_dom', z3.ArraySort(ks, z3.BoolSort()))
        v.val = run.fresh(name + '_val', z3.ArraySort(ks, v.vspec.sort))
        v.src = run.fresh(name + '_src', z3.ArraySort(ks, z3.IntSort()))
        v.stored = []
        return v
    if isinstance(v, SymSet):
        return SymSet(v.kspec, run.fresh(name + '_mem', z3.ArraySort(v.kspec.sort, z3.BoolSort())))
    return M.MISSING


def _deepcopy(it, v, memo):
    if isinstance(v, (SymMap, SymSet)):
        return v.copy()
    return M.MISSING


def _iterate(it, v):
    if isinstance(v, (SymMap, SymSet, SymMapView)):
        raise Unsupported('iteration over a symbolic dict/set needs a model of the consumer (e.g. sorted)')
    return M.MISSING


def _len(it, v):
    if isinstance(v, (SymMap, SymSet)):
        raise Unsupported('len() of a symbolic dict/set (cardinality) is not modelled')
    return M.MISSING


_chain('setitem_hook', _setitem)
_chain('subscript_hook', _subscript)
_chain('contains_hook', _contains)
_chain('value_getattr_hook', _getattr)
_chain('fresh_like_hook', _fresh_like)
_chain('deepcopy_hook', _deepcopy)
_chain('iterate_hook', _iterate)
_chain('len_hook', _len)

_prev_truth = M.truth_hook


def _truth(it, v):
    if isinstance(v, (SymMap, SymSet)):
        raise Unsupported('truth value of a symbolic dict/set')
    return _prev_truth(it, v)


M.truth_hook = _truth
