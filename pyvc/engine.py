"""pyvc engine: forward symbolic execution of the *real* function ASTs (DESIGN.md 2.2-2.4).

Exploration = stateless DFS over decision vectors (each path re-executes from scratch); the
path-feasibility solver is quantifier-free with a timeout (unknown => feasible); quantified facts
live in `Run.axioms` and are used only when obligations are discharged.
"""
import ast
import itertools
import time

import z3

from . import source, xreal
from . import protomodel as pm
from .protomodel import Msg, SymList, Str, Bytes
from .source import ClassInfo, ModuleInfo


# ------------------------------------------------------------------------------------------ control flow
class Unsupported(Exception):
    pass


class PyRaise(Exception):
    def __init__(self, exc):
        Exception.__init__(self)
        self.exc = exc


class PyReturn(Exception):
    def __init__(self, v):
        self.v = v


class PyBreak(Exception):
    pass


class PyContinue(Exception):
    pass


class PathEnd(Exception):
    """The path ends here without reaching the function exit (loop-body path after the invariant check,
    or an assumed-false branch)."""


# ------------------------------------------------------------------------------------------ values
class Obj:
    """Instance of a repo class (or of a builtin class given by name)."""

    def __init__(self, cls, attrs=None):
        self.cls, self.attrs = cls, dict(attrs or {})

    def __repr__(self):
        return '<obj %s>' % class_name(self.cls)


class ExcObj(Obj):
    pass


class AnyExc:
    """Symbolic exception class: 'any subclass of Exception' (DESIGN 2.4, C06)."""

    def __init__(self, tag):
        self.name = 'AnyException<%s>' % tag
        self.decided = {}

    def __repr__(self):
        return self.name


class FuncVal:
    def __init__(self, mod, node, cls=None, closure=None):
        self.mod, self.node, self.cls, self.closure = mod, node, cls, closure

    @property
    def qualname(self):
        n = getattr(self.node, 'name', '<lambda>')
        return (self.cls.qualname + '.' + n) if self.cls is not None else n

    def __repr__(self):
        return '<func %s.%s>' % (self.mod.dotted, self.qualname)


class Bound:
    def __init__(self, obj, func):
        self.obj, self.func = obj, func


class Builtin:
    def __init__(self, name, fn):
        self.name, self.fn = name, fn

    def __repr__(self):
        return '<builtin %s>' % self.name


class ModRef:
    def __init__(self, dotted):
        self.dotted = dotted

    def __repr__(self):
        return '<mod %s>' % self.dotted


class PbRef:
    """Reference into a *_pb2 module namespace: message class, enum class or nested path."""

    def __init__(self, module, path):
        self.module, self.path = module, tuple(path)

    def __repr__(self):
        return '<pb %s.%s>' % (self.module, '.'.join(self.path))


class ExtRef:
    """Reference to something in an external (non-repo) library, by dotted path."""

    def __init__(self, dotted):
        self.dotted = dotted

    def __repr__(self):
        return '<ext %s>' % self.dotted


class BuiltinClass:
    def __init__(self, name):
        self.name = name

    def __repr__(self):
        return '<builtin class %s>' % self.name


class SymDict:
    """dict with symbolic keys: dom: K->Bool, val: K->V (terms), plus an optional key order list."""

    def __init__(self, ksort, vsort, dom, val, vwrap=None):
        self.ksort, self.vsort, self.dom, self.val, self.vwrap = ksort, vsort, dom, val, vwrap


class Cell:
    """Mutable python-side box (used for defaultdicts, closures etc.)."""

    def __init__(self, v):
        self.v = v


BUILTIN_EXC_BASES = {
    'BaseException': [], 'Exception': ['BaseException'], 'ValueError': ['Exception'], 'TypeError': ['Exception'],
    'LookupError': ['Exception'], 'KeyError': ['LookupError'], 'IndexError': ['LookupError'],
    'RuntimeError': ['Exception'], 'NotImplementedError': ['RuntimeError'], 'AttributeError': ['Exception'],
    'ArithmeticError': ['Exception'], 'OverflowError': ['ArithmeticError'], 'ZeroDivisionError': ['ArithmeticError'],
    'AssertionError': ['Exception'], 'StopIteration': ['Exception'], 'OSError': ['Exception'],
    'grpc.RpcError': ['Exception'], 'sqla.exc.DatabaseError': ['Exception'], 'sqla.exc.IntegrityError': ['sqla.exc.DatabaseError'],
    'json.JSONDecodeError': ['ValueError'], 'NameError': ['Exception'], 'UnboundLocalError': ['NameError'],
    'RecursionError': ['RuntimeError'], 'FloatingPointError': ['ArithmeticError'], 'ImportError': ['Exception'],
    'serializable.DecodeError': ['Exception'], 'serializable.FatalDecodeError': ['serializable.DecodeError'],
    'serializable.HarmlessDecodeError': ['serializable.DecodeError'],
}


def class_name(c):
    if isinstance(c, ClassInfo):
        return c.name
    if isinstance(c, (AnyExc, BuiltinClass)):
        return c.name
    return str(c)


def resolve_base(cls, bnode):
    """Resolve a base-class expression of a repo class to ClassInfo | builtin name."""
    if isinstance(bnode, ast.Subscript):      # generic base `Base[T]`: the class is `Base`
        bnode = bnode.value
    src = ast.unparse(bnode)
    if src in BUILTIN_EXC_BASES:
        return src
    r = source.resolve_alias(cls.mod, src)
    if r is not None:
        m, q = r
        try:
            return m.find_class(q)
        except KeyError:
            pass
    short = src.split('.')[-1]
    if src in ('grpc.RpcError',):
        return 'grpc.RpcError'
    if short in BUILTIN_EXC_BASES:
        return short
    return src


def mro(c):
    out, todo = [], [c]
    while todo:
        x = todo.pop(0)
        if any(x is y or (isinstance(x, str) and x == y) for y in out):
            continue
        out.append(x)
        if isinstance(x, ClassInfo):
            todo.extend(resolve_base(x, b) for b in x.base_nodes)
        elif isinstance(x, str):
            todo.extend(BUILTIN_EXC_BASES.get(x, []))
        elif isinstance(x, BuiltinClass):
            todo.extend(BUILTIN_EXC_BASES.get(x.name, []))
    return out


def same_class(a, b):
    if isinstance(a, ClassInfo) and isinstance(b, ClassInfo):
        return a.mod.dotted == b.mod.dotted and a.qualname == b.qualname
    return class_name(a) == class_name(b) and not isinstance(a, ClassInfo) and not isinstance(b, ClassInfo)


def is_subclass(c, target):
    return any(same_class(x, target) for x in mro(c))


def find_method(cls, name):
    for c in mro(cls):
        if isinstance(c, ClassInfo) and name in c.methods:
            return c, c.methods[name]
    return None, None


def find_class_attr(cls, name):
    for c in mro(cls):
        if isinstance(c, ClassInfo) and name in c.assigns:
            return c, c.assigns[name]
    return None, None


# ------------------------------------------------------------------------------------------ run (one path)
class Run:
    def __init__(self, decisions, timeout_ms=1500):
        self.decisions, self.cursor, self.pending = list(decisions), 0, []
        self.pc, self.axioms = [], []
        self.obligations = []          # (name, formula, len(pc), len(axioms), info)
        self.events, self.locks = [], []
        self.ghost = {}
        self.notes = []
        self.fresh_n = 0
        self.solver = z3.Solver()
        # deterministic budget (rlimit) for path-feasibility checks; the wall-clock timeout is a safety net only
        self.solver.set('rlimit', int(timeout_ms) * 4000)
        self.solver.set('timeout', max(int(timeout_ms) * 20, 30000))
        self._nlits = 0
        self.calls = 0
        self.bounded = 0               # >0: bounded model-query mode (loops unrolled, collection sizes <= bounded)
        self.inlined = set()           # (module, qualname) of real functions executed in place
        self.assumed = set()           # textual assumptions recorded by models
        self.instantiated = set()

    def fresh(self, base, sort):
        self.fresh_n += 1
        return z3.Const('%s!%d' % (base, self.fresh_n), sort)

    def _sync_lits(self):
        lits = pm.all_str_lits()
        if len(lits) != self._nlits and len(lits) > 1:
            self.solver.add(z3.Distinct(*lits))
        self._nlits = len(lits)

    def assume(self, c):
        if isinstance(c, bool):
            if not c:
                raise PathEnd()
            return
        self.pc.append(c)
        self.solver.add(c)

    def axiom(self, c):
        """quantified fact: never given to the path solver."""
        self.axioms.append(c)

    def oblige(self, name, formula, info=None):
        if isinstance(formula, bool):
            formula = z3.BoolVal(formula)
        self.obligations.append((name, formula, len(self.pc), len(self.axioms), info))

    def feasible(self, c):
        self._sync_lits()
        self.solver.push()
        self.solver.add(c)
        r = self.solver.check()
        self.solver.pop()
        return r != z3.unsat

    def choose(self, cond):
        """Branch on a z3 Bool; returns a python bool and records the alternative."""
        if isinstance(cond, bool):
            return cond
        cond = z3.simplify(cond)
        if z3.is_true(cond):
            return True
        if z3.is_false(cond):
            return False
        if self.cursor < len(self.decisions):
            d = bool(self.decisions[self.cursor] & 1)
            self.cursor += 1
            self.assume(cond if d else z3.Not(cond))
            return d
        t, f = self.feasible(cond), self.feasible(z3.Not(cond))
        if not t and not f:
            raise PathEnd()
        if t != f:
            # forced: recorded (bit 1 set) so that a replay of this prefix stays aligned without re-solving
            self.decisions.append(3 if t else 2)
            self.cursor += 1
            self.assume(cond if t else z3.Not(cond))
            return t
        self.decisions.append(1)
        self.pending.append(self.decisions[:-1] + [0])
        self.cursor += 1
        self.assume(cond)
        return True

    def choose_n(self, n, label=''):
        """Non-deterministic choice among n alternatives (e.g. contract cases); returns index."""
        for i in range(n - 1):
            b = z3.Bool('alt!%s!%d!%d' % (label, self.cursor, i))
            if self.cursor < len(self.decisions):
                d = bool(self.decisions[self.cursor] & 1)
                self.cursor += 1
            else:
                d = True
                self.decisions.append(1)
                self.pending.append(self.decisions[:-1] + [0])
                self.cursor += 1
            if d:
                return i
        return n - 1

    def event(self, *e):
        self.events.append(tuple(e) + (tuple(self.locks),))


class Frame:
    def __init__(self, mod, env, func=None, parent=None):
        self.mod, self.env, self.func, self.parent = mod, env, func, parent


# ------------------------------------------------------------------------------------------ registries
MODELS = {}        # 'module.dotted:Qual.name' -> fn(it, args, kw)         (contracts/models of repo functions)
PROPERTIES = {}    # 'module.dotted:Class.prop' -> fn(it, obj)
EXTERNAL = {}      # 'pkg.mod.attr' -> python value | Builtin
LOOPS = {}         # ('module.dotted', 'Qual.name', ordinal) -> LoopSpec
NO_INLINE = set()


def model(key):
    def deco(fn):
        MODELS[key] = fn
        return fn
    return deco


def external(key):
    def deco(fn):
        EXTERNAL[key] = Builtin(key, fn)
        return fn
    return deco


class LoopSpec:
    def __init__(self, invariant, ghost=(), also_havoc=()):
        self.invariant, self.ghost, self.also_havoc = invariant, tuple(ghost), tuple(also_havoc)


class LoopCtx:
    def __init__(self):
        self.i = None
        self.iter = None
        self.entry_env = None
        self.entry_ghost = None
        self.phase = None


# ------------------------------------------------------------------------------------------ helpers on values
def is_sym(v):
    return z3.is_expr(v)


def lift_like(v, other):
    """Lift python scalar `v` to the sort of z3 term `other`."""
    return pm._lift(v, other.sort())


def to_z3(v):
    """python scalar / z3 term -> z3 term (by python type)."""
    if z3.is_expr(v):
        return v
    if isinstance(v, bool):
        return z3.BoolVal(v)
    if isinstance(v, int):
        return z3.IntVal(v)
    if isinstance(v, float):
        return xreal.lit(v)
    if isinstance(v, str):
        return pm.str_lit(v)
    if isinstance(v, bytes):
        return pm.bytes_lit(v)
    if isinstance(v, Msg):
        return v.pack()
    if hasattr(v, 'term') and z3.is_expr(getattr(v, 'term')):
        return v.term
    raise Unsupported('to_z3 of %r' % (v,))


def sort_of_value(v):
    return to_z3(v).sort()


def as_int(v):
    if z3.is_expr(v):
        if v.sort() == z3.BoolSort():
            return z3.If(v, z3.IntVal(1), z3.IntVal(0))
        return v
    return int(v)


def eq_values(a, b):
    """Python `==` as a z3 Bool or python bool."""
    if a is None or b is None:
        return a is b
    if isinstance(a, Msg) and isinstance(b, Msg):
        return a.pack() == b.pack()
    if isinstance(a, (tuple, list)) and isinstance(b, (tuple, list)):
        if isinstance(a, tuple) != isinstance(b, tuple):
            return False
        if len(a) != len(b):
            return False
        cs = [eq_values(x, y) for x, y in zip(a, b)]
        if all(isinstance(c, bool) for c in cs):
            return all(cs)
        return z3.And(*[c if not isinstance(c, bool) else z3.BoolVal(c) for c in cs])
    za, zb = z3.is_expr(a), z3.is_expr(b)
    if not za and not zb:
        if isinstance(a, (Obj, FuncVal, ClassInfo, ModRef, PbRef, ExtRef, Builtin)) or isinstance(b, (Obj, FuncVal, ClassInfo, ModRef, PbRef, ExtRef, Builtin)):
            return a is b
        if isinstance(a, SymList) or isinstance(b, SymList):
            raise Unsupported('== on array-lists')
        try:
            return a == b
        except Exception:
            raise Unsupported('== on %r, %r' % (a, b))
    if za and not zb:
        if isinstance(b, (Obj, Msg, SymList, list, tuple, dict)):
            return False
        sa = a.sort()
        if sa == Str and not isinstance(b, str):
            return False
        if sa in (z3.IntSort(), z3.BoolSort(), xreal.XReal, z3.RealSort()) and isinstance(b, (str, bytes)):
            return False
        if sa == xreal.XReal:
            return xreal.eq(a, xreal.lift(b))
        if sa == z3.BoolSort() and not isinstance(b, bool):
            return as_int(a) == int(b) if isinstance(b, int) else xreal.eq(xreal.lift(a), xreal.lift(b))
        if sa == z3.IntSort() and isinstance(b, float):
            return xreal.eq(xreal.lift(a), xreal.lit(b))
        return a == pm._lift(b, sa)
    if zb and not za:
        return eq_values(b, a)
    sa, sb = a.sort(), b.sort()
    if sa == sb:
        if sa == xreal.XReal:
            return xreal.eq(a, b)
        return a == b
    num = (z3.IntSort(), z3.BoolSort(), z3.RealSort(), xreal.XReal)
    if sa in num and sb in num:
        if xreal.XReal in (sa, sb) or z3.RealSort() in (sa, sb):
            return xreal.eq(xreal.lift(a), xreal.lift(b))
        return as_int(a) == as_int(b)
    return False


def zbool(c):
    return z3.BoolVal(c) if isinstance(c, bool) else c


def znot(c):
    return (not c) if isinstance(c, bool) else z3.Not(c)


def zand(*cs):
    cs = [c for c in cs if not (isinstance(c, bool) and c)]
    if any(isinstance(c, bool) and not c for c in cs):
        return False
    if not cs:
        return True
    return z3.And(*cs) if len(cs) > 1 else cs[0]


def zor(*cs):
    cs = [c for c in cs if not (isinstance(c, bool) and not c)]
    if any(isinstance(c, bool) and c for c in cs):
        return True
    if not cs:
        return False
    return z3.Or(*cs) if len(cs) > 1 else cs[0]


MUTATORS = {'append', 'extend', 'pop', 'insert', 'remove', 'clear', 'update', 'add', 'discard', 'sort',
            'setdefault', 'popitem', 'CopyFrom', 'ClearField', 'MergeFrom', 'Pack', 'reverse'}


def loop_write_set(node):
    """(assigned names, mutated base names) of a loop body, syntactically."""
    assigned, mutated = set(), set()

    def base_name(e):
        while isinstance(e, (ast.Attribute, ast.Subscript)):
            e = e.value
        return e.id if isinstance(e, ast.Name) else None

    for n in ast.walk(node):
        if isinstance(n, ast.Name) and isinstance(n.ctx, ast.Store):
            assigned.add(n.id)
        elif isinstance(n, (ast.Attribute, ast.Subscript)) and isinstance(n.ctx, (ast.Store, ast.Del)):
            b = base_name(n)
            if b:
                mutated.add(b)
        elif isinstance(n, ast.Call) and isinstance(n.func, ast.Attribute) and n.func.attr in MUTATORS:
            b = base_name(n.func.value)
            if b:
                mutated.add(b)
    return assigned, mutated


def loop_ordinals(fn_node):
    out, k = {}, 0
    for n in ast.walk(fn_node):
        pass
    # source order
    nodes = [n for n in ast.walk(fn_node) if isinstance(n, (ast.For, ast.While))]
    nodes.sort(key=lambda n: (n.lineno, n.col_offset))
    for n in nodes:
        k += 1
        out[id(n)] = k
    return out


# ------------------------------------------------------------------------------------------ interpreter
class Interp:
    MAX_DEPTH = 40
    MAX_UNROLL = 64

    def __init__(self, run):
        self.run = run
        self.depth = 0
        self.pure = 0
        self.stack = []          # FuncVal stack (for diagnostics and loop lookup)
        self._ordinals = {}

    # ---------------------------------------------------------------- names
    def lookup(self, fr, name):
        f = fr
        while f is not None:
            if name in f.env:
                return f.env[name]
            f = f.parent
        return self.module_attr(fr.mod, name)

    def module_attr(self, m, name, strict=True):
        if name in m.funcs:
            return FuncVal(m, m.funcs[name])
        if name in m.classes:
            return m.classes[name]
        if name in m.assigns:
            key = ('modconst', m.dotted, name)
            return self.eval(Frame(m, {}), m.assigns[name])
        if name in m.imports:
            return self.import_ref(m.imports[name])
        from . import models
        if name in models.BUILTINS:
            return models.BUILTINS[name]
        if name in BUILTIN_EXC_BASES:
            return BuiltinClass(name)
        if strict:
            raise Unsupported('unknown name %s in %s' % (name, m.dotted))
        return None

    def import_ref(self, dotted):
        if dotted in pm.PB2_MODULES:
            return PbRef(dotted, ())
        if ModuleInfo.exists(dotted):
            return ModRef(dotted)
        # module.attr ?
        if '.' in dotted:
            head, attr = dotted.rsplit('.', 1)
            if head in pm.PB2_MODULES:
                return self.getattr(PbRef(head, ()), attr)
            if ModuleInfo.exists(head):
                return self.getattr(ModRef(head), attr)
        if dotted in EXTERNAL:
            return EXTERNAL[dotted]
        return ExtRef(dotted)

    # ---------------------------------------------------------------- truthiness
    def truth_term(self, v):
        """truth value as python bool or z3 Bool (no forking)."""
        if isinstance(v, bool):
            return v
        if v is None:
            return False
        if isinstance(v, (int, float, str, bytes, tuple, list, dict, set, frozenset)):
            return bool(v)
        if isinstance(v, SymList):
            return v.n > 0
        if isinstance(v, SymDict):
            raise Unsupported('truth of symbolic dict')
        if z3.is_expr(v):
            s = v.sort()
            if s == z3.BoolSort():
                return v
            if s == z3.IntSort():
                return v != 0
            if s == Str:
                return v != pm.str_lit('')
            if s == Bytes:
                return v != pm.bytes_lit(b'')
            if s == xreal.XReal:
                return xreal.truth(v)
            if s == z3.RealSort():
                return v != 0
            raise Unsupported('truth of term of sort %s' % s)
        if isinstance(v, Msg):
            return True
        if isinstance(v, Obj):
            c, m = find_method(v.cls, '__bool__') if isinstance(v.cls, ClassInfo) else (None, None)
            if m is not None:
                return self.truth_term(self.invoke(FuncVal(c.mod, m, c), [v], {}))
            c, m = find_method(v.cls, '__len__') if isinstance(v.cls, ClassInfo) else (None, None)
            if m is not None:
                r = self.invoke(FuncVal(c.mod, m, c), [v], {})
                return self.truth_term(r)
            return True
        if isinstance(v, (FuncVal, Bound, Builtin, ClassInfo, ModRef, PbRef, ExtRef, Cell, BuiltinClass)):
            return True
        from . import models
        t = models.truth_hook(self, v)
        if t is not None:
            return t
        raise Unsupported('truth of %r' % (v,))

    def truth(self, v):
        t = self.truth_term(v)
        if isinstance(t, bool):
            return t
        if self.pure:
            raise Unsupported('symbolic branch in pure-expression mode')
        return self.run.choose(t)

    # ---------------------------------------------------------------- expressions
    def eval(self, fr, e):
        m = getattr(self, 'e_' + type(e).__name__, None)
        if m is None:
            raise Unsupported('expression %s at %s:%s' % (type(e).__name__, fr.mod.dotted, getattr(e, 'lineno', '?')))
        return m(fr, e)

    def e_Constant(self, fr, e):
        return e.value

    def e_Name(self, fr, e):
        return self.lookup(fr, e.id)

    def e_Tuple(self, fr, e):
        out = []
        for x in e.elts:
            if isinstance(x, ast.Starred):
                out.extend(self.iterate(self.eval(fr, x.value)))
            else:
                out.append(self.eval(fr, x))
        return tuple(out)

    def e_List(self, fr, e):
        return list(self.e_Tuple(fr, e))

    def e_Set(self, fr, e):
        from . import models
        return models.make_set(self, [self.eval(fr, x) for x in e.elts])

    def e_Dict(self, fr, e):
        from . import models
        d = models.PyDict()
        for k, v in zip(e.keys, e.values):
            if k is None:
                other = self.eval(fr, v)
                for kk, vv in other.items():
                    d.set(self, kk, vv)
            else:
                d.set(self, self.eval(fr, k), self.eval(fr, v))
        return d

    def e_JoinedStr(self, fr, e):
        from . import models
        parts = []
        for v in e.values:
            if isinstance(v, ast.FormattedValue):
                parts.append(('v', self.eval(fr, v.value)))
            else:
                parts.append(('s', v.value))
        return models.format_string(self, parts)

    def e_Attribute(self, fr, e):
        return self.getattr(self.eval(fr, e.value), e.attr)

    def e_Subscript(self, fr, e):
        base = self.eval(fr, e.value)
        if isinstance(e.slice, ast.Slice):
            lo = self.eval(fr, e.slice.lower) if e.slice.lower is not None else None
            hi = self.eval(fr, e.slice.upper) if e.slice.upper is not None else None
            st = self.eval(fr, e.slice.step) if e.slice.step is not None else None
            idx = slice(lo, hi, st)
        else:
            idx = self.eval(fr, e.slice)
        from . import models
        return models.subscript(self, base, idx)

    def e_Slice(self, fr, e):
        lo = self.eval(fr, e.lower) if e.lower is not None else None
        hi = self.eval(fr, e.upper) if e.upper is not None else None
        st = self.eval(fr, e.step) if e.step is not None else None
        return slice(lo, hi, st)

    def e_Starred(self, fr, e):
        raise Unsupported('starred expression')

    def e_NamedExpr(self, fr, e):
        v = self.eval(fr, e.value)
        fr.env[e.target.id] = v
        return v

    def e_UnaryOp(self, fr, e):
        v = self.eval(fr, e.operand)
        if isinstance(e.op, ast.Not):
            if self.pure:
                return znot(self.truth_term(v))
            return not self.truth(v)
        from . import models
        return models.unary(self, e.op, v)

    def e_BoolOp(self, fr, e):
        if self.pure:
            ts = [self.truth_term(self.eval(fr, x)) for x in e.values]
            return zand(*ts) if isinstance(e.op, ast.And) else zor(*ts)
        if isinstance(e.op, ast.And):
            v = True
            for x in e.values:
                v = self.eval(fr, x)
                if not self.truth(v):
                    return v
            return v
        v = False
        for x in e.values:
            v = self.eval(fr, x)
            if self.truth(v):
                return v
        return v

    def e_IfExp(self, fr, e):
        t = self.eval(fr, e.test)
        if self.pure:
            tt = self.truth_term(t)
            if isinstance(tt, bool):
                return self.eval(fr, e.body if tt else e.orelse)
            a, b = self.eval(fr, e.body), self.eval(fr, e.orelse)
            from . import models
            return models.ite(self, tt, a, b)
        return self.eval(fr, e.body if self.truth(t) else e.orelse)

    def e_Compare(self, fr, e):
        from . import models
        left = self.eval(fr, e.left)
        acc = []
        for op, rhs in zip(e.ops, e.comparators):
            right = self.eval(fr, rhs)
            c = models.compare(self, op, left, right)
            if self.pure or len(e.ops) == 1:
                acc.append(c)
            else:
                if not self.truth(c):
                    return False
                acc.append(True)
            left = right
        if len(acc) == 1:
            return acc[0]
        return zand(*[self.truth_term(c) for c in acc])

    def e_BinOp(self, fr, e):
        from . import models
        return models.binop(self, e.op, self.eval(fr, e.left), self.eval(fr, e.right))

    def e_Lambda(self, fr, e):
        return FuncVal(fr.mod, e, None, closure=fr)

    def e_ListComp(self, fr, e):
        from . import models
        return models.comprehension(self, fr, e, 'list')

    def e_GeneratorExp(self, fr, e):
        from . import models
        return models.comprehension(self, fr, e, 'gen')

    def e_SetComp(self, fr, e):
        from . import models
        return models.comprehension(self, fr, e, 'set')

    def e_DictComp(self, fr, e):
        from . import models
        return models.comprehension(self, fr, e, 'dict')

    def e_Call(self, fr, e):
        from . import models
        # str.format / '%' handled in models via method lookup
        f = self.eval(fr, e.func)
        args, kw = [], {}
        for a in e.args:
            if isinstance(a, ast.Starred):
                args.extend(self.iterate(self.eval(fr, a.value)))
            else:
                args.append(self.eval(fr, a))
        for k in e.keywords:
            if k.arg is None:
                d = self.eval(fr, k.value)
                for kk, vv in d.items():
                    kw[kk] = vv
            else:
                kw[k.arg] = self.eval(fr, k.value)
        return self.call(f, args, kw, node=e)

    # ---------------------------------------------------------------- attribute access
    def getattr(self, v, a):
        from . import models
        if isinstance(v, ModRef):
            m = ModuleInfo.get(v.dotted)
            r = self.module_attr(m, a, strict=False)
            if r is not None:
                return r
            sub = v.dotted + '.' + a
            if sub in pm.PB2_MODULES:
                return PbRef(sub, ())
            if ModuleInfo.exists(sub):
                return ModRef(sub)
            raise Unsupported('module %s has no attribute %s' % (v.dotted, a))
        if isinstance(v, PbRef):
            return models.pb_getattr(self, v, a)
        if isinstance(v, ExtRef):
            d = v.dotted + '.' + a
            if d in EXTERNAL:
                return EXTERNAL[d]
            return ExtRef(d)
        if isinstance(v, Msg):
            return models.msg_getattr(self, v, a)
        if isinstance(v, Obj):
            if a in v.attrs:
                return v.attrs[a]
            c = v.cls
            if isinstance(c, ClassInfo):
                key = None
                for k in mro(c):
                    if isinstance(k, ClassInfo):
                        key = '%s:%s.%s' % (k.mod.dotted, k.qualname, a)
                        if key in PROPERTIES:
                            return PROPERTIES[key](self, v)
                        if key in MODELS:
                            return Bound(v, Builtin(key, MODELS[key]))
                        if a in k.methods:
                            decos = k.method_decorators(a)
                            fv = FuncVal(k.mod, k.methods[a], k)
                            if any(d in ('property', 'functools.cached_property', 'cached_property') or d.endswith('.getter') for d in decos):
                                return self.invoke(fv, [v], {})
                            if 'staticmethod' in decos:
                                return fv
                            if 'classmethod' in decos:
                                return Bound(c, fv)
                            return Bound(v, fv)
                        if a in k.assigns:
                            val = k.assigns[a]
                            r = models.class_attr_value(self, k, a, val)
                            return r
            r = models.obj_getattr(self, v, a)
            if r is not models.MISSING:
                return r
            raise PyRaise(self.make_exc('AttributeError', ['%s has no attribute %s' % (class_name(v.cls), a)])) if models.STRICT_ATTR else Unsupported('attribute %s of %r' % (a, v))
        if isinstance(v, ClassInfo):
            key = '%s:%s.%s' % (v.mod.dotted, v.qualname, a)
            if key in MODELS:
                return Bound(v, Builtin(key, MODELS[key]))
            for k in mro(v):
                if isinstance(k, ClassInfo):
                    key = '%s:%s.%s' % (k.mod.dotted, k.qualname, a)
                    if key in MODELS:
                        return Bound(v, Builtin(key, MODELS[key]))
                    if a in k.methods:
                        decos = k.method_decorators(a)
                        fv = FuncVal(k.mod, k.methods[a], k)
                        if 'classmethod' in decos:
                            return Bound(v, fv)
                        return fv
                    if a in k.classes:
                        return k.classes[a]
                    if a in k.assigns:
                        return models.class_attr_value(self, k, a, k.assigns[a])
            r = models.class_getattr(self, v, a)
            if r is not models.MISSING:
                return r
            raise Unsupported('class attribute %s.%s' % (v.qualname, a))
        return models.value_getattr(self, v, a)

    def setattr(self, o, a, v):
        from . import models
        if isinstance(o, Msg):
            return models.msg_setattr(self, o, a, v)
        if isinstance(o, Obj):
            c = o.cls
            if isinstance(c, ClassInfo):
                for k in mro(c):
                    if isinstance(k, ClassInfo) and (a + '.setter') in k.methods:
                        return self.invoke(FuncVal(k.mod, k.methods[a + '.setter'], k), [o, v], {})
                if models.is_frozen(c) and not getattr(self, '_in_init', 0):
                    raise PyRaise(self.make_exc('AttributeError', ['frozen instance']))
            o.attrs[a] = v
            return
        raise Unsupported('setattr on %r' % (o,))

    # ---------------------------------------------------------------- calls
    def make_exc(self, cls, args=()):
        if isinstance(cls, str):
            cls = BuiltinClass(cls)
        return ExcObj(cls, {'args': tuple(args)})

    def call(self, f, args, kw, node=None):
        from . import models
        self.run.calls += 1
        if isinstance(f, Builtin):
            return f.fn(self, args, kw)
        if isinstance(f, Bound):
            if isinstance(f.func, Builtin):
                return f.func.fn(self, [f.obj] + list(args), kw)
            return self.invoke(f.func, [f.obj] + list(args), kw)
        if isinstance(f, FuncVal):
            return self.invoke(f, args, kw)
        if isinstance(f, ClassInfo):
            return models.construct(self, f, args, kw)
        if isinstance(f, BuiltinClass):
            if f.name in BUILTIN_EXC_BASES:
                return self.make_exc(f, args)
        if isinstance(f, PbRef):
            return models.pb_construct(self, f, args, kw)
        if isinstance(f, ExtRef):
            if f.dotted in EXTERNAL:
                return self.call(EXTERNAL[f.dotted], args, kw)
            raise Unsupported('call of unmodelled external %s' % f.dotted)
        if isinstance(f, Obj) and isinstance(f.cls, ClassInfo):
            c, m = find_method(f.cls, '__call__')
            if m is not None:
                return self.invoke(FuncVal(c.mod, m, c), [f] + list(args), kw)
        r = models.call_hook(self, f, args, kw)
        if r is not models.MISSING:
            return r
        raise Unsupported('call of %r' % (f,))

    def bind(self, fv, args, kw):
        fn = fv.node
        a = fn.args
        params = [p.arg for p in a.posonlyargs + a.args]
        env = {}
        args = list(args)
        if len(args) > len(params) and a.vararg is None:
            raise PyRaise(self.make_exc('TypeError', ['too many positional arguments for %s' % fv.qualname]))
        for i, p in enumerate(params):
            if i < len(args):
                env[p] = args[i]
        if a.vararg is not None:
            env[a.vararg.arg] = tuple(args[len(params):])
        kw = dict(kw)
        defaults = a.defaults
        nd = len(defaults)
        dfr = Frame(fv.mod, {}, parent=fv.closure)
        for i, p in enumerate(params):
            if p in env:
                if p in kw:
                    raise PyRaise(self.make_exc('TypeError', ['multiple values for argument %s' % p]))
                continue
            if p in kw:
                env[p] = kw.pop(p)
                continue
            j = i - (len(params) - nd)
            if j < 0:
                raise PyRaise(self.make_exc('TypeError', ['%s() missing required argument %s' % (fv.qualname, p)]))
            env[p] = self.eval(dfr, defaults[j])
        for p, d in zip(a.kwonlyargs, a.kw_defaults):
            if p.arg in kw:
                env[p.arg] = kw.pop(p.arg)
            elif d is not None:
                env[p.arg] = self.eval(dfr, d)
            else:
                raise PyRaise(self.make_exc('TypeError', ['%s() missing keyword-only argument %s' % (fv.qualname, p.arg)]))
        if kw:
            if a.kwarg is not None:
                from . import models
                d = models.PyDict()
                for k, v in kw.items():
                    d.set(self, k, v)
                env[a.kwarg.arg] = d
            else:
                raise PyRaise(self.make_exc('TypeError', ['%s() got an unexpected keyword argument %s' % (fv.qualname, sorted(kw)[0])]))
        elif a.kwarg is not None:
            from . import models
            env[a.kwarg.arg] = models.PyDict()
        return env

    def invoke(self, fv, args, kw):
        key = '%s:%s' % (fv.mod.dotted, fv.qualname)
        if key in MODELS:
            return MODELS[key](self, list(args), kw)
        if key in NO_INLINE:
            raise Unsupported('call of %s needs a contract' % key)
        if self.depth > self.MAX_DEPTH:
            raise Unsupported('inlining depth exceeded at %s' % key)
        env = self.bind(fv, args, kw)
        fr = Frame(fv.mod, env, func=fv, parent=fv.closure)
        self.run.inlined.add(key)
        if isinstance(fv.node, ast.Lambda):
            self.depth += 1
            try:
                return self.eval(fr, fv.node.body)
            finally:
                self.depth -= 1
        if any(isinstance(n, (ast.Yield, ast.YieldFrom)) for n in ast.walk(fv.node)):
            from . import models
            return models.run_generator(self, fv, fr)
        self.depth += 1
        self.stack.append(fv)
        try:
            self.block(fr, fv.node.body)
        except PyReturn as r:
            return r.v
        finally:
            self.stack.pop()
            self.depth -= 1
        return None

    # ---------------------------------------------------------------- iteration
    def iterate(self, v):
        """Concrete iteration (python list of items) or Unsupported."""
        from . import models
        return models.iterate(self, v)

    # ---------------------------------------------------------------- statements
    def block(self, fr, stmts):
        for s in stmts:
            self.stmt(fr, s)

    def stmt(self, fr, s):
        m = getattr(self, 's_' + type(s).__name__, None)
        if m is None:
            raise Unsupported('statement %s at %s:%s' % (type(s).__name__, fr.mod.dotted, s.lineno))
        return m(fr, s)

    def s_Expr(self, fr, s):
        if isinstance(s.value, ast.Constant):
            return
        self.eval(fr, s.value)

    def s_Pass(self, fr, s):
        return

    def s_Import(self, fr, s):
        for a in s.names:
            if a.asname:
                fr.env[a.asname] = self.import_ref(a.name)
            else:
                fr.env[a.name.split('.')[0]] = self.import_ref(a.name.split('.')[0])

    def s_ImportFrom(self, fr, s):
        for a in s.names:
            fr.env[a.asname or a.name] = self.import_ref((s.module or '') + '.' + a.name)

    def s_Assign(self, fr, s):
        v = self.eval(fr, s.value)
        for t in s.targets:
            self.assign(fr, t, v)

    def s_AnnAssign(self, fr, s):
        if s.value is not None:
            self.assign(fr, s.target, self.eval(fr, s.value))

    def s_AugAssign(self, fr, s):
        from . import models
        load = copy_load(s.target)
        cur = self.eval(fr, load)
        new = models.binop(self, s.op, cur, self.eval(fr, s.value), inplace=True)
        if new is not models.INPLACE_DONE:
            self.assign(fr, s.target, new)

    def s_Delete(self, fr, s):
        from . import models
        for t in s.targets:
            if isinstance(t, ast.Name):
                fr.env.pop(t.id, None)
            elif isinstance(t, ast.Subscript):
                models.delitem(self, self.eval(fr, t.value), self.e_Slice(fr, t.slice) if isinstance(t.slice, ast.Slice) else self.eval(fr, t.slice))
            else:
                raise Unsupported('del target')

    def s_If(self, fr, s):
        self.block(fr, s.body if self.truth(self.eval(fr, s.test)) else s.orelse)

    def s_Return(self, fr, s):
        raise PyReturn(self.eval(fr, s.value) if s.value is not None else None)

    def s_Raise(self, fr, s):
        if s.exc is None:
            cur = getattr(fr, 'current_exc', None)
            f = fr
            while cur is None and f is not None:
                cur = getattr(f, 'current_exc', None)
                f = f.parent
            if cur is None:
                raise Unsupported('bare raise outside handler')
            raise PyRaise(cur)
        exc = self.eval(fr, s.exc)
        if isinstance(exc, (ClassInfo, BuiltinClass)):
            exc = self.call(exc, [], {})
        if s.cause is not None:
            self.eval(fr, s.cause)
        if not isinstance(exc, ExcObj):
            raise Unsupported('raise of non-exception %r' % (exc,))
        raise PyRaise(exc)

    def s_Assert(self, fr, s):
        if not self.truth(self.eval(fr, s.test)):
            raise PyRaise(self.make_exc('AssertionError'))

    def s_Break(self, fr, s):
        raise PyBreak()

    def s_Continue(self, fr, s):
        raise PyContinue()

    def s_FunctionDef(self, fr, s):
        fr.env[s.name] = FuncVal(fr.mod, s, None, closure=fr)

    def s_Global(self, fr, s):
        raise Unsupported('global statement')

    def s_Nonlocal(self, fr, s):
        fr.nonlocals = getattr(fr, 'nonlocals', set()) | set(s.names)

    def s_With(self, fr, s):
        from . import models
        managers = []
        for item in s.items:
            cm = self.eval(fr, item.context_expr)
            val = models.with_enter(self, cm)
            managers.append(cm)
            if item.optional_vars is not None:
                self.assign(fr, item.optional_vars, val)
        try:
            self.block(fr, s.body)
        finally:
            for cm in reversed(managers):
                models.with_exit(self, cm)

    def exc_matches(self, exc, handler_type, fr):
        if handler_type is None:
            return True
        t = self.eval(fr, handler_type)
        ts = t if isinstance(t, tuple) else (t,)
        return self.isinstance_exc(exc, ts)

    def isinstance_exc(self, exc, classes):
        for t in classes:
            tc = self.class_of_ref(t)
            if isinstance(exc.cls, AnyExc):
                if self.anyexc_is(exc.cls, tc):
                    return True
                continue
            if is_subclass(exc.cls, tc):
                return True
        return False

    def class_of_ref(self, t):
        if isinstance(t, (ClassInfo, BuiltinClass)):
            return t
        if isinstance(t, ExtRef):
            return BuiltinClass(_ext_exc_name(t.dotted))
        if isinstance(t, str):
            return BuiltinClass(t)
        raise Unsupported('exception class reference %r' % (t,))

    def anyexc_is(self, ac, target):
        """Is the symbolic exception class a subclass of `target`?  Decided once per class, consistently."""
        tn = class_name(target)
        if tn in ('Exception', 'BaseException'):
            return True
        for (k, kc), d in ac.decided.items():
            if d and is_subclass(kc, target):
                return True
            if not d and is_subclass(target, kc):
                return False
        key = tn
        for (k, kc), d in ac.decided.items():
            if k == key:
                return d
        d = self.run.choose(z3.Bool('%s<:%s' % (ac.name, tn)))
        ac.decided[(key, target)] = d
        return d

    def s_Try(self, fr, s):
        try:
            try:
                self.block(fr, s.body)
            except PyRaise as pr:
                for h in s.handlers:
                    if self.exc_matches(pr.exc, h.type, fr):
                        if h.name:
                            fr.env[h.name] = pr.exc
                        old = getattr(fr, 'current_exc', None)
                        fr.current_exc = pr.exc
                        try:
                            self.block(fr, h.body)
                        finally:
                            fr.current_exc = old
                        break
                else:
                    raise
            else:
                self.block(fr, s.orelse)
        finally:
            if s.finalbody:
                # NOTE: a PathEnd/Unsupported passing through also runs this; harmless.
                self.block(fr, s.finalbody)

    def concretize_len(self, lst):
        """bounded mode: fork over the concrete length 0..bounded of an array-list."""
        run = self.run
        n = z3.simplify(lst.n) if z3.is_expr(lst.n) else lst.n
        if isinstance(n, int) or z3.is_int_value(n):
            return
        for v in range(run.bounded + 1):
            if run.choose(lst.n == v):
                lst.n = z3.IntVal(v)
                return
        raise PathEnd()

    def s_For(self, fr, s):
        from . import models
        it = self.eval(fr, s.iter)
        conc = models.try_iterate(self, it)
        if conc is None and self.run.bounded and isinstance(it, SymList):
            self.concretize_len(it)
            conc = models.try_iterate(self, it)
        if conc is not None:
            if len(conc) > self.MAX_UNROLL:
                raise Unsupported('loop over %d concrete items' % len(conc))
            broke = False
            for item in conc:
                self.assign(fr, s.target, item)
                try:
                    self.block(fr, s.body)
                except PyBreak:
                    broke = True
                    break
                except PyContinue:
                    continue
            if not broke:
                self.block(fr, s.orelse)
            return
        self.symbolic_loop(fr, s, it)

    def s_While(self, fr, s):
        spec = self.loop_spec(fr, s)
        if self.run.bounded:
            n = 0
            while self.truth(self.eval(fr, s.test)):
                n += 1
                if n > 2 * self.run.bounded + 2:
                    raise PathEnd()
                try:
                    self.block(fr, s.body)
                except PyBreak:
                    return
                except PyContinue:
                    continue
            self.block(fr, s.orelse)
            return
        if spec is None:
            # no contract: unroll while the guard is decided concretely
            n = 0
            while True:
                t = self.truth_term(self.eval_cond_pure(fr, s.test))
                if not isinstance(t, bool):
                    raise Unsupported('while loop with symbolic guard needs a loop contract (%s loop %s)' % self.loop_key(fr, s)[1:])
                if not t:
                    break
                n += 1
                if n > self.MAX_UNROLL:
                    raise Unsupported('while loop unrolled more than %d times' % self.MAX_UNROLL)
                try:
                    self.block(fr, s.body)
                except PyBreak:
                    return
                except PyContinue:
                    continue
            self.block(fr, s.orelse)
            return
        self.symbolic_loop(fr, s, None)

    def eval_cond_pure(self, fr, e):
        self.pure += 1
        try:
            return self.eval(fr, e)
        finally:
            self.pure -= 1

    def loop_key(self, fr, s):
        f = fr
        while f is not None and f.func is None:
            f = f.parent
        fv = f.func if f is not None else None
        if fv is None:
            return (fr.mod.dotted, '<module>', 0)
        k = id(fv.node)
        if k not in self._ordinals:
            self._ordinals[k] = loop_ordinals(fv.node)
        return (fv.mod.dotted, fv.qualname, self._ordinals[k].get(id(s), 0))

    def loop_spec(self, fr, s):
        return LOOPS.get(self.loop_key(fr, s))

    def symbolic_loop(self, fr, s, it):
        """Invariant rule (DESIGN 2.4)."""
        from . import models
        run = self.run
        key = self.loop_key(fr, s)
        spec = LOOPS.get(key)
        if spec is None:
            raise Unsupported('loop over a symbolic collection needs a loop contract: %s %s loop #%d' % key)
        lname = '%s.loop%d' % (key[1], key[2])
        ctx = LoopCtx()
        ctx.iter = it
        ctx.node = s
        ctx.entry_env = dict(fr.env)
        ctx.entry_vals = {k: models.snapshot(v) for k, v in fr.env.items()}
        ctx.entry_ghost = dict(run.ghost)
        is_for = isinstance(s, ast.For)
        if is_for:
            if not isinstance(it, SymList):
                raise Unsupported('for-loop contract over %r' % (it,))
            ctx.i = z3.IntVal(0)
        ctx.phase = 'init'
        for nm, f in spec.invariant(self, fr, ctx):
            run.oblige('%s.%s.init' % (lname, nm), f, info={'loop': key})
        # havoc
        assigned, mutated = loop_write_set(s)
        for nm in sorted((assigned | mutated | set(spec.also_havoc))):
            if nm in fr.env:
                fr.env[nm] = models.fresh_like(self, fr.env[nm], nm)
        for g in spec.ghost:
            run.ghost[g] = run.fresh('ghost_' + g.replace('.', '_'), run.ghost[g].sort())
        if is_for:
            ctx.i = run.fresh('i', z3.IntSort())
            run.assume(ctx.i >= 0)
            run.assume(ctx.i <= it.n)
        ctx.phase = 'head'
        for nm, f in spec.invariant(self, fr, ctx):
            if _has_quantifier(f):
                run.axiom(f)
            else:
                run.assume(f)
        # fork: iterate once more, or exit
        if is_for:
            go = run.choose(ctx.i < it.n)
        else:
            go = self.truth(self.eval(fr, s.test))
        if not go:
            if is_for:
                run.assume(ctx.i == it.n)
            self.block(fr, s.orelse)
            return
        if is_for:
            self.assign(fr, s.target, it.get(ctx.i))
        try:
            self.block(fr, s.body)
        except PyContinue:
            pass
        except PyBreak:
            return  # continue after the loop with the state at the break
        if is_for:
            ctx.i = ctx.i + 1
        ctx.phase = 'preserve'
        for nm, f in spec.invariant(self, fr, ctx):
            run.oblige('%s.%s.preserve' % (lname, nm), f, info={'loop': key})
        raise PathEnd()

    # ---------------------------------------------------------------- assignment
    def assign(self, fr, t, v):
        from . import models
        if isinstance(t, ast.Name):
            nl = getattr(fr, 'nonlocals', None)
            if nl and t.id in nl:
                f = fr.parent
                while f is not None:
                    if t.id in f.env:
                        f.env[t.id] = v
                        return
                    f = f.parent
            fr.env[t.id] = v
            return
        if isinstance(t, ast.Attribute):
            self.setattr(self.eval(fr, t.value), t.attr, v)
            return
        if isinstance(t, ast.Subscript):
            base = self.eval(fr, t.value)
            if isinstance(t.slice, ast.Slice):
                idx = self.e_Slice(fr, t.slice)
            else:
                idx = self.eval(fr, t.slice)
            models.setitem(self, base, idx, v)
            return
        if isinstance(t, (ast.Tuple, ast.List)):
            items = self.iterate(v)
            star = [i for i, x in enumerate(t.elts) if isinstance(x, ast.Starred)]
            if star:
                k = star[0]
                after = len(t.elts) - k - 1
                for x, item in zip(t.elts[:k], items[:k]):
                    self.assign(fr, x, item)
                self.assign(fr, t.elts[k].value, list(items[k:len(items) - after]))
                for x, item in zip(t.elts[k + 1:], items[len(items) - after:]):
                    self.assign(fr, x, item)
                return
            if len(items) != len(t.elts):
                raise PyRaise(self.make_exc('ValueError', ['unpack']))
            for x, item in zip(t.elts, items):
                self.assign(fr, x, item)
            return
        raise Unsupported('assignment target %s' % type(t).__name__)


def _ext_exc_name(dotted):
    table = {'grpc.RpcError': 'grpc.RpcError', 'sqlalchemy.exc.DatabaseError': 'sqla.exc.DatabaseError',
             'sqlalchemy.exc.IntegrityError': 'sqla.exc.IntegrityError', 'json.JSONDecodeError': 'json.JSONDecodeError'}
    return table.get(dotted, dotted)


def copy_load(t):
    import copy
    n = copy.deepcopy(t)
    for x in ast.walk(n):
        if hasattr(x, 'ctx'):
            x.ctx = ast.Load()
    return n


def _has_quantifier(f):
    seen = set()
    todo = [f]
    while todo:
        x = todo.pop()
        if z3.is_quantifier(x):
            return True
        k = x.get_id()
        if k in seen:
            continue
        seen.add(k)
        todo.extend(x.children())
    return False


# ------------------------------------------------------------------------------------------ exploration
class PathResult:
    def __init__(self, run, kind, value):
        self.run, self.kind, self.value = run, kind, value   # kind: return | raise | end | unsupported

    def describe(self):
        if self.kind == 'raise':
            e = self.value
            code = e.attrs.get('_code') if isinstance(e, Obj) else None
            return 'raise %s%s' % (class_name(e.cls), '(%s)' % code if code is not None else '')
        if self.kind == 'unsupported':
            return 'UNSUPPORTED: %s' % self.value
        return self.kind


def explore(entry, max_paths=4000, timeout_ms=1500, deadline_s=None):
    """entry(it) -> value.  Returns list[PathResult]; every feasible path of the decision tree is executed."""
    results, todo = [], [[]]
    t0 = time.time()
    while todo:
        dec = todo.pop()
        run = Run(dec, timeout_ms=timeout_ms)
        it = Interp(run)
        try:
            v = entry(it)
            results.append(PathResult(run, 'return', v))
        except PyReturn as r:
            results.append(PathResult(run, 'return', r.v))
        except PyRaise as r:
            results.append(PathResult(run, 'raise', r.exc))
        except PathEnd:
            results.append(PathResult(run, 'end', None))
        except Unsupported as u:
            results.append(PathResult(run, 'unsupported', str(u)))
        except RecursionError:
            results.append(PathResult(run, 'unsupported', 'recursion limit'))
        todo.extend(run.pending)
        if len(results) > max_paths:
            results.append(PathResult(run, 'unsupported', 'more than %d paths' % max_paths))
            break
        if deadline_s is not None and time.time() - t0 > deadline_s:
            results.append(PathResult(run, 'unsupported', 'path exploration exceeded %ss' % deadline_s))
            break
    return results


# ------------------------------------------------------------------------------------------ discharge
SECOND_SOLVER = False                      # thorough tier: every `unsat` is re-checked by cvc5 from the exported SMT-LIB
SECOND_STATS = {'checked': 0, 'agree_unsat': 0, 'unknown': 0, 'sat_disagreements': [], 'errors': 0}


def _second_opinion(s):
    import os
    import subprocess
    import tempfile
    SECOND_STATS['checked'] += 1
    try:
        txt = '(set-logic ALL)\n' + s.to_smt2()
        with tempfile.NamedTemporaryFile('w', suffix='.smt2', delete=False, dir=os.environ.get('VERIF_SCRATCH', None)) as f:
            f.write(txt)
            path = f.name
        try:
            r = subprocess.run(['/usr/bin/cvc5', '--tlimit=6000', '--full-saturate-quant', path], capture_output=True, text=True, timeout=30)
            out = (r.stdout or '').strip().splitlines()
            ans = out[0].strip() if out else 'error'
        finally:
            os.unlink(path)
        if ans == 'unsat':
            SECOND_STATS['agree_unsat'] += 1
        elif ans == 'sat':
            SECOND_STATS['sat_disagreements'].append(txt[:400])
        elif ans in ('unknown', 'timeout') or 'interrupted' in ans or not ans:
            SECOND_STATS['unknown'] += 1
        else:
            SECOND_STATS['errors'] += 1
    except Exception:
        SECOND_STATS['errors'] += 1


def discharge(run, formula, npc=None, nax=None, timeout_ms=10000, extra=(), rlimit=None):
    """Check pc[:npc] & axioms[:nax] |= formula.  Returns (verdict, model_or_reason, seconds).
    verdict: 'unsat' (proved) | 'sat' | 'unknown'.

    The budget is z3's deterministic resource limit (`rlimit`, derived from timeout_ms when not given), so verdicts do
    not flip when the machine is busy; the wall-clock timeout is only a generous safety net."""
    t0 = time.time()
    s = z3.Solver()
    if rlimit is None:
        rlimit = int(timeout_ms) * 2500
    s.set('rlimit', rlimit)
    s.set('timeout', max(int(timeout_ms) * 15, 120000))
    pcs = run.pc if npc is None else run.pc[:npc]
    axs = run.axioms if nax is None else run.axioms[:nax]
    for c in pcs:
        s.add(c)
    for c in axs:
        s.add(c)
    for c in extra:
        s.add(c)
    lits = pm.all_str_lits()
    if len(lits) > 1:
        s.add(z3.Distinct(*lits))
    s.add(z3.Not(formula) if not isinstance(formula, bool) else z3.BoolVal(not formula))
    r = s.check()
    dt = time.time() - t0
    if r == z3.unsat:
        if SECOND_SOLVER:
            _second_opinion(s)
        return 'unsat', None, dt
    if r == z3.sat:
        return 'sat', s.model(), dt
    return 'unknown', s.reason_unknown(), dt
