"""Protocol-buffer model (DESIGN.md 4.2): sorts and records generated on every run from the repo's .proto files.

Standalone proto3 parser (no protobuf runtime needed under python3-vt).  Message values are
Python-side mutable records (`Msg`); when a message is stored into a z3 array (datastore view,
array-list) it is packed into a z3 datatype generated from the same schema.
"""
import os
import re

import z3

from . import source

# --------------------------------------------------------------------------- parsing
_TOK = re.compile(r'\s+|//[^\n]*|/\*.*?\*/|("(?:[^"\\]|\\.)*")|([A-Za-z_][\w.]*|\.[\w.]+)|(-?\d+)|(.)', re.S)

SCALARS = {'double': 'float', 'float': 'float', 'int32': 'int', 'int64': 'int', 'uint32': 'int', 'uint64': 'int',
           'sint32': 'int', 'sint64': 'int', 'fixed32': 'int', 'fixed64': 'int', 'sfixed32': 'int', 'sfixed64': 'int',
           'bool': 'bool', 'string': 'str', 'bytes': 'bytes'}

WELL_KNOWN = r'''
syntax = "proto3";
package google.protobuf;
message Timestamp { int64 seconds = 1; int32 nanos = 2; }
message Duration { int64 seconds = 1; int32 nanos = 2; }
message Any { string type_url = 1; bytes value = 2; }
message Empty {}
message DoubleValue { double value = 1; }
message FloatValue { float value = 1; }
message Int64Value { int64 value = 1; }
message Int32Value { int32 value = 1; }
message BoolValue { bool value = 1; }
message StringValue { string value = 1; }
message ListValue { repeated Value values = 1; }
message Struct { }
enum NullValue { NULL_VALUE = 0; }
message Value { oneof kind { NullValue null_value = 1; double number_value = 2; string string_value = 3; bool bool_value = 4; Struct struct_value = 5; ListValue list_value = 6; } }
'''
RPC = r'''
syntax = "proto3";
package google.rpc;
message Status { int32 code = 1; string message = 2; repeated google.protobuf.Any details = 3; }
'''
LONGRUNNING = r'''
syntax = "proto3";
package google.longrunning;
message Operation { string name = 1; google.protobuf.Any metadata = 2; bool done = 3; oneof result { google.rpc.Status error = 4; google.protobuf.Any response = 5; } }
message GetOperationRequest { string name = 1; }
'''


def _lex(src):
    out = []
    for m in _TOK.finditer(src):
        s, ident, num, ch = m.groups()
        if s is not None:
            out.append(('str', s[1:-1]))
        elif ident is not None:
            out.append(('id', ident))
        elif num is not None:
            out.append(('num', int(num)))
        elif ch is not None:
            out.append(('ch', ch))
    return out


class Field:
    def __init__(self, name, number, typ, repeated=False, optional=False, oneof=None):
        self.name, self.number, self.typ = name, number, typ
        self.repeated, self.optional, self.oneof = repeated, optional, oneof
        self.kind = None        # 'int','float','bool','str','bytes','enum','message'
        self.type_fq = None     # fully-qualified type name for enum/message

    def __repr__(self):
        return '<Field %s:%s%s>' % (self.name, self.typ, '[]' if self.repeated else '')


class MsgSchema:
    def __init__(self, fq):
        self.fq, self.fields, self.oneofs = fq, {}, {}
        self.order = []

    def __repr__(self):
        return '<Msg %s>' % self.fq


class EnumSchema:
    def __init__(self, fq):
        self.fq, self.values = fq, {}


class _P:
    def __init__(self, toks):
        self.t, self.i = toks, 0

    def peek(self):
        return self.t[self.i] if self.i < len(self.t) else (None, None)

    def next(self):
        x = self.t[self.i]
        self.i += 1
        return x

    def expect(self, v):
        k, x = self.next()
        if x != v:
            raise SyntaxError('expected %r got %r' % (v, x))

    def skip_balanced(self, o, c):
        d = 1
        while d:
            k, x = self.next()
            if k == 'ch' and x == o:
                d += 1
            elif k == 'ch' and x == c:
                d -= 1

    def skip_stmt(self):
        while True:
            k, x = self.next()
            if k == 'ch' and x == '{':
                self.skip_balanced('{', '}')
            elif k == 'ch' and x == ';':
                return


class Registry:
    """All message/enum schemas, keyed by fully-qualified name (e.g. 'vizier.Trial')."""

    def __init__(self):
        self.msgs, self.enums = {}, {}
        self.services = {}

    def parse(self, src):
        p = _P(_lex(src))
        pkg = ''
        while p.peek()[0] is not None:
            k, x = p.next()
            if x == 'syntax' or x == 'option' or x == 'import':
                p.skip_stmt()
            elif x == 'package':
                pkg = p.next()[1]
                p.expect(';')
            elif x == 'message':
                self._message(p, pkg)
            elif x == 'enum':
                self._enum(p, pkg)
            elif x == 'service':
                self._service(p, pkg)
            elif x == ';':
                pass
            else:
                raise SyntaxError('proto: unexpected %r' % (x,))

    def _enum(self, p, scope):
        name = p.next()[1]
        e = EnumSchema(scope + '.' + name if scope else name)
        p.expect('{')
        while True:
            k, x = p.next()
            if x == '}':
                break
            if x in ('option', 'reserved'):
                p.skip_stmt()
                continue
            p.expect('=')
            num = p.next()[1]
            if p.peek()[1] == '[':
                p.next()
                p.skip_balanced('[', ']')
            p.expect(';')
            e.values[x] = num
        self.enums[e.fq] = e

    def _field(self, p, m, first, oneof=None):
        rep = opt = False
        if first == 'repeated':
            rep = True
            first = p.next()[1]
        elif first == 'optional':
            opt = True
            first = p.next()[1]
        if first == 'map':
            raise NotImplementedError('map fields')
        fname = p.next()[1]
        p.expect('=')
        num = p.next()[1]
        if p.peek()[1] == '[':
            p.next()
            p.skip_balanced('[', ']')
        p.expect(';')
        f = Field(fname, num, first, rep, opt, oneof)
        m.fields[fname] = f
        m.order.append(fname)
        return f

    def _message(self, p, scope):
        name = p.next()[1]
        m = MsgSchema(scope + '.' + name if scope else name)
        self.msgs[m.fq] = m
        p.expect('{')
        while True:
            k, x = p.next()
            if x == '}':
                break
            if x == 'message':
                self._message(p, m.fq)
            elif x == 'enum':
                self._enum(p, m.fq)
            elif x in ('option', 'reserved', 'extensions'):
                p.skip_stmt()
            elif x == 'oneof':
                oname = p.next()[1]
                m.oneofs[oname] = []
                p.expect('{')
                while True:
                    k2, y = p.next()
                    if y == '}':
                        break
                    if y == 'option':
                        p.skip_stmt()
                        continue
                    f = self._field(p, m, y, oneof=oname)
                    m.oneofs[oname].append(f.name)
            elif x == ';':
                pass
            else:
                self._field(p, m, x)

    def _service(self, p, scope):
        name = p.next()[1]
        p.expect('{')
        methods = {}
        while True:
            k, x = p.next()
            if x == '}':
                break
            if x == 'option':
                p.skip_stmt()
                continue
            mname = p.next()[1]
            p.expect('(')
            it = p.next()[1]
            if it == 'stream':
                it = p.next()[1]
            p.expect(')')
            p.expect('returns')
            p.expect('(')
            ot = p.next()[1]
            if ot == 'stream':
                ot = p.next()[1]
            p.expect(')')
            k2, y = p.next()
            if y == '{':
                p.skip_balanced('{', '}')
            methods[mname] = (it, ot)
        self.services[name] = methods

    def resolve(self):
        known = set(self.msgs) | set(self.enums)
        for m in self.msgs.values():
            for f in m.fields.values():
                if f.typ in SCALARS:
                    f.kind = SCALARS[f.typ]
                    continue
                t = f.typ.lstrip('.')
                parts = m.fq.split('.')
                fq = None
                while True:
                    cand = '.'.join(parts + [t])
                    if cand in known:
                        fq = cand
                        break
                    if not parts:
                        break
                    parts = parts[:-1]
                if fq is None and t in known:
                    fq = t
                if fq is None:
                    raise KeyError('proto type %s in %s' % (f.typ, m.fq))
                f.type_fq = fq
                f.kind = 'enum' if fq in self.enums else 'message'


_REG = {}

PROTO_FILES = ['key_value.proto', 'study.proto', 'vizier_oss.proto', 'vizier_service.proto', 'pythia_service.proto']
# python module name -> proto package (how `study_pb2.Trial` is resolved)
PB2_MODULES = {
    'vizier._src.service.key_value_pb2': 'vizier', 'vizier._src.service.study_pb2': 'vizier',
    'vizier._src.service.vizier_oss_pb2': 'vizier', 'vizier._src.service.vizier_service_pb2': 'vizier',
    'vizier._src.service.pythia_service_pb2': 'vizier',
    'google.longrunning.operations_pb2': 'google.longrunning', 'google.protobuf.empty_pb2': 'google.protobuf',
    'google.protobuf.timestamp_pb2': 'google.protobuf', 'google.protobuf.duration_pb2': 'google.protobuf',
    'google.protobuf.any_pb2': 'google.protobuf', 'google.protobuf.struct_pb2': 'google.protobuf',
    'google.protobuf.wrappers_pb2': 'google.protobuf', 'google.rpc.status_pb2': 'google.rpc',
}


def registry():
    key = source.REPO
    if key not in _REG:
        r = Registry()
        r.parse(WELL_KNOWN)
        r.parse(RPC)
        r.parse(LONGRUNNING)
        d = os.path.join(source.REPO, 'vizier/_src/service')
        for n in PROTO_FILES:
            r.parse(open(os.path.join(d, n)).read())
        r.resolve()
        # google.rpc.Code enum (subset used)
        e = EnumSchema('google.rpc.Code')
        e.values = dict(OK=0, CANCELLED=1, UNKNOWN=2, INVALID_ARGUMENT=3, DEADLINE_EXCEEDED=4, NOT_FOUND=5,
                        ALREADY_EXISTS=6, PERMISSION_DENIED=7, UNAUTHENTICATED=16, RESOURCE_EXHAUSTED=8,
                        FAILED_PRECONDITION=9, ABORTED=10, OUT_OF_RANGE=11, UNIMPLEMENTED=12, INTERNAL=13,
                        UNAVAILABLE=14, DATA_LOSS=15)
        r.enums[e.fq] = e
        _REG[key] = r
    return _REG[key]


# --------------------------------------------------------------------------- sorts
Str = z3.DeclareSort('Str')          # opaque strings (equality only) -- DESIGN 4.3
Bytes = z3.DeclareSort('Bytes')
PyObj = z3.DeclareSort('PyObj')      # opaque python objects (attrs instances we do not look into)

_SORTS = {}
_ACC = {}
_MK = {}
# messages that are never looked into are cut to an uninterpreted sort (also cuts recursion)
OPAQUE_MESSAGES = {'vizier.StudySpec.ParameterSpec', 'google.protobuf.Value', 'google.protobuf.Struct',
                   'google.protobuf.ListValue'}


def XRealSort():
    from . import xreal
    return xreal.XReal


def scalar_sort(kind):
    if kind in ('int', 'enum'):
        return z3.IntSort()
    if kind == 'bool':
        return z3.BoolSort()
    if kind == 'str':
        return Str
    if kind == 'bytes':
        return Bytes
    if kind == 'float':
        return XRealSort()
    if kind == 'pyobj':
        return PyObj
    raise KeyError(kind)


def field_layout(schema):
    """[(z3 field name, sort, role, proto field)] in a fixed order."""
    reg = registry()
    out = []
    for fname in schema.order:
        f = schema.fields[fname]
        if f.kind == 'message':
            es = msg_sort(reg.msgs[f.type_fq])
        else:
            es = scalar_sort(f.kind)
        if f.repeated:
            out.append((fname + '__len', z3.IntSort(), 'len', f))
            out.append((fname + '__arr', z3.ArraySort(z3.IntSort(), es), 'arr', f))
        else:
            out.append((fname, es, 'val', f))
            if f.kind == 'message' and not f.oneof:
                out.append(('has__' + fname, z3.BoolSort(), 'has', f))
            elif f.optional and not f.oneof:
                out.append(('has__' + fname, z3.BoolSort(), 'has', f))
    for oname in schema.oneofs:
        out.append(('case__' + oname, z3.IntSort(), 'case', oname))
    return out


def msg_sort(schema):
    if schema.fq in _SORTS:
        return _SORTS[schema.fq][0]
    if schema.fq in OPAQUE_MESSAGES:
        s = z3.DeclareSort(schema.fq.replace('.', '_'))
        _SORTS[schema.fq] = (s, None)
        return s
    _SORTS[schema.fq] = (None, None)  # recursion guard
    layout = field_layout(schema)
    safe = schema.fq.replace('.', '_')
    dt = z3.Datatype(safe)
    # constructor / selector names are unique per message type (SMT-LIB export for the second solver needs that)
    dt.declare('mk_' + safe, *[(safe + '__' + n, s) for n, s, _, _ in layout])
    dt = dt.create()
    _SORTS[schema.fq] = (dt, layout)
    _ACC[schema.fq] = {n: dt.accessor(0, i) for i, (n, _, _, _) in enumerate(layout)}
    _MK[schema.fq] = dt.constructor(0)
    return dt


def accessor(schema, zname):
    msg_sort(schema)
    return _ACC[schema.fq][zname]


def msg_layout(schema):
    msg_sort(schema)
    return _SORTS[schema.fq][1]


def option_sort(schema):
    key = 'Opt:' + schema.fq
    if key not in _SORTS:
        s = msg_sort(schema)
        safe = schema.fq.replace('.', '_')
        dt = z3.Datatype('Opt_' + safe)
        dt.declare('none_' + safe)
        dt.declare('some_' + safe, ('v_' + safe, s))
        dt = dt.create()
        # stable python-side aliases (the SMT names are unique per type for SMT-LIB export)
        dt.none = getattr(dt, 'none_' + safe)
        dt.some = getattr(dt, 'some_' + safe)
        dt.v = getattr(dt, 'v_' + safe)
        dt.is_some = getattr(dt, 'is_some_' + safe)
        dt.is_none = getattr(dt, 'is_none_' + safe)
        _SORTS[key] = (dt, None)
    return _SORTS[key][0]


# --------------------------------------------------------------------------- records
class SymList:
    """array-list (len, arr) of scalars or of messages (elem = MsgSchema | kind string)."""

    def __init__(self, n, arr, elem, owner=None):
        self.n, self.arr, self.elem = n, arr, elem
        self.owner = owner          # (Msg, fieldname) if this list is a repeated field
        self.stored = []            # (Msg object, version at store time) -- aliasing guard
        self.version = 0
        self.src = None             # append provenance ghost (set by the engine)

    def elem_sort(self):
        return msg_sort(self.elem) if isinstance(self.elem, MsgSchema) else scalar_sort(self.elem)

    def touch(self):
        self.version += 1
        if self.owner is not None:
            self.owner[0].touch()

    def wrap(self, term):
        if isinstance(self.elem, MsgSchema):
            return Msg.from_term(self.elem, term)
        if self.elem == 'pyobj':
            from . import models
            return models.OpaqueObj(term)
        return term

    def get(self, i):
        return self.wrap(z3.Select(self.arr, i))


class Msg:
    """Python-side mutable proto message.  Fields are materialised lazily from `base` (a z3 term) if given,
    else from proto3 defaults."""

    def __init__(self, schema, base=None):
        self.schema, self.base = schema, base
        self.f = {}              # field name -> value (z3 term | python scalar | Msg | SymList)
        self.has = {}            # message/optional field -> z3 Bool | bool
        self.case = {}           # oneof name -> z3 Int | int   (field number, 0 = unset)
        self.parent = None       # (Msg, fieldname) for presence propagation
        self.version = 0
        self.opaque_term = None
        if schema.fq in OPAQUE_MESSAGES:
            self.opaque_term = base

    # -- construction
    @classmethod
    def from_term(cls, schema, term):
        return cls(schema, base=term)

    @classmethod
    def default(cls, schema):
        return cls(schema, base=None)

    def touch(self):
        self.version += 1
        slot = getattr(self, 'slot', None)
        if slot is not None:
            # element returned by `repeated.add()`: protobuf hands out a reference into the list, so a later mutation
            # (e.g. metadata_util._assign_value after container.metadata.add) writes through to the list slot
            lst, idx = slot
            lst.arr = z3.Store(lst.arr, idx, self.pack())
            lst.stored = [(m_, (m_.version if m_ is self else v_)) for m_, v_ in lst.stored]
            lst.touch()
        p = self.parent
        if p is not None:
            pm, fname = p
            f = pm.schema.fields[fname]
            if f.oneof:
                pm.case[f.oneof] = f.number
            else:
                pm.has[fname] = True
            pm.f[fname] = self
            pm.touch()

    def _acc(self, zname):
        msg_sort(self.schema)
        return _ACC[self.schema.fq][zname](self.base)

    def _default_scalar(self, kind):
        return {'int': 0, 'enum': 0, 'bool': False, 'str': '', 'bytes': b'', 'float': 0.0}[kind]

    def get(self, name):
        if name in self.f:
            return self.f[name]
        f = self.schema.fields[name]
        reg = registry()
        if f.repeated:
            elem = reg.msgs[f.type_fq] if f.kind == 'message' else f.kind
            if self.base is not None:
                v = SymList(self._acc(name + '__len'), self._acc(name + '__arr'), elem, owner=(self, name))
            else:
                es = msg_sort(elem) if isinstance(elem, MsgSchema) else scalar_sort(elem)
                v = SymList(z3.IntVal(0), empty_array(es), elem, owner=(self, name))
            self.f[name] = v
            return v
        if f.kind == 'message':
            sub = reg.msgs[f.type_fq]
            if self.base is not None:
                child = Msg(sub, base=self._acc(name))
            else:
                child = Msg(sub, base=None)
            child.parent = (self, name)
            self.f[name] = child
            return child
        if self.base is not None:
            v = self._acc(name)
        else:
            v = self._default_scalar(f.kind)
        self.f[name] = v
        return v

    def get_has(self, name):
        f = self.schema.fields[name]
        if f.oneof:
            c = self.get_case(f.oneof)
            return (c == f.number) if not isinstance(c, int) else (c == f.number)
        if name in self.has:
            return self.has[name]
        if self.base is not None:
            v = self._acc('has__' + name)
        else:
            v = False
        self.has[name] = v
        return v

    def get_case(self, oneof):
        if oneof in self.case:
            return self.case[oneof]
        v = self._acc('case__' + oneof) if self.base is not None else 0
        self.case[oneof] = v
        return v

    def set(self, name, value):
        f = self.schema.fields[name]
        if f.repeated:
            raise TypeError('assignment to repeated field %s' % name)
        self.f[name] = value
        if f.oneof:
            self.case[f.oneof] = f.number
        elif f.kind == 'message' or f.optional:
            self.has[name] = True
        self.touch()

    def clear(self, name):
        reg = registry()
        if name in self.schema.oneofs:
            self.case[name] = 0
            for fn in self.schema.oneofs[name]:
                self._reset(fn)
            self.touch()
            return
        f = self.schema.fields[name]
        self._reset(name)
        if f.oneof:
            c = self.get_case(f.oneof)
            if isinstance(c, int):
                if c == f.number:
                    self.case[f.oneof] = 0
            else:
                self.case[f.oneof] = z3.If(c == f.number, 0, c)
        self.touch()

    def _reset(self, name):
        f = self.schema.fields[name]
        reg = registry()
        if f.repeated:
            elem = reg.msgs[f.type_fq] if f.kind == 'message' else f.kind
            es = msg_sort(elem) if isinstance(elem, MsgSchema) else scalar_sort(elem)
            self.f[name] = SymList(z3.IntVal(0), empty_array(es), elem, owner=(self, name))
        elif f.kind == 'message':
            child = Msg(reg.msgs[f.type_fq], base=None)
            child.parent = (self, name)
            self.f[name] = child
            if not f.oneof:
                self.has[name] = False
        else:
            self.f[name] = self._default_scalar(f.kind)
            if f.optional and not f.oneof:
                self.has[name] = False

    def copy_from(self, other):
        """CopyFrom: become field-wise equal to `other` (fresh record graph)."""
        t = other.pack()
        self.base = t
        self.f, self.has, self.case = {}, {}, {}
        if self.schema.fq in OPAQUE_MESSAGES:
            self.opaque_term = t
        self.touch()

    def clone(self):
        return Msg(self.schema, base=self.pack())

    # -- packing
    def pack(self):
        if self.schema.fq in OPAQUE_MESSAGES:
            if self.opaque_term is None:
                self.opaque_term = z3.Const('default_' + self.schema.fq.replace('.', '_'), msg_sort(self.schema))
            return self.opaque_term
        if not self.f and not self.has and not self.case and self.base is not None:
            return self.base
        msg_sort(self.schema)
        layout = msg_layout(self.schema)
        args = []
        for zname, sort, role, f in layout:
            if role == 'case':
                args.append(_lift(self.get_case(f), sort))
            elif role == 'has':
                args.append(_lift(self.get_has(f.name), sort))
            elif role == 'len':
                args.append(_lift(self.get(f.name).n, sort))
            elif role == 'arr':
                args.append(self.get(f.name).arr)
            else:
                v = self.get(f.name)
                if isinstance(v, Msg):
                    args.append(v.pack())
                else:
                    args.append(_lift(v, sort))
        return _MK[self.schema.fq](*args)


_LITS = {}


def str_lit(s):
    """Distinct constant of sort Str for a Python string literal (distinctness is asserted by the engine)."""
    if s not in _LITS:
        _LITS[s] = z3.Const('str_%d_%s' % (len(_LITS), ''.join(c if c.isalnum() else '_' for c in s)[:24]), Str)
    return _LITS[s]


def all_str_lits():
    return list(_LITS.values())


_BLITS = {}


def bytes_lit(b):
    if b not in _BLITS:
        _BLITS[b] = z3.Const('bytes_%d' % len(_BLITS), Bytes)
    return _BLITS[b]


def _lift(v, sort):
    """python scalar -> z3 term of the given sort."""
    if z3.is_expr(v):
        if v.sort() == sort:
            return v
        if sort == z3.RealSort() and v.sort() == z3.IntSort():
            return z3.ToReal(v)
        from . import xreal
        if sort == xreal.XReal and v.sort() in (z3.IntSort(), z3.RealSort()):
            return xreal.from_num(v)
        raise TypeError('sort mismatch %s vs %s' % (v.sort(), sort))
    if sort == z3.BoolSort():
        return z3.BoolVal(bool(v))
    if sort == z3.IntSort():
        return z3.IntVal(int(v))
    if sort == Str:
        return str_lit(v)
    if sort == Bytes:
        return bytes_lit(v if isinstance(v, bytes) else str(v).encode())
    from . import xreal
    if sort == xreal.XReal:
        return xreal.lit(v)
    if sort == z3.RealSort():
        return z3.RealVal(v)
    raise TypeError('cannot lift %r to %s' % (v, sort))


_EMPTY = {}


def empty_array(es):
    """the (irrelevant) content of an empty array-list: one uninterpreted array constant per element sort
    (a constant-array of a non-value default term is not accepted by every SMT-LIB solver)"""
    k = str(es)
    if k not in _EMPTY:
        _EMPTY[k] = z3.Const('empty_arr_' + ''.join(c if c.isalnum() else '_' for c in k), z3.ArraySort(z3.IntSort(), es))
    return _EMPTY[k]


def _default_term(sort):
    if sort == z3.BoolSort():
        return z3.BoolVal(False)
    if sort == z3.IntSort():
        return z3.IntVal(0)
    if sort == Str:
        return str_lit('')
    if sort == Bytes:
        return bytes_lit(b'')
    from . import xreal
    if sort == xreal.XReal:
        return xreal.lit(0.0)
    for fq, (s, layout) in _SORTS.items():
        if s is not None and s == sort and layout is not None and not fq.startswith('Opt:'):
            return Msg(registry().msgs[fq]).pack()
    return z3.Const('default_' + str(sort), sort)


def lookup_pb2(module_dotted, attr_path):
    """Resolve `study_pb2.Trial.State.ACTIVE` style references.
    Returns ('msg', MsgSchema) | ('enum', EnumSchema) | ('enumval', int) | None."""
    pkg = PB2_MODULES.get(module_dotted)
    if pkg is None:
        return None
    reg = registry()
    fq = pkg
    for i, a in enumerate(attr_path):
        cand = fq + '.' + a
        if cand in reg.msgs or cand in reg.enums:
            fq = cand
            continue
        # enum value: either Enum.VALUE or Message.VALUE (nested enum values are exported on the message)
        if fq in reg.enums and a in reg.enums[fq].values and i == len(attr_path) - 1:
            return ('enumval', reg.enums[fq].values[a])
        if fq in reg.msgs and i == len(attr_path) - 1:
            for efq, e in reg.enums.items():
                if efq.rsplit('.', 1)[0] == fq and a in e.values:
                    return ('enumval', e.values[a])
        if fq == pkg and i == len(attr_path) - 1:
            for efq, e in reg.enums.items():
                if efq.rsplit('.', 1)[0] == pkg and a in e.values:
                    return ('enumval', e.values[a])
        return None
    if fq in reg.msgs:
        return ('msg', reg.msgs[fq])
    if fq in reg.enums:
        return ('enum', reg.enums[fq])
    return None
