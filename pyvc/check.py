"""CLI: python3-vt -m pyvc.check <ID> [--tier quick|thorough]

Dispatches to /verif/contracts/<id>.py : main(tier) -> exit code.  A traceback is a checker
error (exit 3), never a violation.
"""
import argparse
import importlib
import os
import sys
import traceback


def main(argv=None):
    ap = argparse.ArgumentParser()
    ap.add_argument('pid')
    ap.add_argument('--tier', default=os.environ.get('VERIF_TIER', 'quick'), choices=['quick', 'thorough'])
    a = ap.parse_args(argv)
    here = os.path.dirname(os.path.dirname(os.path.abspath(__file__)))
    if here not in sys.path:
        sys.path.insert(0, here)
    try:
        mod = importlib.import_module('contracts.' + a.pid.lower())
        rc = mod.main(a.tier)
    except SystemExit as e:
        rc = e.code if isinstance(e.code, int) else 3
    except BaseException:
        traceback.print_exc()
        print('CHECKER-ERROR property=%s uncaught exception in the checker (not a violation)' % a.pid)
        rc = 3
    sys.stdout.flush()
    return rc


if __name__ == '__main__':
    sys.exit(main())
