"""CLI: python3-vt -m pyvc.check <ID> [--tier quick|thorough]

Dispatches to /verif/contracts/<id>.py : main(tier) -> exit code.  A traceback is a checker
error (exit 3), never a violation.
"""
import argparse
import importlib
import os
import sys
import traceback


def supervise(a):
    """Run the check in a child process; a child killed by a signal (a solver library crashing the interpreter) is a
    crash of the checker, not a verdict: it is re-run (at most twice) and never mapped to a violation."""
    import subprocess
    env = dict(os.environ, PYVC_CHILD='1')
    rc = 3
    for attempt in range(3):
        p = subprocess.run([sys.executable, '-m', 'pyvc.check', a.pid, '--tier', a.tier], env=env)
        rc = p.returncode
        if rc in (0, 1, 2, 3):
            return rc
        print('NOTE property=%s checker process ended abnormally (return code %s), attempt %d: re-running' % (a.pid, rc, attempt + 1))
        sys.stdout.flush()
    print('CHECKER-ERROR property=%s checker process ended abnormally three times (not a violation)' % a.pid)
    return 3


def main(argv=None):
    ap = argparse.ArgumentParser()
    ap.add_argument('pid')
    ap.add_argument('--tier', default=os.environ.get('VERIF_TIER', 'quick'), choices=['quick', 'thorough'])
    a = ap.parse_args(argv)
    if os.environ.get('PYVC_CHILD') != '1':
        return supervise(a)
    here = os.path.dirname(os.path.dirname(os.path.abspath(__file__)))
    if here not in sys.path:
        sys.path.insert(0, here)
    try:
        mod = importlib.import_module('contracts.' + a.pid.lower())
        rc = mod.main(a.tier)
    except SystemExit as e:
        rc = e.code if isinstance(e.code, int) else 3
    except BaseException:
        traceback.print_exc()
        print('CHECKER-ERROR property=%s uncaught exception in the checker (not a violation)' % a.pid)
        rc = 3
    sys.stdout.flush()
    return rc


if __name__ == '__main__':
    sys.exit(main())
