#!/bin/bash
# usage: try_seed.sh <seed_out_dir> <check ids...>   -- confirm a seeded change in a scratch worktree and run checks against it
D=$1; shift
WT=/tmp/wt_lead
cd $WT && git checkout -q -- . && git apply $D/patch.diff || { echo "APPLY FAILED"; exit 1; }
echo "--- changed: $(git diff --stat | tail -1)"
for f in $(git diff --name-only); do /venv/bin/python -m py_compile $f || echo "COMPILE FAIL $f"; done
echo "--- demo on /repo:"; (cd $D && VERIF_REPO=/repo timeout 600 /venv/bin/python demo.py 2>&1 | tail -2; echo "exit=${PIPESTATUS[0]}")
echo "--- demo on changed tree:"; (cd $D && VERIF_REPO=$WT timeout 600 /venv/bin/python demo.py 2>&1 | tail -3; echo "exit=${PIPESTATUS[0]}")
if [ "$SKIPTESTS" != "1" ]; then echo "--- tests on changed tree:"; (cd $WT && /venv/bin/python -m pytest -q -p no:cacheprovider --timeout=900 --continue-on-collection-errors 2>&1 | tail -1); fi
for c in "$@"; do
  echo "--- check $c:"; (cd /verif && VERIF_REPO=$WT timeout 1500 python3-vt -m pyvc.check $c 2>&1 | grep -E "VIOLATION|UNDECIDED|CHECKER-ERROR|tier=" | cut -c1-260; echo "exit=${PIPESTATUS[0]}")
done
cd $WT && git checkout -q -- . && find . -name __pycache__ -path "*vizier*" -prune -exec rm -rf {} + 2>/dev/null
