#!/usr/bin/env python3
"""Prints the per-property status table (DESIGN.md 13.7) from MANIFEST.json, evidence/*.json and seeded/*/meta.json."""
import glob, json, os
H = os.path.dirname(os.path.dirname(os.path.abspath(__file__)))
m = json.load(open(os.path.join(H, 'MANIFEST.json')))
seeds = {}
for d in glob.glob(os.path.join(H, 'seeded', '*')):
    sid = os.path.basename(d); pid = sid.split('_')[0]
    st = json.load(open(os.path.join(d, 'meta.json'))).get('status', '')
    s = seeds.setdefault(pid, [0, 0]); s[0] += 1
    if st.startswith('caught'):
        s[1] += 1
print('| property | level | obligations discharged | known-finding obligations (open findings) | functions under contract | seeded changes written for it (caught by some check) |')
print('|---|---|---|---|---|---|')
for c in m['checks']:
    pid = c['property_id']
    e = json.load(open(os.path.join(H, 'evidence', pid + '.json')))
    cov = e.get('coverage', {})
    kn = cov.get('known_finding_obligations', e.get('known_finding_obligations', []))
    nk = len(kn) if isinstance(kn, list) else kn
    fn = e.get('functions_under_contract', cov.get('functions_under_contract', []))
    nobl = cov.get('obligations_discharged', cov.get('discharged', e.get('discharged', '?')))
    s = seeds.get(pid, [0, 0])
    print('| %s | %s | %s | %s | %s | %d (%d) |' % (pid, c['level_claimed']['category'], nobl, nk, len(fn) if isinstance(fn, list) else fn, s[0], s[1]))
