#!/bin/bash
# usage: try_refactor.sh <diff file> <check ids...>  -- a behaviour-preserving change must leave every check at exit 0
D=$1; shift
WT=/tmp/wt_lead
cd $WT && git checkout -q -- . && git apply $D || { echo "APPLY FAILED $D"; exit 1; }
echo "=== $(basename $D): $(git diff --stat | tail -1)"
for c in "$@"; do
  out=$(cd /verif && VERIF_REPO=$WT timeout 1500 python3-vt -m pyvc.check $c 2>&1); rc=$?
  echo "  $c exit=$rc $(echo "$out" | grep -E "VIOLATION|UNDECIDED|CHECKER-ERROR" | head -3 | cut -c1-200)"
done
cd $WT && git checkout -q -- . && find . -name __pycache__ -prune -exec rm -rf {} + 2>/dev/null
