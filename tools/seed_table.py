#!/usr/bin/env python3
"""Prints the markdown table of the seeded changes of rounds 2/3 from /verif/seeded/*/meta.json (DESIGN.md 13.5)."""
import glob, json, os, re
ROUND1 = {'C01_1','C01_2','C02_1','C02_2','C04_1','C05_1','C06_1','C06_2','C08_1','C10_1','C12_1','C13_1','C14_1','C16_1','C17_1'}
def short(t, n):
    t = re.sub(r'\s+', ' ', t).replace('|', '/')
    return t if len(t) <= n else t[:n - 1].rstrip() + '…'
print('| seed | change (files) | result |')
print('|---|---|---|')
for d in sorted(glob.glob(os.path.join(os.path.dirname(os.path.dirname(os.path.abspath(__file__))), 'seeded', '*'))):
    sid = os.path.basename(d)
    if sid in ROUND1:
        continue
    m = json.load(open(os.path.join(d, 'meta.json')))
    files = ', '.join(os.path.basename(f) for f in m.get('files_changed', []))
    print('| %s | %s (%s) | **%s** — %s |' % (sid, short(m.get('summary', ''), 260), files, short(m.get('status', ''), 120), short(m.get('checks_run', ''), 420)))
