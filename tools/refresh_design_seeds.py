#!/usr/bin/env python3
import subprocess, os
H=os.path.dirname(os.path.dirname(os.path.abspath(__file__)))
t=subprocess.run(['python3', os.path.join(H,'tools','seed_table.py')],capture_output=True,text=True).stdout
p=os.path.join(H,'DESIGN.md'); s=open(p).read()
a='<!-- SEEDS2 BEGIN -->'; b='<!-- SEEDS2 END -->'
i=s.index(a)+len(a); j=s.index(b)
open(p,'w').write(s[:i]+'\n'+t+s[j:])
t2=subprocess.run(['python3', os.path.join(H,'tools','status_table.py')],capture_output=True,text=True).stdout
s=open(p).read()
a='<!-- STATUS BEGIN -->'; b='<!-- STATUS END -->'
if a in s:
    i=s.index(a)+len(a); j=s.index(b)
    open(p,'w').write(s[:i]+'\n'+t2+s[j:])
print('refreshed')
