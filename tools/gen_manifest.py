#!/usr/bin/env python3
"""Regenerates /verif/MANIFEST.json from the table below (kept in one place so it stays valid)."""
import json, os
HERE = os.path.dirname(os.path.dirname(os.path.abspath(__file__)))
props = [json.loads(l) for l in open(os.path.join(HERE, 'properties.jsonl'))]

CLAIMS = {}   # pid -> dict(category, text, note, technique, design_ref)
NA = {}       # pid -> reason

def claim(pid, category, text, note, technique, design_ref):
    CLAIMS[pid] = dict(category=category, text=text, note=note, technique=technique, design_ref=design_ref)

PENDING = set()   # built but temporarily not claimed (being adapted)
exec(open(os.path.join(HERE, 'tools', 'claims.py')).read())
for _p in PENDING:
    CLAIMS.pop(_p, None)
    NA[_p] = 'check built (contracts/%s.py) but being adapted to a repair commit in /repo at the time of this commit; not claimed until it is green again' % _p.lower()

checks = []
for p in props:
    pid = p['id']
    if pid in CLAIMS:
        c = CLAIMS[pid]
        checks.append({
            'property_id': pid,
            'quick_cmd': 'python3-vt -m pyvc.check %s --tier quick' % pid,
            'thorough_cmd': 'python3-vt -m pyvc.check %s --tier thorough' % pid,
            'evidence_file': '/verif/evidence/%s.json' % pid,
            'replay_cmd_template': 'cat {path}',
            'engine': 'pyvc',
            'level_claimed': {'category': c['category'], 'text': c['text'], 'design_ref': c['design_ref']},
            'level_note': c['note'], 'technique': c['technique']})
na = [{'property_id': p['id'], 'reason': NA.get(p['id'], 'check not built yet in this session; obligations designed in DESIGN.md section 5 are not discharged by the built verifier yet')}
      for p in props if p['id'] not in CLAIMS]
m = {
 'version': 1,
 'setup_cmd': "python3-vt -c \"import z3; print('z3', z3.get_version_string())\" && /venv/bin/python -c \"import google.protobuf, grpc, sqlalchemy, numpy; print('replay deps ok')\"",
 'hooks': {'guard': 'VIZIER_VERIF', 'enable': 'no hooks: contracts are sidecar files under /verif/contracts, the replay shim is in-process; /repo is read as source text', 'baseline_off_cmd': 'cd /repo && /venv/bin/python -m pytest -ra -q -p no:cacheprovider --timeout=900 --continue-on-collection-errors', 'source_commits': [], 'add_only': True},
 'engines': [{'name': 'pyvc', 'path': '/verif/pyvc', 'serves_properties': sorted(CLAIMS), 'kind_free_text': 'self-built contract-based deductive verifier for a Python subset: VCs generated from the ast of the real /repo source on every run, sidecar contracts under /verif/contracts, discharged by z3 (cvc5 second opinion in thorough tier); path/frame back ends for lock, transaction, dump/load and read-frame obligations'}],
 'checks': checks,
 'notes': 'see DESIGN.md; known genuine defects are listed in known_findings.json / known_findings.d/*.json',
 'not_applicable': na,
}
json.dump(m, open(os.path.join(HERE, 'MANIFEST.json'), 'w'), indent=1)
print('claimed:', sorted(CLAIMS), 'n/a:', [x['property_id'] for x in na])
