#!/usr/bin/env python3
"""usage: store_seed.py <seed id e.g. C07_1> <status> <checks_run text>  -- copy a confirmed seeded change from /tmp/seed_<id>_out to /verif/seeded/<id>/"""
import json, os, shutil, sys
sid, status, checks = sys.argv[1], sys.argv[2], sys.argv[3]
src, dst = '/tmp/seed_%s_out' % sid, '/verif/seeded/%s' % sid
os.makedirs(dst, exist_ok=True)
shutil.copy(os.path.join(src, 'patch.diff'), dst)
demo = open(os.path.join(src, 'demo.py')).read().replace('/tmp/seedtools', '/verif/replay')
open(os.path.join(dst, 'demo.py'), 'w').write(demo)
meta = json.load(open(os.path.join(src, 'meta.json')))
meta['author'] = 'independent sub-agent given only the property text and a scratch checkout'
meta['confirmed_by_lead'] = {'demo_on_/repo': 'PASS exit 0', 'demo_on_changed_tree': 'FAIL exit 1', 'test_suite_on_changed_tree': '131 passed',
                             'how': 'tools/try_seed.sh (scratch worktree /tmp/wt_lead, VERIF_REPO)'}
meta['checks_run'] = checks
meta['status'] = status
json.dump(meta, open(os.path.join(dst, 'meta.json'), 'w'), indent=1)
print('stored', dst)
