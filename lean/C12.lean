import Mathlib.Data.Finset.Card
import Mathlib.Order.Interval.Finset.Nat

/-! C12 (IdDeduplicatingTrialLoader): the cardinality lemma behind the `len(inc) == max_trial_id` shortcut of
    `get_newly_completed_trials`.  Checked with `lean lean/C12.lean` in the thorough tier only.

    SMT side (contracts/c12.py, `run.card_lemma`, instantiated for the incorporated set inc0 and the bound m):
        (forall x. inc0[x] => 1 <= x <= m)  /\  card(inc0) = m   =>   (forall x. 1 <= x <= m => inc0[x])
    Correspondence (inspected, trusted): inc0 : Int -> Bool with finite support  ~  s : Finset Nat;  card ~ Finset.card. -/

theorem card_shortcut (s : Finset Nat) (m : Nat) (h : s ⊆ Finset.Icc 1 m) (hc : s.card = m) :
    s = Finset.Icc 1 m := by
  apply Finset.eq_of_subset_of_card_le h
  simp [hc]

/-- pointwise form used by the verifier: nothing in [1..m] is missing from s. -/
theorem card_shortcut_pointwise (s : Finset Nat) (m : Nat) (h : ∀ x ∈ s, 1 ≤ x ∧ x ≤ m) (hc : s.card = m) :
    ∀ x, 1 ≤ x → x ≤ m → x ∈ s := by
  have hs : s ⊆ Finset.Icc 1 m := by
    intro x hx
    exact Finset.mem_Icc.mpr (h x hx)
  have := card_shortcut s m hs hc
  intro x h1 h2
  rw [this]
  exact Finset.mem_Icc.mpr ⟨h1, h2⟩
