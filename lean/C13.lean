import Mathlib.Data.Finset.Card
import Mathlib.Tactic.Ring
import Mathlib.Tactic.Linarith

/-! C13 (grid search): lemmas used as hints by `pyvc/gridvc.py`.  Checked with `lean lean/C13.lean`
    in the thorough tier only; the quick tier proves the same statements with z3 (NIA). -/

-- inner-loop invariant step: index = t*W + val, digit = t % L, t' = t / L, W' = L*W, val' = digit*W + val
theorem mixed_radix_step (t L W val : Nat) (hL : 0 < L) (hv : val < W) :
    t * W + val = (t / L) * (L * W) + ((t % L) * W + val) ∧ (t % L) * W + val < L * W := by
  constructor
  · have := Nat.div_add_mod t L
    calc t * W + val = (L * (t / L) + t % L) * W + val := by rw [this]
      _ = (t / L) * (L * W) + ((t % L) * W + val) := by ring
  · have h1 : t % L < L := Nat.mod_lt t hL
    have h2 : t % L + 1 ≤ L := h1
    calc (t % L) * W + val < (t % L) * W + W := by omega
      _ = (t % L + 1) * W := by ring
      _ ≤ L * W := Nat.mul_le_mul_right W h2

-- two indices of one window of N consecutive indices with the same residue (same digit vector) are equal
theorem window_injective (i1 i2 q1 q2 v N c : Int) (hN : 1 ≤ N)
    (h1 : i1 = q1 * N + v) (h2 : i2 = q2 * N + v)
    (a1 : c ≤ i1) (b1 : i1 < c + N) (a2 : c ≤ i2) (b2 : i2 < c + N) : i1 = i2 := by
  have hq : q1 = q2 := by
    rcases lt_trichotomy q1 q2 with h | h | h
    · exfalso
      have : (q2 - q1) * N ≥ 1 * N := mul_le_mul_of_nonneg_right (by linarith) (by linarith)
      nlinarith
    · exact h
    · exfalso
      have : (q1 - q2) * N ≥ 1 * N := mul_le_mul_of_nonneg_right (by linarith) (by linarith)
      nlinarith
  rw [h1, h2, hq]

-- an injective map from a window of N indices into the N grid points is onto (pigeonhole)
theorem eq_of_subset_card {α : Type} [DecidableEq α] (A B : Finset α)
    (h : A ⊆ B) (hc : B.card ≤ A.card) : A = B :=
  Finset.eq_of_subset_of_card_le h hc
