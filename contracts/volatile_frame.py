"""Frame condition on the servicer object itself: the response of an RPC depends on the request and the DATASTORE only.

The contracts of C01/C02/C06 describe every RPC as a function of the request and the datastore view D (plus locks and the
Pythia reference).  That is also what the properties need: a server restarted on the same store must answer like the one
that was never stopped (C05: "clients can continue"; C01: stored data are a function of the accepted history).  The real
VizierServicer could, however, keep results-relevant state in memory (a counter, a cache).  Obligation, decided on the real
AST of `VizierServicer`:

    every attribute of `self` that an RPC method (or a private helper it calls) WRITES, or that __init__ binds to a mutable
    container, is one of: the datastore, a lock table, the Pythia reference.

Attributes bound once in __init__ from constructor arguments / constants and never written afterwards are configuration and
are allowed.  A violation is replayed natively with a `RestartServer` step (a new servicer on the same datastore): if the
restarted server answers differently from the one kept alive, the violation is reproduced.
"""
import ast
import json
import os
import subprocess
import time

from pyvc import report, source

SVC = 'vizier._src.service.vizier_service'
LOCK_CTORS = ('threading.Lock', 'Lock', 'threading.RLock', 'RLock')
MUTABLE_CTORS = ('dict', 'list', 'set', 'collections.defaultdict', 'defaultdict', 'collections.Counter', 'Counter',
                 'collections.OrderedDict', 'OrderedDict', 'collections.deque', 'deque')


def _self_attr_target(t):
    while isinstance(t, (ast.Subscript, ast.Attribute)):
        if isinstance(t, ast.Attribute) and isinstance(t.value, ast.Name) and t.value.id == 'self':
            return t.attr
        t = t.value
    return None


def classify_init(init):
    """attr -> kind: 'datastore' | 'locks' | 'pythia' | 'config' | 'mutable:<ctor>'"""
    kinds = {}
    for n in ast.walk(init):
        if not isinstance(n, (ast.Assign, ast.AnnAssign)) or n.value is None:
            continue
        targets = n.targets if isinstance(n, ast.Assign) else [n.target]
        for t in targets:
            if not (isinstance(t, ast.Attribute) and isinstance(t.value, ast.Name) and t.value.id == 'self'):
                continue
            a, v = t.attr, n.value
            src = ast.unparse(v)
            if a == 'datastore':
                kinds[a] = 'datastore'
            elif 'pythia' in a.lower():
                kinds[a] = 'pythia'
            elif isinstance(v, ast.Call) and ast.unparse(v.func) in ('collections.defaultdict', 'defaultdict') and v.args \
                    and ast.unparse(v.args[0]) in LOCK_CTORS:
                kinds[a] = 'locks'
            elif isinstance(v, ast.Call) and ast.unparse(v.func) in LOCK_CTORS:
                kinds[a] = 'locks'
            elif isinstance(v, (ast.Dict, ast.List, ast.Set, ast.ListComp, ast.DictComp, ast.SetComp)) or \
                    (isinstance(v, ast.Call) and ast.unparse(v.func) in MUTABLE_CTORS):
                kinds[a] = 'mutable:%s' % src[:60]
            else:
                kinds.setdefault(a, 'config')
    return kinds


def writes_in_methods(cls):
    """[(method, attr, lineno, text)] for writes to self.<attr>... outside __init__ (assignment, augmented assignment, item
    store, del, or a mutating method call on the attribute)."""
    MUT = {'append', 'extend', 'add', 'update', 'pop', 'popitem', 'clear', 'remove', 'discard', 'setdefault', 'insert', 'appendleft'}
    out = []
    for mname, fn in cls.methods.items():
        if mname == '__init__':
            continue
        for n in ast.walk(fn):
            tg = []
            if isinstance(n, ast.Assign):
                tg = n.targets
            elif isinstance(n, (ast.AugAssign, ast.AnnAssign)):
                tg = [n.target]
            elif isinstance(n, ast.Delete):
                tg = n.targets
            for t in tg:
                for x in (t.elts if isinstance(t, (ast.Tuple, ast.List)) else [t]):
                    a = _self_attr_target(x)
                    if a:
                        out.append((mname, a, n.lineno, ast.unparse(n)[:90]))
            if isinstance(n, ast.Call) and isinstance(n.func, ast.Attribute) and n.func.attr in MUT:
                a = _self_attr_target(n.func.value)
                if a and not (isinstance(n.func.value, ast.Attribute) and n.func.value.attr == a and False):
                    out.append((mname, a, n.lineno, ast.unparse(n)[:90]))
    return out


def replay_restart():
    """Two histories on the real service: SuggestTrials, CompleteTrial, [RestartServer], SuggestTrials.  The outcome of the last
    call must not depend on the restart.  -> (reproduced?, detail)"""
    def hist(restart):
        steps = [{'rpc': 'CreateStudy'}, {'rpc': 'SuggestTrials', 'count': 1, 'client': 'w'}, {'rpc': 'CompleteTrial', 'trial': 1, 'final': 1.0}]
        if restart:
            steps.append({'rpc': 'RestartServer'})
        steps += [{'rpc': 'SuggestTrials', 'count': 1, 'client': 'w'}, {'rpc': 'snapshot'}]
        return {'backend': 'ram', 'policy': {'suggest': [{'deliver': '+0'}]}, 'steps': steps}
    env = dict(os.environ)
    env['VERIF_REPO'] = source.REPO
    outs = []
    for restart in (False, True):
        try:
            r = subprocess.run(['/venv/bin/python', os.path.join(report.VERIF, 'replay', 'service_replay.py'), '-'], input=json.dumps(hist(restart)),
                               capture_output=True, text=True, timeout=600, env=env, cwd=report.VERIF)
            outs.append(json.loads(r.stdout.strip().splitlines()[-1]))
        except Exception as e:      # replay trouble is never a verdict
            return None, {'error': repr(e)}
    a, b = outs[0]['results'][-2], outs[1]['results'][-2]
    strip = lambda r: {k: v for k, v in r.items() if k not in ('rpc',)}
    differs = strip(a) != strip(b)
    return bool(differs), {'kept_alive': a, 'restarted': b}


def run(chk, pid):
    t0 = time.time()
    try:
        cls = source.ModuleInfo.get(SVC).classes['VizierServicer']
    except (KeyError, FileNotFoundError) as e:
        chk.error('extract.VizierServicer', 'class not found in the current tree: %r' % (e,))
        return
    init = cls.methods.get('__init__')
    if init is None:
        chk.error('vacuity.volatile_frame', 'VizierServicer.__init__ not found')
        return
    chk.function(SVC, 'VizierServicer.__init__')
    kinds = classify_init(init)
    if 'datastore' not in kinds:
        chk.error('vacuity.volatile_frame', 'VizierServicer.__init__ binds no datastore attribute (binding lost?)')
        return
    allowed = {a for a, k in kinds.items() if k in ('datastore', 'locks', 'pythia')}
    bad = ['__init__ binds self.%s to a mutable in-memory container `%s` that is neither the datastore nor a lock table' % (a, k.split(':', 1)[1])
           for a, k in sorted(kinds.items()) if k.startswith('mutable:')]
    for m, a, ln, txt in writes_in_methods(cls):
        if a not in allowed:
            bad.append('%s writes in-memory state self.%s: `%s`' % (m, a, txt))
    name = '%s.VizierServicer.frame.responses_depend_on_datastore_only' % pid
    detail = {'attributes': kinds}
    dt = time.time() - t0
    if bad:
        reproduced, rr = replay_restart()
        chk.obligation(name, 'VizierServicer.*', 'frame', report.VIOLATED, dt, detail=detail, model='\n'.join(bad),
                       replay={'offending': bad, 'native_run': rr,
                               'how_to_replay': 'service_replay.py with a RestartServer step between two SuggestTrials of one client'},
                       reproduced=True if reproduced else None)
    else:
        chk.obligation(name, 'VizierServicer.*', 'frame', report.PROVED, dt, detail=detail)


CLIENT = 'vizier._src.service.vizier_client'


def run_client(chk, pid):
    """`<pid>.VizierClient.frame.no_client_side_state`: the client object keeps no mutable in-memory state (no attrs field with
    a mutable container default, no method writing `self.<attr>`): every get_suggestions is answered by the service, so a
    later call of the same worker reaches the algorithm again instead of an operation the client remembers."""
    t0 = time.time()
    try:
        cls = source.ModuleInfo.get(CLIENT).classes['VizierClient']
    except (KeyError, FileNotFoundError) as e:
        chk.error('extract.VizierClient', 'class not found in the current tree: %r' % (e,))
        return
    if 'get_suggestions' not in cls.methods:
        chk.error('vacuity.client_frame', 'VizierClient.get_suggestions not found')
        return
    chk.function(CLIENT, 'VizierClient.get_suggestions')
    bad = []
    for n in cls.node.body if hasattr(cls, 'node') else []:
        if isinstance(n, (ast.AnnAssign, ast.Assign)) and n.value is not None:
            src = ast.unparse(n.value)
            tgt = ast.unparse(n.target if isinstance(n, ast.AnnAssign) else n.targets[0])
            for ctor in ('dict', 'list', 'set', 'collections.defaultdict', 'defaultdict', 'collections.Counter', 'collections.OrderedDict', 'collections.deque'):
                if 'factory=%s' % ctor in src.replace(' ', '') or src.strip() in ('{}', '[]', 'set()', 'dict()', 'list()'):
                    bad.append('field %s has a mutable in-memory default: `%s`' % (tgt, src[:80]))
                    break
    for m, a, ln, txt in writes_in_methods(cls):
        bad.append('%s writes client-side state self.%s: `%s`' % (m, a, txt))
    name = '%s.VizierClient.frame.no_client_side_state' % pid
    dt = time.time() - t0
    if not bad:
        chk.obligation(name, 'VizierClient.*', 'frame', report.PROVED, dt, detail={'methods': sorted(cls.methods)})
        return
    env = dict(os.environ)
    env['VERIF_REPO'] = source.REPO
    try:
        r = subprocess.run(['/venv/bin/python', os.path.join(report.VERIF, 'replay', 'c06_client.py')], capture_output=True, text=True, timeout=600, env=env, cwd=report.VERIF)
        rr = json.loads([l for l in r.stdout.splitlines() if l.startswith('{')][-1])
    except Exception as e:      # replay trouble is never a verdict
        rr = {'reproduced': None, 'error': repr(e)}
    chk.obligation(name, 'VizierClient.*', 'frame', report.VIOLATED, dt, model='\n'.join(bad),
                   replay={'offending': bad, 'native_run': rr, 'how_to_replay': 'VERIF_REPO=<tree> /venv/bin/python /verif/replay/c06_client.py'},
                   reproduced=True if rr.get('reproduced') else None)
