"""C20 -- benchmark experimenters evaluate faithfully and leave suggestions intact (DESIGN 5 "C20").

MODULAR verification: every wrapper experimenter is verified against `BaseContract` -- *assumed* for the wrapped
experimenter (an object of an opaque class whose evaluate / problem_statement are contracts, pyvc/exptr_model.py) and
*proved* for the wrapper, whose real `__init__`, `evaluate` and `problem_statement` ASTs (from $VERIF_REPO) are executed by
the pyvc engine.  Batches have symbolic size (array-lists of trial references into a heap of trials, loop contracts),
parameter dicts and metric dicts have symbolic size (dict values with an iteration order).

BaseContract (the property's first sentence):
    evaluate(trials)      every given trial ends up marked infeasible, or completed with (at least) every metric named in
                          problem_statement(); `parameters` of every trial are left as given; no other trial is touched
    problem_statement()   returns a fresh deep copy (by value) of a constant problem statement

READING OF THE PROPERTY (stated, used by the oracles):
 * "the metrics named in its problem statement": all of them must be present; additional (auxiliary) metrics are allowed
   (NoisyExperimenter documents `<name>_before_noise`; SignFlip's flip_objectives_only speaks of auxiliary metrics).
 * "leaves the trial's parameters as they were suggested": on normal return.  What happens when the wrapped experimenter
   raises is *reported* (note `exception_paths`) but not an obligation: the sentence describes completed evaluations.
 * batches contain pairwise distinct trial objects (the same Trial object twice in one batch is not a suggestion batch).
 * numeric faithfulness of BBOB / Branin / Hartmann / SimpleKD is floating-point algebra: NOT claimed.
"""
import ast
import json
import os
import subprocess
import sys
import time

import z3

from pyvc import engine as E, models as M, protomodel as pm, report, verify, xreal, source
from pyvc import exptr_model as X
from pyvc.engine import Obj, Unsupported
from pyvc.protomodel import Str
from pyvc.source import ModuleInfo

PKG = 'vizier._src.benchmarks.experimenters.'
SF, SH, PE, DI = PKG + 'sign_flip_experimenter', PKG + 'shifting_experimenter', PKG + 'permuting_experimenter', PKG + 'discretizing_experimenter'
NO, NZ, NP, IN = PKG + 'noisy_experimenter', PKG + 'normalizing_experimenter', PKG + 'numpy_experimenter', PKG + 'infeasible_experimenter'
SW, SP, MO = PKG + 'switch_experimenter', PKG + 'sparse_experimenter', PKG + 'multiobjective_experimenter'

ASSUMPTIONS = [
    'BaseContract is assumed for the wrapped experimenter (opaque class): see the module docstring of contracts/c20.py',
    'batches contain pairwise distinct, already constructed Trial objects; every Trial owns its final_measurement object',
    'floats are extended reals fin(r)|+inf|-inf|nan; negation and comparisons are exact; + - * / on finite values are mathematical '
    '(machine arithmetic treated as mathematical: no rounding, no overflow), the sign of zero is not modelled',
    'strings are an uninterpreted sort with equality; str.startswith and string concatenation are uninterpreted functions',
    'search spaces, numpy arrays and converters are opaque values: the search-space construction inside the wrappers\' __init__ '
    '(bounds restriction of ShiftingExperimenter, feasible values of DiscretizingExperimenter, hypercube space) is executed but not verified',
    'logging has no effect; the text of exception messages is not part of any obligation',
]

TIER = 'quick'
REPLAY = os.path.join(report.VERIF, 'replay', 'c20_replay.py')


def cls_of(mod, name):
    return ModuleInfo.get(mod).classes[name]


def call_method(it, obj, name, args, kw=None):
    return it.call(it.getattr(obj, name), list(args), dict(kw or {}))


def find_attr(o, pred, what):
    """the unique attribute of instance o whose value satisfies pred (attributes are bound by role, not by name)."""
    hits = [(k, v) for k, v in o.attrs.items() if pred(v)]
    if len(hits) != 1:
        raise Unsupported('cannot identify %s among the attributes of %r: %s' % (what, o, [k for k, _ in hits]))
    return hits[0][1]


def find_local(fr, pred, what):
    hits = [(k, v) for k, v in fr.env.items() if pred(v)]
    if len(hits) != 1:
        raise Unsupported('cannot identify %s among the locals: %s' % (what, [k for k, _ in hits]))
    return hits[0]


def is_base(v):
    return isinstance(v, Obj) and v.cls == 'BaseExperimenter'


def is_batch(v):
    return isinstance(v, X.VList) and v.kind is X.K_TRIAL


# ------------------------------------------------------------------------------------------ heap formulas
def G(run):
    return X.heap_snapshot(run)


def fields_equal(a, b, fields=tuple(X.FIELDS)):
    return z3.And(*[a[f] == b[f] for f in fields])


def trial_unchanged(a, b, r, fields=X.TRIAL_FIELDS):
    return z3.And(*[a[f][r] == b[f][r] for f in fields])


NONTRIAL = tuple(f for f in X.FIELDS if f not in X.TRIAL_FIELDS)


def state_preserved(cur, ent):
    """allocation only grows; MetricInformation objects that existed keep their fields."""
    r, m = z3.Const('r!sp', X.TRef), z3.Const('m!sp', X.MIRef)
    return z3.And(z3.ForAll([r], z3.Implies(ent['talloc'][r], cur['talloc'][r])),
                  z3.ForAll([m], z3.Implies(ent['mialloc'][m], z3.And(cur['mialloc'][m], cur['goal'][m] == ent['goal'][m],
                                                                      cur['miname'][m] == ent['miname'][m], cur['mirest'][m] == ent['mirest'][m]))))


def batch_loop_frame(run, ctx, xs, cur, ent, done):
    """generic clauses of a loop that processes the trials xs[0..i) one by one, writing only the current trial:
       not-yet-processed trials and all trials outside the batch are as at loop entry; `done(r)` holds for processed ones."""
    r = z3.Const('r!lf', X.TRef)
    i = ctx.i
    processed = z3.And(xs.member(r), xs.pos[r] < i)
    return [('frame', z3.ForAll([r], z3.Implies(z3.And(ent['talloc'][r], z3.Not(processed)), trial_unchanged(cur, ent, r)))),
            ('other_state', state_preserved(cur, ent)),
            ('processed', z3.ForAll([r], z3.Implies(processed, done(r))))]


def entry_heap(ctx):
    return {f: ctx.entry_ghost['H.' + f] for f in X.FIELDS}


def loop_batch(ctx):
    """the batch a for-loop runs over (directly, or through zip / enumerate)."""
    v = ctx.iter
    if isinstance(v, X.EnumList):
        v = v.xs
    if isinstance(v, X.ZipList):
        bs = [p for p in v.parts if is_batch(p)]
        if len(bs) != 1:
            raise Unsupported('zip loop without exactly one batch of trials')
        return bs[0]
    if not is_batch(v):
        raise Unsupported('loop over %r is not a loop over the batch' % (v,))
    return v


def dict_build_invariant(it, fr, ctx, di, T, guard=None):
    """`d = {}; for k, v in m.items(): d[k] = T(k, v)` -- d is the T-image of the first i items of m; the heap is untouched.
       T(s, v) -> z3 term of the value sort; guard(s) -> z3 Bool (key is kept) or None."""
    run = it.run
    items = ctx.iter
    if not isinstance(items, X.ItemsList):
        raise Unsupported('dict-building loop over %r' % (items,))
    m0 = items.dv
    name, d = find_local(fr, lambda v: isinstance(v, (M.PyDict, X.SMap)), 'the dict under construction')
    if ctx.phase == 'head':
        X.set_clock(run, ctx.i)
        if isinstance(d, X.SMap):
            d.ensure(it, di)
    dom, val, src = X.view(it, d, di)
    keys, mval = m0.di.keys(m0.term), m0.di.val(m0.term)
    s, j = z3.Const('s!db', Str), z3.Int('j!db')
    i = ctx.i
    keep = (lambda k: z3.BoolVal(True)) if guard is None else guard
    return [('heap_untouched', fields_equal(G(run), entry_heap(ctx))),
            ('image', z3.ForAll([s], z3.Implies(dom[s], z3.And(src[s] >= 0, src[s] < i, keys[src[s]] == s, keep(s), val[s] == T(s, mval[s]))))),
            ('covered', z3.ForAll([j], z3.Implies(z3.And(j >= 0, j < i, keep(keys[j])), dom[keys[j]])))]


def image_of(di, m0, m1, T, guard=None):
    """m1 = { s: T(s, m0[s]) for s in m0 [if guard(s)] } (as dict values)."""
    s = z3.Const('s!im', Str)
    keep = (lambda k: z3.BoolVal(True)) if guard is None else guard
    return z3.ForAll([s], z3.And(di.dom(m1)[s] == z3.And(di.dom(m0)[s], keep(s)),
                                 z3.Implies(z3.And(di.dom(m0)[s], keep(s)), di.val(m1)[s] == T(s, di.val(m0)[s]))))


# ------------------------------------------------------------------------------------------ common harness
class Setup:
    """symbolic world of one verification run: heap, wrapped experimenter(s), a batch of arbitrary size."""

    def __init__(self, it, nbases=1):
        run = it.run
        X.init_heap(run)
        self.bases = [X.make_base(run, 'b%d' % k, k) for k in range(nbases)]
        self.base = self.bases[0]
        self.xs = X.make_batch(run)
        self.H0 = G(run)
        run.setup = self


def base_calls(run):
    return getattr(run, 'base_calls', [])


def post_common(prefix, p, wrapper_names=None):
    """obligations shared by every wrapper's evaluate on a normally returning path:
         parameters_unchanged, frame (no trial outside the batch touched), completes (BaseContract re-established)."""
    run = p.run
    st = run.setup
    xs, H0, F = st.xs, st.H0, G(run)
    j, r = z3.Int('j!pc'), z3.Const('r!pc', X.TRef)
    inr = z3.And(j >= 0, j < xs.n)
    out = [(prefix + 'parameters_unchanged', z3.ForAll([j], z3.Implies(inr, F['params'][xs.arr[j]] == H0['params'][xs.arr[j]]))),
           (prefix + 'frame', z3.And(z3.ForAll([r], z3.Implies(z3.And(z3.Not(xs.member(r)), H0['talloc'][r]), trial_unchanged(F, H0, r))),
                                     state_preserved(F, H0)))]
    nm = wrapper_names if wrapper_names is not None else (lambda s: X.named(st.base, s))
    out.append((prefix + 'completes', z3.ForAll([j], z3.Implies(inr, X.completed_formula(F, st.base, xs.arr[j], nm)))))
    return out


# =========================================================================================== SignFlipExperimenter
def flipped_metric(v):
    """the documented transformation of one metric: value negated (spec side: exact negation of extended reals)."""
    return X.MetricS.mk(xreal.neg(X.MetricS.value(v)), z3.BoolVal(False), xreal.lit(0.0))


def sf_parts(w):
    """(wrapped experimenter, flip_objectives_only flag, recorded objective names) of a SignFlip instance, by role."""
    base = find_attr(w, lambda v: isinstance(v, Obj) and not isinstance(v.cls, str) or is_base(v), 'the wrapped experimenter')
    flag = find_attr(w, lambda v: isinstance(v, bool) or (z3.is_expr(v) and v.sort() == z3.BoolSort()), 'flip_objectives_only')
    objs = find_attr(w, lambda v: isinstance(v, X.SMap), 'the recorded objective names')
    return base, flag, objs


def sf_T(w):
    base, flag, objs = sf_parts(w)
    fl = E.zbool(flag)

    def cond(s):
        return z3.Or(z3.Not(fl), objs.dom[s])

    def T(s, v):
        # code side: Metric(value=-1.0 * v.value); the invariant states what the loop computes, the postcondition
        # below is written with exact negation
        return z3.If(cond(s), X.MetricS.mk(xreal.mul(xreal.lit(-1.0), X.MetricS.value(v)), z3.BoolVal(False), xreal.lit(0.0)), v)
    return T, cond


def sf_inv_outer(it, fr, ctx):
    run = it.run
    w = fr.env[fr.func.node.args.args[0].arg]
    T, _ = sf_T(w)
    xs = loop_batch(ctx)
    cur, ent = G(run), entry_heap(ctx)

    def done(r):
        return z3.And(cur['params'][r] == ent['params'][r], cur['fmset'][r] == ent['fmset'][r], cur['rest'][r] == ent['rest'][r],
                      cur['infeas'][r] == ent['infeas'][r],
                      z3.If(ent['fmset'][r], image_of(X.MDI, ent['metrics'][r], cur['metrics'][r], T), cur['metrics'][r] == ent['metrics'][r]))
    return batch_loop_frame(run, ctx, xs, cur, ent, done)


def sf_inv_inner(it, fr, ctx):
    w = fr.env[fr.func.node.args.args[0].arg]
    T, _ = sf_T(w)
    return dict_build_invariant(it, fr, ctx, X.MDI, T)


def sf_inv_goals(it, fr, ctx):
    """problem_statement: the goals of the first i metric configs of the fresh copy are flipped, the others are as copied."""
    run = it.run
    lst = ctx.iter
    cur, ent = G(run), entry_heap(ctx)
    m = z3.Const('m!sg', X.MIRef)
    i = ctx.i
    inlist = z3.And(lst.pos[m] >= 0, lst.pos[m] < lst.n, lst.arr[lst.pos[m]] == m)
    return [('trials_untouched', fields_equal(cur, ent, X.TRIAL_FIELDS + ('talloc', 'mialloc', 'miname', 'mirest'))),
            ('others', z3.ForAll([m], z3.Implies(z3.Not(z3.And(inlist, lst.pos[m] < i)), cur['goal'][m] == ent['goal'][m]))),
            ('flipped', z3.ForAll([m], z3.Implies(z3.And(inlist, lst.pos[m] < i), cur['goal'][m] == flip_goal(it, ent['goal'][m]))))]


def flip_goal(it, g):
    mx, mn = X.goal_member(it, 'MAXIMIZE').term, X.goal_member(it, 'MINIMIZE').term
    return z3.If(g == mx, mn, z3.If(g == mn, mx, g))


E.LOOPS[(SF, 'SignFlipExperimenter.evaluate', 1)] = E.LoopSpec(sf_inv_outer, ghost=X.ALL)
E.LOOPS[(SF, 'SignFlipExperimenter.evaluate', 2)] = E.LoopSpec(sf_inv_inner, ghost=X.ALL)
E.LOOPS[(SF, 'SignFlipExperimenter.problem_statement', 1)] = E.LoopSpec(sf_inv_goals, ghost=X.ALL)


def sf_construct(it, base, depth=1):
    cls = cls_of(SF, 'SignFlipExperimenter')
    run = it.run
    flag = z3.Bool('flip_objectives_only')
    w = base
    for _ in range(depth):
        w = M.construct(it, cls, [w, flag], {})
    run.flag = flag
    return w


def sf_entry_evaluate(depth):
    def entry(it):
        st = Setup(it)
        run = it.run
        run.w = sf_construct(it, st.base, depth)
        st.H0 = G(run)
        return call_method(it, run.w, 'evaluate', [st.xs])
    return entry


def sf_post_evaluate(p):
    R = 'C20.SignFlip.evaluate.'
    run = p.run
    if p.kind != 'return':
        return []
    st = run.setup
    calls = [c for c in base_calls(run) if not c['raised']]
    out = [(R + 'delegates_once', z3.BoolVal(len(calls) == 1 and calls[0]['xs'].arr.eq(st.xs.arr) and calls[0]['xs'].n.eq(st.xs.n)))]
    if len(calls) != 1:
        return out
    B, F, xs = calls[0]['post'], G(run), st.xs
    fl = run.flag
    j, s = z3.Int('j!sf'), z3.Const('s!sf', Str)
    inr = z3.And(j >= 0, j < xs.n)
    r = xs.arr[j]
    had = z3.And(inr, B['fmset'][r], X.MDI.dom(B['metrics'][r])[s])
    is_obj = z3.Or(z3.Not(fl), X.named(st.base, s))
    out += [
        (R + 'negates_objectives', z3.ForAll([j, s], z3.Implies(z3.And(had, is_obj), z3.And(
            X.MDI.dom(F['metrics'][r])[s],
            X.MetricS.value(X.MDI.val(F['metrics'][r])[s]) == xreal.neg(X.MetricS.value(X.MDI.val(B['metrics'][r])[s])))))),
        (R + 'only_objectives', z3.ForAll([j, s], z3.Implies(z3.And(had, fl, z3.Not(X.named(st.base, s))), z3.And(
            X.MDI.dom(F['metrics'][r])[s], X.MDI.val(F['metrics'][r])[s] == X.MDI.val(B['metrics'][r])[s])))),
        (R + 'no_metric_added_or_lost', z3.ForAll([j, s], z3.Implies(z3.And(inr, B['fmset'][r]),
                                                                    X.MDI.dom(F['metrics'][r])[s] == X.MDI.dom(B['metrics'][r])[s]))),
        (R + 'status_untouched', z3.ForAll([j], z3.Implies(inr, z3.And(F['fmset'][r] == B['fmset'][r], F['infeas'][r] == B['infeas'][r],
                                                                       F['rest'][r] == B['rest'][r])))),
        (R + 'base_sees_suggested_parameters', z3.ForAll([j], z3.Implies(inr, calls[0]['pre']['params'][r] == st.H0['params'][r]))),
    ]
    return out + post_common(R, p)
