"""C20 -- benchmark experimenters evaluate faithfully and leave suggestions intact (DESIGN 5 "C20").

MODULAR verification: every wrapper experimenter is verified against `BaseContract` -- *assumed* for the wrapped
experimenter (an object of an opaque class whose evaluate / problem_statement are contracts, pyvc/exptr_model.py) and
*proved* for the wrapper, whose real `__init__`, `evaluate` and `problem_statement` ASTs (from $VERIF_REPO) are executed by
the pyvc engine.  Batches have symbolic size (array-lists of trial references into a heap of trials, loop contracts),
parameter dicts and metric dicts have symbolic size (dict values with an iteration order).

BaseContract (the property's first sentence):
    evaluate(trials)      every given trial ends up marked infeasible, or completed with (at least) every metric named in
                          problem_statement(); `parameters` of every trial are left as given; no other trial is touched
    problem_statement()   returns a fresh deep copy (by value) of a constant problem statement

READING OF THE PROPERTY (stated, used by the oracles):
 * "the metrics named in its problem statement": all of them must be present; additional (auxiliary) metrics are allowed
   (NoisyExperimenter documents `<name>_before_noise`; SignFlip's flip_objectives_only speaks of auxiliary metrics).
 * "leaves the trial's parameters as they were suggested": on normal return.  What happens when the wrapped experimenter
   raises is *reported* (note `exception_paths`) but not an obligation: the sentence describes completed evaluations.
 * batches contain pairwise distinct trial objects (the same Trial object twice in one batch is not a suggestion batch).
 * numeric faithfulness of BBOB / Branin / Hartmann / SimpleKD is floating-point algebra: NOT claimed.
"""
import ast
import json
import os
import subprocess
import sys
import time

import z3

from pyvc import engine as E, models as M, protomodel as pm, report, verify, xreal, source
from pyvc import attrs_model as A   # attrs-generated __init__ of the @attr.define experimenters
from pyvc import exptr_model as X
from pyvc.engine import Obj, Unsupported
from pyvc.protomodel import Str
from pyvc.source import ModuleInfo

PKG = 'vizier._src.benchmarks.experimenters.'
SF, SH, PE, DI = PKG + 'sign_flip_experimenter', PKG + 'shifting_experimenter', PKG + 'permuting_experimenter', PKG + 'discretizing_experimenter'
NO, NZ, NP, IN = PKG + 'noisy_experimenter', PKG + 'normalizing_experimenter', PKG + 'numpy_experimenter', PKG + 'infeasible_experimenter'
SW, SP, MO = PKG + 'switch_experimenter', PKG + 'sparse_experimenter', PKG + 'multiobjective_experimenter'

ASSUMPTIONS = [
    'BaseContract is assumed for the wrapped experimenter (opaque class): see the module docstring of contracts/c20.py',
    'batches contain pairwise distinct, already constructed Trial objects; every Trial owns its final_measurement object and its '
    'ParameterDict object (object identity of parameter dicts is modelled: `old = trial.parameters` is a reference, in-place item '
    'assignment is seen through every alias, `trial.parameters = x` / ParameterDict(x) / copy.deepcopy build fresh objects)',
    'floats are extended reals fin(r)|+inf|-inf|nan; negation and comparisons are exact; + - * / on finite values are mathematical '
    '(machine arithmetic treated as mathematical: no rounding, no overflow), the sign of zero is not modelled',
    'strings are an uninterpreted sort with equality; str.startswith and string concatenation are uninterpreted functions',
    'search spaces, numpy arrays and converters are opaque values: the search-space construction inside the wrappers\' __init__ '
    '(bounds restriction of ShiftingExperimenter, feasible values of DiscretizingExperimenter, hypercube space) is executed but not verified',
    'logging has no effect; the text of exception messages and of infeasibility reasons is not part of any obligation (a trial is infeasible '
    'iff its reason is not None; "the same reason" is not modelled)',
]

TIER = 'quick'
REPLAY = os.path.join(report.VERIF, 'replay', 'c20_replay.py')


def cls_of(mod, name):
    return ModuleInfo.get(mod).classes[name]


def call_method(it, obj, name, args, kw=None):
    return it.call(it.getattr(obj, name), list(args), dict(kw or {}))


def find_attr(o, pred, what):
    """the unique attribute of instance o whose value satisfies pred (attributes are bound by role, not by name)."""
    hits = [(k, v) for k, v in o.attrs.items() if pred(v)]
    if len(hits) != 1:
        raise Unsupported('cannot identify %s among the attributes of %r: %s' % (what, o, [k for k, _ in hits]))
    return hits[0][1]


def find_local(fr, pred, what):
    hits = [(k, v) for k, v in fr.env.items() if pred(v)]
    if len(hits) != 1:
        raise Unsupported('cannot identify %s among the locals: %s' % (what, [k for k, _ in hits]))
    return hits[0]


def is_base(v):
    return isinstance(v, Obj) and v.cls == 'BaseExperimenter'


def is_batch(v):
    return isinstance(v, X.VList) and v.kind is X.K_TRIAL


# ------------------------------------------------------------------------------------------ quantifiers (symbolic or concrete spine)
_QN = [0]


def _qv(prefix, sort):
    _QN[0] += 1
    return z3.Const('%s!q%d' % (prefix, _QN[0]), sort)


def QJ(xs, body):
    """for all positions j of the batch / list xs: body(j, xs[j]) -- expanded when the spine is concrete."""
    conc = getattr(xs, 'conc', None)
    if conc is not None:
        return z3.And(*[body(z3.IntVal(k), t.term) for k, t in enumerate(conc)]) if conc else z3.BoolVal(True)
    j = _qv('j', z3.IntSort())
    return z3.ForAll([j], z3.Implies(z3.And(j >= 0, j < xs.n), body(j, xs.arr[j])))


def QS(run, body):
    """for all strings s: body(s) -- over the relevant strings in a bounded model query."""
    rel = getattr(run, 'strings', None)
    if rel is not None:
        return z3.And(*[body(s) for s in rel]) if rel else z3.BoolVal(True)
    s = _qv('s', Str)
    return z3.ForAll([s], body(s))


def QR(run, body):
    """for all trial references r: body(r) -- over batch + spare references in a bounded model query."""
    if getattr(run, 'strings', None) is not None:
        refs = [t.term for t in run.setup.xs.conc] + list(getattr(run, 'spare_refs', []))
        return z3.And(*[body(r) for r in refs]) if refs else z3.BoolVal(True)
    r = _qv('r', X.TRef)
    return z3.ForAll([r], body(r))


def QM(run, body):
    """for all MetricInformation references m."""
    if getattr(run, 'strings', None) is not None:
        refs = [m for b in getattr(run, 'bases', []) for m in getattr(b, 'mrefs', [])]
        return z3.And(*[body(m) for m in refs]) if refs else z3.BoolVal(True)
    m = _qv('m', X.MIRef)
    return z3.ForAll([m], body(m))


# ------------------------------------------------------------------------------------------ heap formulas
def G(run):
    return X.heap_snapshot(run)


def fields_equal(a, b, fields=tuple(X.FIELDS)):
    fs = []
    for f in fields:
        fs += ['pobj', 'pval', 'palloc'] if f == 'params' else [f]
    return z3.And(*[a[f] == b[f] for f in dict.fromkeys(fs)])


def QP(run, body):
    """for all ParameterDict objects o."""
    if getattr(run, 'strings', None) is not None:
        refs = list(getattr(run, 'pd_refs', []))
        return z3.And(*[body(o) for o in refs]) if refs else z3.BoolVal(True)
    o = _qv('o', X.PDRef)
    return z3.ForAll([o], body(o))


def trial_unchanged(a, b, r, fields=X.TRIAL_FIELDS):
    """same field values, and (when parameters are among the fields) the very same ParameterDict object with the same content"""
    fs = list(fields) + (['pobj'] if 'params' in fields else [])
    return z3.And(*[a[f][r] == b[f][r] for f in fs])


def heap_wf(run, h):
    """every existing Trial holds an existing ParameterDict object (language-level invariant of the heap model)."""
    return QR(run, lambda r: z3.Implies(h['talloc'][r], h['palloc'][h['pobj'][r]]))


def H0_of(run):
    """snapshot of the heap at the start of the function under contract; the heap invariant is assumed for it."""
    h = G(run)
    if getattr(run, 'strings', None) is None:
        run.axiom(heap_wf(run, h))
    return h


def state_preserved(run, cur, ent):
    """allocation only grows; MetricInformation objects that existed keep their fields."""
    return z3.And(QR(run, lambda r: z3.Implies(ent['talloc'][r], cur['talloc'][r])),
                  heap_wf(run, cur),
                  # ParameterDict objects that existed are never mutated in place (new assignments create new objects)
                  QP(run, lambda o: z3.Implies(ent['palloc'][o], z3.And(cur['palloc'][o], cur['pval'][o] == ent['pval'][o]))),
                  QM(run, lambda m: z3.Implies(ent['mialloc'][m], z3.And(cur['mialloc'][m], cur['goal'][m] == ent['goal'][m],
                                                                         cur['miname'][m] == ent['miname'][m], cur['mirest'][m] == ent['mirest'][m]))))


def batch_loop_frame(run, ctx, xs, cur, ent, done):
    """generic clauses of a loop that processes the trials xs[0..i) one by one, writing only the current trial:
       not-yet-processed trials and all other existing trials are as at loop entry; `done(r)` holds for processed ones."""
    r = z3.Const('r!lf', X.TRef)
    i = ctx.i
    processed = z3.And(xs.member(r), xs.pos[r] < i)
    return [('frame', z3.ForAll([r], z3.Implies(z3.And(ent['talloc'][r], z3.Not(processed)), trial_unchanged(cur, ent, r)))),
            ('other_state', state_preserved(run, cur, ent)),
            ('processed', z3.ForAll([r], z3.Implies(processed, done(r))))]


def entry_heap(ctx):
    return X.snap_of(ctx.entry_ghost)


def loop_batch(ctx):
    """the batch a for-loop runs over (directly, or through zip / enumerate)."""
    v = ctx.iter
    if isinstance(v, X.EnumList):
        v = v.xs
    if isinstance(v, X.ZipList):
        bs = [p for p in v.parts if is_batch(p)]
        if len(bs) != 1:
            raise Unsupported('zip loop without exactly one batch of trials')
        return bs[0]
    if not is_batch(v):
        raise Unsupported('loop over %r is not a loop over the batch' % (v,))
    return v


def dict_build_invariant(it, fr, ctx, di, T, guard=None):
    """`d = {}; for k, v in m.items(): d[k] = T(k, v)` -- d is the T-image of the first i items of m; the heap is untouched.
       T(s, v) -> z3 term of the value sort; guard(s) -> z3 Bool (key is kept) or None."""
    run = it.run
    items = ctx.iter
    if not isinstance(items, X.ItemsList):
        raise Unsupported('dict-building loop over %r' % (items,))
    m0 = items.dv
    name, d = find_local(fr, lambda v: isinstance(v, (M.PyDict, X.SMap)), 'the dict under construction')
    if ctx.phase == 'head':
        X.set_clock(run, ctx.i)
        if isinstance(d, X.SMap):
            d.ensure(it, di)
    dom, val, src = X.view(it, d, di)
    keys, mval = m0.di.keys(m0.term), m0.di.val(m0.term)
    s, j = z3.Const('s!db', Str), z3.Int('j!db')
    i = ctx.i
    keep = (lambda k: z3.BoolVal(True)) if guard is None else guard
    return [('heap_untouched', fields_equal(G(run), entry_heap(ctx))),
            ('image', z3.ForAll([s], z3.Implies(dom[s], z3.And(src[s] >= 0, src[s] < i, keys[src[s]] == s, keep(s), val[s] == T(s, mval[s]))))),
            ('covered', z3.ForAll([j], z3.Implies(z3.And(j >= 0, j < i, keep(keys[j])), dom[keys[j]])))]


def image_of(di, m0, m1, T, guard=None):
    """m1 = { s: T(s, m0[s]) for s in m0 [if guard(s)] } (as dict values)."""
    s = z3.Const('s!im', Str)
    keep = (lambda k: z3.BoolVal(True)) if guard is None else guard
    return z3.ForAll([s], z3.And(di.dom(m1)[s] == z3.And(di.dom(m0)[s], keep(s)),
                                 z3.Implies(z3.And(di.dom(m0)[s], keep(s)), di.val(m1)[s] == T(s, di.val(m0)[s]))))


# ------------------------------------------------------------------------------------------ common harness
class Setup:
    """symbolic world of one run: heap, wrapped experimenter(s), a batch.  bounded=None: everything of arbitrary size
    (proof);  bounded=dict(batch=k, params=q, metrics=m, aux=a): concrete spines (model query, DESIGN 2.5)."""

    def __init__(self, it, nbases=1, bounded=None):
        run = it.run
        X.init_heap(run)
        self.bounded = bounded
        if bounded is None:
            self.bases = [X.make_base(run, 'b%d' % k, k) for k in range(nbases)]
            self.xs = X.make_batch(run)
        else:
            run.strings = []
            self.bases = [X.bounded_base(run, 'b%d' % k, k, bounded.get('metrics', 2), bounded.get('aux', 1)) for k in range(nbases)]
            self.xs = X.bounded_batch(run, bounded.get('batch', 2), bounded.get('params', 2))
        self.base = self.bases[0]
        run.setup = self
        self.H0 = H0_of(run)


def base_calls(run):
    return getattr(run, 'base_calls', [])


def post_common(prefix, p, wrapper_names=None, skip=()):
    """obligations shared by every wrapper's evaluate on a normally returning path:
         parameters_unchanged, frame (no trial outside the batch touched), completes (BaseContract re-established)."""
    run = p.run
    st = run.setup
    xs, H0, F = st.xs, st.H0, G(run)
    out = []
    if 'parameters_unchanged' not in skip:
        out.append((prefix + 'parameters_unchanged', QJ(xs, lambda j, r: F['params'][r] == H0['params'][r])))
    if 'frame' not in skip:
        out.append((prefix + 'frame', z3.And(QR(run, lambda r: z3.Implies(z3.And(z3.Not(X.member_of(xs, r)), H0['talloc'][r]), trial_unchanged(F, H0, r))),
                                             state_preserved(run, F, H0))))
    if 'completes' not in skip:
        nm = wrapper_names if wrapper_names is not None else (lambda s: X.named(st.base, s))
        out.append((prefix + 'completes', QJ(xs, lambda j, r: z3.Or(F['infeas'][r], z3.And(F['fmset'][r], QS(run, lambda s: z3.Implies(
            nm(s), X.MDI.dom(F['metrics'][r])[s])))))))
    return out


# ------------------------------------------------------------------------------------------ replay plumbing
def enc_float(x):
    import math
    if x is None:
        return None
    if math.isnan(x):
        return 'nan'
    if math.isinf(x):
        return 'inf' if x > 0 else '-inf'
    return x


def dec_float(x):
    return float(x) if isinstance(x, str) else x


def same_float(a, b):
    import math
    a, b = dec_float(a), dec_float(b)
    if a is None or b is None:
        return a is b
    if math.isnan(a) or math.isnan(b):
        return math.isnan(a) and math.isnan(b)
    return a == b


def run_replay(scenario):
    """run the real code on a scenario; returns the driver's JSON (or {'driver_error': ...})."""
    os.makedirs(os.path.join(report.OUT, 'c20'), exist_ok=True)
    path = os.path.join(report.OUT, 'c20', 'scenario_%d_%d.json' % (os.getpid(), int(time.time() * 1e6) % 10 ** 9))
    with open(path, 'w') as f:
        json.dump(scenario, f)
    env = dict(os.environ, VERIF_REPO=source.REPO)
    try:
        r = subprocess.run(['/venv/bin/python', REPLAY, path], capture_output=True, text=True, timeout=120, env=env)
        line = [l for l in r.stdout.splitlines() if l.startswith('{')]
        if not line:
            return {'driver_error': 'no output', 'stderr': r.stderr[-800:]}
        return json.loads(line[-1])
    except Exception as e:  # never a verdict
        return {'driver_error': repr(e)}
    finally:
        try:
            os.remove(path)
        except OSError:
            pass


def scenario_from_model(run, model, wrappers, extra=None):
    """concretise a bounded path + solver model into a replay scenario (scripted base experimenter, batch, wrapper stack)."""
    st = run.setup
    strs = list(run.strings)
    names, _ = X.model_str_names(model, strs)
    nm = lambda t: names[t.get_id()]
    pterms = [v for d in st.xs.desc for _, v in d['params']]
    pv = X.model_pvals(model, pterms)
    b = st.base
    base = {'params': [{'name': nm(k)} for k, _ in (st.xs.desc[0]['params'] if st.xs.desc else [])],
            'metrics': [{'name': nm(n), 'goal': 'MAXIMIZE' if model.eval(g, model_completion=True).as_long() == 1 else 'MINIMIZE'}
                        for n, g in zip(b.names_conc, b.goals_conc)]}
    batch = [{'params': {nm(k): pv[v.get_id()] for k, v in d['params']}} for d in st.xs.desc]
    script = []
    for c in base_calls(run):
        per = []
        for e in c.get('script', []):
            ms = {}
            for k, v in zip(e['keys'], e['vals']):
                has_std = z3.is_true(model.eval(X.MetricS.has_std(v), model_completion=True))
                ms[nm(k)] = {'value': enc_float(xreal.model_value(model, X.MetricS.value(v))),
                             'std': enc_float(xreal.model_value(model, X.MetricS.std(v))) if has_std else None}
            per.append({'metrics': ms, 'infeasible': z3.is_true(model.eval(e['infeasible'], model_completion=True)),
                        'has_fm': z3.is_true(model.eval(e['has_fm'], model_completion=True)), 'infeasible_with_metrics': True})
        script.append(per)
    sc = {'kind': 'evaluate', 'base': base, 'wrappers': wrappers, 'batch': batch, 'script': script}
    if extra:
        sc.update(extra)
    return sc


# ------------------------------------------------------------------------------------------ unit driver
class Unit:
    """one function under contract: unbounded proof, bounded model query for what is not proved, native replay of models."""

    def __init__(self, label, cls, functions, entry, post, bentry=None, scenario=None, native=None, known=None,
                 expect_paths=1, timeout_ms=None, rentry=None, rknown=None, confirm=None):
        # confirm: {obligation: (scenario builder, native predicate)} -- a designed witness scenario that confirms a solver `sat`
        # of that obligation on the real code (used where the solver model itself is not realisable, e.g. values of np.std)
        self.confirm = confirm or {}
        # rknown: {obligation: finding text} for findings whose witness class is "the wrapped experimenter marks a trial infeasible";
        # rentry: the same entry under the assumption that it never does -- the residual obligations are proved on that run
        self.rentry, self.rknown = rentry, rknown or {}
        self.label, self.cls, self.functions = label, cls, functions
        self.entry, self.post, self.bentry, self.scenario = entry, post, bentry, scenario
        self.native, self.known = native or {}, known or {}
        self.expect_paths, self.timeout_ms = expect_paths, timeout_ms


def loop_name(unit, n):
    """engine name '<Class>.<method>.loopK.<clause>.<phase>' -> 'C20.<Class>.<method>.loopK.<clause>.<phase>'."""
    return n if n.startswith('C20.') else 'C20.' + n.replace('Experimenter.', '.', 1)


def refute(unit, names):
    """bounded model query + native replay for the obligations `names` (DESIGN 2.5).  {name: (model text, replay, reproduced)}."""
    out = {}
    if unit.bentry is None:
        return out
    t0 = time.time()
    paths = E.explore(unit.bentry, max_paths=400, deadline_s=40)
    for p in paths:
        if p.kind not in ('return', 'raise'):
            continue
        for item in unit.post(p):
            n, f = item[0], item[1]
            if (names is not None and n not in names) or (n in out and out[n][2]):
                continue
            if n in unit.known:
                f = z3.Or(f, unit.known[n][1](p))
            v, m, dt = discharge(p.run, f, timeout_ms=8000)
            if v != 'sat':
                continue
            sc = unit.scenario(p, m) if unit.scenario is not None else None
            reproduced, obs = None, None
            if sc is not None:
                obs = run_replay(sc)
                chk_fn = unit.native.get(n)
                if chk_fn is not None and 'driver_error' not in obs:
                    try:
                        reproduced = not chk_fn(sc, obs)
                    except Exception as e:      # a replay problem is never a verdict
                        obs = dict(obs, native_check_error=repr(e))
                        reproduced = None
            txt = 'bounded model query, path %s\n%s' % (p.describe(), str(m)[:3000])
            out[n] = (txt, {'scenario': sc, 'observed': obs, 'replay_cmd': '/venv/bin/python %s <scenario.json>' % REPLAY}, reproduced)
        if time.time() - t0 > 50:
            break
    return out


def discharge(run, formula, npc=None, nax=None, timeout_ms=10000, _retry=False):
    """pc[:npc] & axioms[:nax] |= formula ?  ('unsat' proved | 'sat' | 'unknown', model/reason, seconds)."""
    t0 = time.time()
    sol = z3.Solver()
    sol.set('timeout', timeout_ms)
    sol.set('rlimit', int(RLIMIT_PER_S * timeout_ms / 1000.0))
    for c in (run.pc if npc is None else run.pc[:npc]):
        sol.add(c)
    for c in (run.axioms if nax is None else run.axioms[:nax]):
        sol.add(c)
    lits = pm.all_str_lits()
    if len(lits) > 1:
        sol.add(z3.Distinct(*lits))
    sol.add(z3.Not(formula))
    r = sol.check()
    if r == z3.unknown and 'cancel' in sol.reason_unknown() and not _retry:
        # 'canceled' / 'push canceled': the resource limit hit inside a push -- not an answer; retry once, fresh solver, 3x budget
        v, m, dt2 = discharge(run, formula, npc, nax, timeout_ms=timeout_ms * 3, _retry=True)
        return v, m, time.time() - t0
    dt = time.time() - t0
    if r == z3.unsat:
        return 'unsat', None, dt
    if r == z3.sat:
        return 'sat', sol.model(), dt
    return 'unknown', sol.reason_unknown(), dt


RLIMIT_PER_S = 1500000


def work(unit, tmo):
    """explore the real function, discharge every obligation of every path (pc & axioms |= formula).  Obligations with a recorded
    known finding: the full clause gets a short budget (it is expected to fail), its residual (clause or in-witness-class) the full one."""
    paths = E.explore(unit.entry, max_paths=4000, timeout_ms=1500, deadline_s=120)
    out = {'paths': [(p.kind, p.describe()) for p in paths], 'instances': [], 'assumed': set()}
    for p in paths:
        out['assumed'] |= p.run.assumed
    unk = {}
    for pi, p in enumerate(paths):
        if p.kind == 'unsupported':
            continue
        obs = [(n, f, npc, nax) for (n, f, npc, nax, info) in p.run.obligations]
        if p.kind in ('return', 'raise'):
            obs += [(item[0], item[1], None, None) for item in unit.post(p)]
        for n, f, npc, nax in obs:
            if isinstance(f, bool):
                f = z3.BoolVal(f)
            inst = {'name': n, 'pi': pi, 'describe': p.describe(), 'dt': 0.0}
            if unk.get(n, 0) >= 2:
                inst.update(verdict='unknown', reason='skipped after repeated solver timeouts on other paths')
                out['instances'].append(inst)
                continue
            known = n in unit.known or n in unit.rknown
            if z3.is_false(f):
                v, m, dt = 'sat', None, 0.0          # decided without the solver (identity / structure check), if the path is feasible
                inst['ground_false'] = True
            else:
                v, m, dt = discharge(p.run, f, npc, nax, timeout_ms=1500 if known else tmo)
            inst.update(verdict=v, dt=dt)
            if v != 'unsat':
                inst['reason'] = str(m)[:300] if v == 'unknown' else ''
                if v == 'sat':
                    inst['model'] = 'path %d (%s)\n%s' % (pi, p.describe(), str(m)[:3000])
                if n in unit.known:
                    v2, m2, dt2 = discharge(p.run, z3.Or(f, unit.known[n][1](p)), npc, nax, timeout_ms=tmo)
                    inst['dt'] += dt2
                    inst['residual'] = v2
                    if v2 == 'sat':
                        inst['verdict'], inst['model'] = 'sat', 'residual obligation: path %d\n%s' % (pi, str(m2)[:3000])
                if inst['verdict'] == 'unknown':
                    unk[n] = unk.get(n, 0) + 1
            out['instances'].append(inst)
    return out


def native_standins(chk, unit):
    """the designed native witnesses of a unit whose symbolic run could not be carried out: a reproduced failure is a violation
    (a violation found this way wins over the checker error), anything else stays silent."""
    for n, (mk, pred) in unit.confirm.items():
        try:
            sc = mk()
            obs = run_replay(sc)
            if 'driver_error' in obs or pred(sc, obs):
                continue
        except Exception:
            continue
        chk.obligation(n, unit.label, 'native-witness', report.VIOLATED, 0.0,
                       detail={'refuted_by': 'the symbolic run of this function failed; a designed witness input violates the clause on the real code'},
                       model='designed witness scenario', replay={'scenario': sc, 'observed': obs, 'replay_cmd': '/venv/bin/python %s <scenario.json>' % REPLAY},
                       reproduced=True)


def is_decided_identity(insts):
    return any(i['verdict'] == 'sat' and i.get('ground_false') for i in insts)


def run_unit(chk, unit):
    for mod, q in unit.functions:
        chk.function(mod, q)
    tmo = unit.timeout_ms or (10000 if TIER == 'quick' else 60000)
    t0 = time.time()
    out = work(unit, tmo)
    for a in sorted(out['assumed']):
        chk.assume(a)
    bad = sorted({d for k, d in out['paths'] if k == 'unsupported'})
    if bad:
        chk.obligation('C20.%s.supported' % unit.label, unit.label, 'checker', report.ERROR, 0.0,
                       detail='the real code of %s left the supported subset: %s' % (unit.label, '; '.join(bad)[:1500]))
    live = [1 for k, d in out['paths'] if k in ('return', 'raise')]
    if len(live) < unit.expect_paths:
        chk.obligation('C20.%s.vacuity' % unit.label, unit.label, 'checker', report.ERROR, 0.0,
                       detail='only %d terminating paths explored (expected >= %d)' % (len(live), unit.expect_paths))
    by = {}
    for i in out['instances']:
        by.setdefault(i['name'], []).append(i)

    def status(insts, n):
        if all(i['verdict'] == 'unsat' for i in insts):
            return 'proved'
        if n in unit.known and all(i['verdict'] == 'unsat' or i.get('residual') == 'unsat' for i in insts):
            return 'known'
        if any(i['verdict'] == 'sat' and i.get('residual') != 'unsat' for i in insts):
            return 'sat'
        return 'unknown'
    st = {n: status(insts, n) for n, insts in by.items()}
    rproved = set()
    if unit.rknown and unit.rentry is not None and any(st.get(n) not in ('proved', None) for n in unit.rknown):
        import copy as _copy
        u2 = _copy.copy(unit)
        u2.entry = unit.rentry
        out2 = work(u2, tmo)
        by2 = {}
        for i in out2['instances']:
            by2.setdefault(i['name'], []).append(i)
        hints2 = all(all(i['verdict'] == 'unsat' for i in insts) for n, insts in by2.items() if not n.startswith('C20.'))
        live2 = [1 for k, d in out2['paths'] if k in ('return', 'raise')]
        for n in unit.rknown:
            if hints2 and live2 and n in by2 and all(i['verdict'] == 'unsat' for i in by2[n]):
                rproved.add(n)
    for n in rproved:
        if st.get(n) not in ('proved',):
            st[n] = 'rknown'
    for n in list(unit.known) + list(unit.rknown):
        if st.get(n) == 'proved':
            CHK.note('NOTE stale known finding: %s is recorded as open in known_findings.d/C20.json but the obligation is proved on this tree' % n)
            print('NOTE property=C20 stale known finding (obligation now proved): %s' % n)
    hints_ok = all(s == 'proved' for n, s in st.items() if not n.startswith('C20.'))
    posts = [n for n in by if n.startswith('C20.')]
    open_posts = [n for n in posts if st[n] in ('sat', 'unknown')] if hints_ok else list(posts)
    refuted = {}
    if not hints_ok or open_posts or bad:
        refuted = refute(unit, set(posts) if not bad else None)
    violated = False
    for n in list(unit.confirm):
        reached = n in by
        need = (reached and (st[n] in ('sat', 'unknown') or (st[n] == 'proved' and (not hints_ok or bad)))) or (not reached and (bad or not live))
        if need and not (refuted.get(n) and refuted[n][2]):
            sc = unit.confirm[n][0]()
            obs = run_replay(sc)
            try:
                rep = (not unit.confirm[n][1](sc, obs)) if 'driver_error' not in obs else None
            except Exception as e:
                obs, rep = dict(obs, native_check_error=repr(e)), None
            i0 = ([i for i in by.get(n, []) if i['verdict'] == 'sat'] or [i for i in by.get(n, []) if i['verdict'] != 'unsat'] or
                  [dict(by[n][0], verdict='proved only on the supported paths / under an unestablished loop contract')] if reached else
                  [{'verdict': 'not reached (the function left the supported subset)', 'describe': '-'}])[0]
            refuted[n] = ('solver %s on the symbolic run (%s); designed witness scenario replayed on the real code\n%s' % (i0['verdict'], i0['describe'], i0.get('model', '')),
                          {'scenario': sc, 'observed': obs, 'replay_cmd': '/venv/bin/python %s <scenario.json>' % REPLAY}, rep)
    for n in posts:
        insts = by[n]
        tsum = sum(i['dt'] for i in insts)
        detail = {'instances': len(insts), 'paths': len({i['pi'] for i in insts})}
        s = st[n]
        r = refuted.get(n)
        if r is not None and r[2]:
            violated = True
            detail['refuted_by'] = ('bounded model query (concrete spines, loops unrolled): solver sat' if r[0].startswith('bounded') else
                                    'obligation not proved; a designed witness input violates it on the real code') + (
                '; replayed on the real code: reproduced' if r[2] else '; no native predicate for this clause (not replayed)')
            chk.obligation(n, unit.label, 'z3+bounded-model-query', report.VIOLATED, tsum, detail=detail, model=r[0], replay=r[1],
                           reproduced=True if r[2] else None)
        elif s == 'sat' and is_decided_identity(insts):
            # a python-side identity / structure check that is false on the real AST (no solver model involved)
            violated = True
            i0 = [i for i in insts if i['verdict'] == 'sat'][0]
            chk.obligation(n, unit.label, 'identity', report.VIOLATED, tsum, detail=dict(detail, failing_path=i0['describe']),
                           model='decided identity check on the objects of the symbolic run', replay=(r[1] if r else None), reproduced=None)
        elif s == 'rknown' and hints_ok:
            chk.obligation(n, unit.label, 'z3', report.KNOWN, tsum, detail=detail, finding=unit.rknown[n])
            chk.obligation(n + '.residual', unit.label, 'z3', report.PROVED, 0.0,
                           detail={'clause': 'the same obligation for every wrapped experimenter that marks no trial infeasible (outside the '
                                             'recorded finding\'s witness class), proved on a second symbolic run under that assumption'})
        elif s == 'known' and (hints_ok or r is None):
            chk.obligation(n, unit.label, 'z3', report.KNOWN, tsum, detail=detail, finding=unit.known[n][0])
            chk.obligation(n + '.residual', unit.label, 'z3', report.PROVED if hints_ok else report.UNDECIDED, 0.0,
                           detail={'clause': 'the same obligation for every input outside the recorded finding\'s witness class'})
        elif s == 'proved' and hints_ok:
            chk.obligation(n, unit.label, 'z3', report.PROVED, tsum, detail=detail)
        else:
            why = ('solver: %s' % [i.get('reason', '') for i in insts if i['verdict'] != 'unsat'][:1] if s == 'unknown' else
                   'solver found a counter-model of the (over-approximating) symbolic run that is not confirmed on the real code') if s != 'proved' else \
                'proved only under a loop contract that is itself not established on the current code'
            if r is not None and r[2] is False:
                why += '; a bounded counter-model was found but did not reproduce on the real code (spurious)'
            if r is not None and r[2] is None:
                why += '; a bounded counter-model exists but there is no native predicate to confirm it (the models over-approximate)'
            chk.obligation(n, unit.label, 'z3', report.UNDECIDED, tsum, detail=dict(detail, reason=why))
    for n, r in refuted.items():
        if n in by or not r[2]:
            continue
        violated = True
        chk.obligation(n, unit.label, 'bounded-model-query+replay', report.VIOLATED, 0.0,
                       detail={'refuted_by': 'bounded model query; the unbounded proof attempt did not reach this clause'},
                       model=r[0], replay=r[1], reproduced=True)
    for n, insts in by.items():
        if n.startswith('C20.'):
            continue
        tsum = sum(i['dt'] for i in insts)
        detail = {'instances': len(insts), 'role': 'loop contract (proof hint): established and preserved by the real loop body'}
        if st[n] == 'proved':
            chk.obligation(loop_name(unit, n), unit.label, 'z3', report.PROVED, tsum, detail=detail)
        else:
            detail['reason'] = 'loop contract not established on the current code (%s); %s' % (
                st[n], 'see the violation reported for this function' if violated else 'no counterexample found by the bounded model query')
            chk.obligation(loop_name(unit, n), unit.label, 'z3', report.UNDECIDED, tsum, detail=detail)
    return out


# =========================================================================================== SignFlipExperimenter
def self_of(fr):
    return fr.env[fr.func.node.args.args[0].arg]


def sf_parts(w):
    """(wrapped experimenter, flip_objectives_only flag, recorded objective names) of a SignFlip instance, by role."""
    base = find_attr(w, lambda v: isinstance(v, Obj) and not isinstance(v, E.ExcObj), 'the wrapped experimenter')
    flag = find_attr(w, lambda v: isinstance(v, bool) or (z3.is_expr(v) and v.sort() == z3.BoolSort()), 'flip_objectives_only')
    objs = find_attr(w, lambda v: isinstance(v, (X.SMap, M.PyDict)), 'the recorded objective names')
    return base, flag, objs


def sf_T(w):
    """what the metrics loop computes for key s with old metric v (used by the loop contracts only)."""
    base, flag, objs = sf_parts(w)
    fl = E.zbool(flag)

    def cond(s):
        return z3.Or(z3.Not(fl), objs.dom[s])

    def T(s, v):
        return z3.If(cond(s), X.MetricS.mk(xreal.mul(xreal.lit(-1.0), X.MetricS.value(v)), X.MetricS.has_std(v), X.MetricS.std(v)), v)
    return T, cond


def sf_inv_outer(it, fr, ctx):
    run = it.run
    T, _ = sf_T(self_of(fr))
    xs = loop_batch(ctx)
    cur, ent = G(run), entry_heap(ctx)

    def done(r):
        return z3.And(cur['params'][r] == ent['params'][r], cur['fmset'][r] == ent['fmset'][r], cur['rest'][r] == ent['rest'][r],
                      cur['infeas'][r] == ent['infeas'][r],
                      z3.If(ent['fmset'][r], image_of(X.MDI, ent['metrics'][r], cur['metrics'][r], T), cur['metrics'][r] == ent['metrics'][r]))
    return batch_loop_frame(run, ctx, xs, cur, ent, done)


def sf_inv_inner(it, fr, ctx):
    T, _ = sf_T(self_of(fr))
    return dict_build_invariant(it, fr, ctx, X.MDI, T)


def flip_goal(it, g):
    mx, mn = X.goal_member(it, 'MAXIMIZE').term, X.goal_member(it, 'MINIMIZE').term
    return z3.If(g == mx, mn, z3.If(g == mn, mx, g))


def metric_eq(a, b):
    """equality of two Metric values (value, std); the std payload is irrelevant when there is no std."""
    S = X.MetricS
    return z3.And(S.value(a) == S.value(b), S.has_std(a) == S.has_std(b), z3.Implies(S.has_std(a), S.std(a) == S.std(b)))


def key_set(d):
    """membership predicate of the keys of a dict-like engine value."""
    if isinstance(d, X.SMap):
        return lambda s: d.dom[s]
    if isinstance(d, M.PyDict):
        ks = [pm._lift(k, Str) for k in d.keys()]
        return lambda s: z3.Or(*[s == k for k in ks]) if ks else z3.BoolVal(False)
    raise Unsupported('key set of %r' % (d,))


def sf_inv_goals(it, fr, ctx):
    """problem_statement: the goals of the first i metric configs of the fresh copy are flipped, the others are as copied."""
    run = it.run
    lst = ctx.iter
    if not (isinstance(lst, X.VList) and lst.kind is X.K_MI and lst.pos is not None):
        raise Unsupported('goal loop over %r' % (lst,))
    cur, ent = G(run), entry_heap(ctx)
    m = z3.Const('m!sg', X.MIRef)
    i = ctx.i
    seen = z3.And(lst.pos[m] >= 0, lst.pos[m] < lst.n, lst.arr[lst.pos[m]] == m, lst.pos[m] < i)
    return [('rest_untouched', fields_equal(cur, ent, X.TRIAL_FIELDS + ('talloc', 'mialloc', 'miname', 'mirest'))),
            ('others', z3.ForAll([m], z3.Implies(z3.Not(seen), cur['goal'][m] == ent['goal'][m]))),
            ('flipped', z3.ForAll([m], z3.Implies(seen, cur['goal'][m] == flip_goal(it, ent['goal'][m]))))]


E.LOOPS[(SF, 'SignFlipExperimenter.evaluate', 1)] = E.LoopSpec(sf_inv_outer, ghost=X.ALL)
E.LOOPS[(SF, 'SignFlipExperimenter.evaluate', 2)] = E.LoopSpec(sf_inv_inner, ghost=X.ALL)
E.LOOPS[(SF, 'SignFlipExperimenter.problem_statement', 1)] = E.LoopSpec(sf_inv_goals, ghost=X.ALL)


def sf_construct(it, base, depth=1):
    cls = cls_of(SF, 'SignFlipExperimenter')
    flag = z3.Bool('flip_objectives_only')
    w = base
    for _ in range(depth):
        w = M.construct(it, cls, [w, flag], {})
    it.run.flag = flag
    return w


def sf_entry_evaluate(depth, bounded=None):
    def entry(it):
        st = Setup(it, bounded=bounded)
        run = it.run
        run.w = sf_construct(it, st.base, depth)
        st.H0 = H0_of(run)
        return call_method(it, run.w, 'evaluate', [st.xs])
    return entry


def same_batch(c, st):
    a, b = c['xs'], st.xs
    return bool(a.arr.eq(b.arr) and (a.n.eq(b.n) if z3.is_expr(a.n) and z3.is_expr(b.n) else a.n == b.n))


def sf_post_evaluate(p):
    R = 'C20.SignFlip.evaluate.'
    run = p.run
    if p.kind != 'return':
        return []
    st = run.setup
    calls = [c for c in base_calls(run) if not c['raised']]
    ok = len(calls) == 1 and same_batch(calls[0], st)
    if not ok:
        raise Unsupported('evaluate does not hand the batch to the wrapped experimenter exactly once (shape outside this contract)')
    out = [(R + 'delegates_once', z3.BoolVal(ok))]
    B, F, xs = calls[0]['post'], G(run), st.xs
    fl = run.flag
    dom, val, value = X.MDI.dom, X.MDI.val, X.MetricS.value

    def per_metric(body):
        return QJ(xs, lambda j, r: QS(run, lambda s: z3.Implies(z3.And(B['fmset'][r], dom(B['metrics'][r])[s]), body(r, s))))
    is_obj = lambda s: z3.Or(z3.Not(fl), X.named(st.base, s))
    out += [
        (R + 'negates_objectives', per_metric(lambda r, s: z3.Implies(is_obj(s), z3.And(
            dom(F['metrics'][r])[s], value(val(F['metrics'][r])[s]) == xreal.neg(value(val(B['metrics'][r])[s])))))),
        (R + 'std_kept', per_metric(lambda r, s: z3.And(
            X.MetricS.has_std(val(F['metrics'][r])[s]) == X.MetricS.has_std(val(B['metrics'][r])[s]),
            z3.Implies(X.MetricS.has_std(val(B['metrics'][r])[s]), X.MetricS.std(val(F['metrics'][r])[s]) == X.MetricS.std(val(B['metrics'][r])[s]))))),
        (R + 'only_objectives', per_metric(lambda r, s: z3.Implies(z3.Not(is_obj(s)), z3.And(
            dom(F['metrics'][r])[s], metric_eq(val(F['metrics'][r])[s], val(B['metrics'][r])[s]))))),
        (R + 'no_metric_added_or_lost', QJ(xs, lambda j, r: QS(run, lambda s: z3.Implies(
            B['fmset'][r], dom(F['metrics'][r])[s] == dom(B['metrics'][r])[s])))),
        (R + 'status_untouched', QJ(xs, lambda j, r: z3.And(F['fmset'][r] == B['fmset'][r], F['infeas'][r] == B['infeas'][r],
                                                          F['rest'][r] == B['rest'][r]))),
        (R + 'base_sees_suggested_parameters', QJ(xs, lambda j, r: calls[0]['pre']['params'][r] == st.H0['params'][r])),
    ]
    return out + post_common(R, p)


def sf_scenario(depth):
    def scenario(p, model):
        fl = z3.is_true(model.eval(p.run.flag, model_completion=True))
        layer = {'module': 'sign_flip_experimenter', 'class': 'SignFlipExperimenter', 'kwargs': {'flip_objectives_only': fl}}
        return scenario_from_model(p.run, model, [layer] * depth)
    return scenario


# ---- native evaluation of the same clauses on the driver's observations (True = the clause holds on the real run)
def _scripted(sc, k=0):
    return sc['script'][k] if sc.get('script') and k < len(sc['script']) else []


def n_params_unchanged(sc, obs):
    return obs.get('exception') is None and all(a['params'] == b['params'] for a, b in zip(obs['after'], obs['before']))


def n_completes(names_of=None):
    def fn(sc, obs):
        names = names_of(sc) if names_of else [m['name'] for m in sc['base']['metrics']]
        for t in obs['after']:
            if t['infeasible']:
                continue
            if not t['has_fm'] or any(n not in t['metrics'] for n in names):
                return False
        return obs.get('exception') is None
    return fn


def n_sf_value(which):
    def fn(sc, obs):
        if obs.get('exception') is not None:
            return False
        fl = sc['wrappers'][0]['kwargs']['flip_objectives_only']
        objs = {m['name'] for m in sc['base']['metrics']}
        odd = len(sc['wrappers']) % 2 == 1
        for e, t in zip(_scripted(sc), obs['after']):
            if not e['has_fm']:
                continue
            for n, m in e['metrics'].items():
                flipped = (not fl) or n in objs
                if t['metrics'] is None or n not in t['metrics']:
                    return False
                got = t['metrics'][n]
                v = dec_float(m['value'])
                if which == 'neg' and flipped and not same_float(got['value'], (-v if odd else v)):
                    return False
                if which == 'aux' and not flipped and not (same_float(got['value'], v) and same_float(got['std'], m.get('std'))):
                    return False
                if which == 'std' and not same_float(got['std'], m.get('std')):
                    return False
        return True
    return fn


def n_status(sc, obs):
    if obs.get('exception') is not None:
        return False
    for e, t in zip(_scripted(sc), obs['after']):
        if t['has_fm'] != e['has_fm'] or t['infeasible'] != e['infeasible']:
            return False
        if e['has_fm'] and set(t['metrics']) != set(e['metrics']):
            return False
    return True


def n_base_sees_suggested(sc, obs):
    return obs.get('base_calls') is not None and len(obs['base_calls']) >= 1 and \
        all(seen == b['params'] for seen, b in zip(obs['base_calls'][0], obs['before']))


SF_NATIVE = {
    'C20.SignFlip.evaluate.negates_objectives': n_sf_value('neg'),
    'C20.SignFlip.evaluate.only_objectives': n_sf_value('aux'),
    'C20.SignFlip.evaluate.std_kept': n_sf_value('std'),
    'C20.SignFlip.evaluate.no_metric_added_or_lost': n_status,
    'C20.SignFlip.evaluate.status_untouched': n_status,
    'C20.SignFlip.evaluate.base_sees_suggested_parameters': n_base_sees_suggested,
    'C20.SignFlip.evaluate.parameters_unchanged': n_params_unchanged,
    'C20.SignFlip.evaluate.completes': n_completes(),
    'C20.SignFlip.evaluate.delegates_once': lambda sc, obs: len(obs.get('base_calls') or []) == 1,
}

BOUNDED = dict(batch=2, params=2, metrics=2, aux=1)


# ---- problem_statement / __init__ / involution
def sf_entry_ps(depth, bounded=None):
    def entry(it):
        st = Setup(it, bounded=bounded)
        run = it.run
        run.w = sf_construct(it, st.base, depth)
        st.H0 = H0_of(run)
        run.roots = [run.w] + st.bases
        run.fp0 = X.state_fingerprint(run.roots)
        run.reach0 = set(X.reachable(run.roots))
        run.result = call_method(it, run.w, 'problem_statement', [])
        return run.result
    return entry


def result_metric_list(res):
    if not (isinstance(res, Obj) and res.cls == 'ProblemStatement'):
        return None
    mc = res.attrs.get('metric_information')
    return mc.lst if isinstance(mc, X.MetricsConfigV) else None


def by_value_obligations(R, p):
    """problem_statement() returns by value: the result shares no mutable object with the experimenter's state (object identity in the
    engine + every MetricInformation of the result was allocated by this call) and the call leaves that state unchanged."""
    run = p.run
    st = run.setup
    res = run.result
    F, H0 = G(run), st.H0
    shared = [v for i, v in X.reachable([res]).items() if i in run.reach0]
    lst = result_metric_list(res)
    fresh_py = isinstance(res, Obj) and res.cls == 'ProblemStatement' and not shared and lst is not None
    out = [(R + 'by_value.fresh_objects', z3.BoolVal(bool(fresh_py)))]
    if lst is not None:
        out.append((R + 'by_value.fresh_metric_configs', QJ(lst, lambda j, m: z3.Not(H0['mialloc'][m]))))
    out.append((R + 'by_value.state_unchanged', z3.And(z3.BoolVal(X.state_fingerprint(run.roots) == run.fp0), state_preserved(run, F, H0),
                                                       fields_equal(F, H0, X.TRIAL_FIELDS))))
    return out


def sf_post_ps(depth):
    def post(p):
        R = 'C20.SignFlip.problem_statement.' if depth == 1 else 'C20.SignFlip.involution.problem_statement.'
        run = p.run
        if p.kind != 'return':
            return [(R + 'returns', z3.BoolVal(False))]
        st = run.setup
        lst, l0 = result_metric_list(run.result), st.base.lst0
        F, H0 = G(run), st.H0
        out = []
        if lst is None:
            return [(R + 'returns', z3.BoolVal(False))]
        l0arr = l0.arr

        def goal_ok(j, m):
            g0 = H0['goal'][l0arr[j]]
            want = flip_goal(None, g0) if depth % 2 == 1 else g0
            return z3.And(F['goal'][m] == want, F['miname'][m] == H0['miname'][l0arr[j]], F['mirest'][m] == H0['mirest'][l0arr[j]])
        same_len = (lst.n == l0.n) if z3.is_expr(lst.n) or z3.is_expr(l0.n) else z3.BoolVal(lst.n == l0.n)
        if depth == 1:
            out.append((R + 'goal_flipped', z3.And(same_len, QJ(lst, goal_ok))))
            out += by_value_obligations(R, p)
        else:
            out.append((R + 'goals_restored', z3.And(same_len, QJ(lst, goal_ok))))
        return out
    return post


def sf_ps_scenario(depth):
    def scenario(p, model):
        sc = sf_scenario(depth)(p, model)
        sc['kind'] = 'problem_statement'
        return sc
    return scenario


def n_by_value(sc, obs):
    return bool(obs.get('by_value'))


def n_goals(flipped):
    def fn(sc, obs):
        want = [(m['name'], ({'MAXIMIZE': 'MINIMIZE', 'MINIMIZE': 'MAXIMIZE'}[m['goal']] if flipped else m['goal'])) for m in sc['base']['metrics']]
        return [tuple(x) for x in obs['before']['metrics']] == want
    return fn


def sf_entry_init(bounded=None):
    def entry(it):
        st = Setup(it, bounded=bounded)
        it.run.w = sf_construct(it, st.base, 1)
        return None
    return entry


def sf_post_init(p):
    R = 'C20.SignFlip.__init__.'
    run = p.run
    if p.kind != 'return':
        return [(R + 'returns', z3.BoolVal(False))]
    st = run.setup
    base, flag, objs = sf_parts(run.w)
    ks = key_set(objs)
    return [(R + 'objectives_recorded', QS(run, lambda s: ks(s) == X.named(st.base, s))),
            (R + 'wraps_given_experimenter', z3.BoolVal(base is st.base and (flag is run.flag))),
            (R + 'state_unchanged', z3.And(state_preserved(run, G(run), st.H0), fields_equal(G(run), st.H0, X.TRIAL_FIELDS)))]


def sf_post_involution(p):
    """SignFlip(SignFlip(e)).evaluate behaves like e.evaluate."""
    R = 'C20.SignFlip.involution.'
    run = p.run
    if p.kind != 'return':
        return []
    st = run.setup
    calls = [c for c in base_calls(run) if not c['raised']]
    ok = len(calls) == 1 and same_batch(calls[0], st)
    if not ok:
        raise Unsupported('evaluate does not hand the batch to the wrapped experimenter exactly once (shape outside this contract)')
    out = [(R + 'delegates_once', z3.BoolVal(ok))]
    B, F, xs = calls[0]['post'], G(run), st.xs
    dom, val, value = X.MDI.dom, X.MDI.val, X.MetricS.value

    def per_metric(body):
        return QJ(xs, lambda j, r: QS(run, lambda s: z3.Implies(z3.And(B['fmset'][r], dom(B['metrics'][r])[s]), body(r, s))))
    out += [
        (R + 'value', per_metric(lambda r, s: z3.And(dom(F['metrics'][r])[s], value(val(F['metrics'][r])[s]) == value(val(B['metrics'][r])[s])))),
        (R + 'metric_restored', per_metric(lambda r, s: metric_eq(val(F['metrics'][r])[s], val(B['metrics'][r])[s]))),
        (R + 'same_metrics', QJ(xs, lambda j, r: QS(run, lambda s: z3.Implies(B['fmset'][r], dom(F['metrics'][r])[s] == dom(B['metrics'][r])[s])))),
        (R + 'status', QJ(xs, lambda j, r: z3.And(F['fmset'][r] == B['fmset'][r], F['infeas'][r] == B['infeas'][r], F['rest'][r] == B['rest'][r]))),
    ]
    return out + post_common(R, p, skip=('completes',))


def sf_std_class(p):
    """witness class of the recorded finding: the doubly flipped metric carried a `std` (residual: all metrics without std, and
    auxiliary metrics under flip_objectives_only, are restored exactly)."""
    run = p.run
    st = run.setup
    calls = [c for c in base_calls(run) if not c['raised']]
    if len(calls) != 1:
        return z3.BoolVal(False)
    B, F, xs = calls[0]['post'], G(run), st.xs
    dom, val = X.MDI.dom, X.MDI.val
    return QJ(xs, lambda j, r: QS(run, lambda s: z3.Implies(z3.And(B['fmset'][r], dom(B['metrics'][r])[s]), z3.Or(
        metric_eq(val(F['metrics'][r])[s], val(B['metrics'][r])[s]),
        z3.And(X.MetricS.has_std(val(B['metrics'][r])[s]), z3.Or(z3.Not(run.flag), X.named(st.base, s)))))))


def units_signflip():
    fns = [(SF, 'SignFlipExperimenter.__init__'), (SF, 'SignFlipExperimenter.evaluate'), (SF, 'SignFlipExperimenter.problem_statement')]
    known = {}
    f = CHK.finding_for('C20.SignFlip.involution.metric_restored') if CHK is not None else None
    if f is not None:
        known['C20.SignFlip.involution.metric_restored'] = (f['what'], sf_std_class)
    inv_native = {'C20.SignFlip.involution.value': n_sf_value('neg'), 'C20.SignFlip.involution.metric_restored': n_sf_value('std'),
                  'C20.SignFlip.involution.same_metrics': n_status, 'C20.SignFlip.involution.status': n_status,
                  'C20.SignFlip.involution.parameters_unchanged': n_params_unchanged}
    return [
        Unit('SignFlipExperimenter.__init__', 'SignFlip', fns[:1], sf_entry_init(), sf_post_init, bentry=sf_entry_init(BOUNDED)),
        Unit('SignFlipExperimenter.evaluate', 'SignFlip', fns[:2], sf_entry_evaluate(1), sf_post_evaluate,
             bentry=sf_entry_evaluate(1, BOUNDED), scenario=sf_scenario(1), native=SF_NATIVE),
        Unit('SignFlipExperimenter.problem_statement', 'SignFlip', [fns[0], fns[2]], sf_entry_ps(1), sf_post_ps(1),
             bentry=sf_entry_ps(1, BOUNDED), scenario=sf_ps_scenario(1),
             native={'C20.SignFlip.problem_statement.goal_flipped': n_goals(True),
                     'C20.SignFlip.problem_statement.by_value.fresh_objects': n_by_value,
                     'C20.SignFlip.problem_statement.by_value.fresh_metric_configs': n_by_value,
                     'C20.SignFlip.problem_statement.by_value.state_unchanged': n_by_value}),
        Unit('SignFlipExperimenter.evaluate(involution)', 'SignFlip', fns[:2], sf_entry_evaluate(2), sf_post_involution,
             bentry=sf_entry_evaluate(2, BOUNDED), scenario=sf_scenario(2), native=inv_native, known=known),
        Unit('SignFlipExperimenter.problem_statement(involution)', 'SignFlip', [fns[0], fns[2]], sf_entry_ps(2), sf_post_ps(2),
             bentry=sf_entry_ps(2, BOUNDED), scenario=sf_ps_scenario(2),
             native={'C20.SignFlip.involution.problem_statement.goals_restored': n_goals(False)}),
    ]


CHK = None


# =========================================================================================== save / transform / delegate / restore
def image_q(run, di, m0, m1, T, guard=None):
    """m1 = { s: T(s, m0[s]) for s in m0 [if guard(s)] }, with the quantifier helper (proof or bounded query)."""
    keep = (lambda k: z3.BoolVal(True)) if guard is None else guard
    return QS(run, lambda s: z3.And(di.dom(m1)[s] == z3.And(di.dom(m0)[s], keep(s)),
                                    z3.Implies(z3.And(di.dom(m0)[s], keep(s)), di.val(m1)[s] == T(s, di.val(m0)[s]))))


def others_same(cur, ent, r, fields=('fmset', 'metrics', 'rest', 'infeas')):
    return z3.And(*[cur[f][r] == ent[f][r] for f in fields])


def restore_invariant(it, fr, ctx):
    """`for saved, trial in zip(saved_list, batch): trial.parameters = saved` -- processed trials carry their saved parameters."""
    run = it.run
    xs = loop_batch(ctx)
    z = ctx.iter
    saved = [p for p in z.parts if isinstance(p, X.VList) and p.kind is X.K_PDOBJ] if isinstance(z, X.ZipList) else []
    if len(saved) != 1:
        raise Unsupported('restore loop without exactly one list of saved parameter dicts')
    prev = saved[0]
    cur, ent = G(run), entry_heap(ctx)
    # the saved entries are REFERENCES; what is re-installed is the saved object's content (objects are never mutated: other_state)
    return batch_loop_frame(run, ctx, xs, cur, ent, lambda r: z3.And(cur['params'][r] == ent['pval'][prev.arr[xs.pos[r]]], others_same(cur, ent, r)))


def save_transform_invariant(transform):
    """`for trial in batch: saved.append(trial.parameters); trial.parameters = transform(trial.parameters)`."""
    def inv(it, fr, ctx):
        run = it.run
        if not is_batch(ctx.iter):
            raise Unsupported('save/transform loop must run over the batch itself')
        xs = loop_batch(ctx)
        cur, ent = G(run), entry_heap(ctx)
        name, old = find_local(fr, lambda v: (isinstance(v, list) and not v) or (isinstance(v, X.VList) and v.kind in (None, X.K_PDOBJ)),
                               'the list of saved parameter dicts')
        i = ctx.i
        cl = []
        if isinstance(old, list):
            cl.append(('saved', z3.BoolVal(ctx.phase == 'init' and len(old) == 0)))
        else:
            old.ensure(it, X.K_PDOBJ)
            j = z3.Int('j!st')
            cl.append(('saved', z3.And(old.n == i, z3.ForAll([j], z3.Implies(z3.And(j >= 0, j < i), old.arr[j] == ent['pobj'][xs.arr[j]])))))
        tr = transform(it, fr)
        return cl + batch_loop_frame(run, ctx, xs, cur, ent, lambda r: z3.And(tr(ent['params'][r], cur['params'][r]), others_same(cur, ent, r)))
    return inv


def wr_entry(construct, bounded=None, raising=False):
    def entry(it):
        st = Setup(it, bounded=bounded)
        run = it.run
        run.w = construct(it, st)
        st.H0 = H0_of(run)
        run.base_may_raise = raising
        return call_method(it, run.w, 'evaluate', [st.xs])
    return entry


def wr_post(R, mapped, extra=None):
    """obligations of a parameter-transforming wrapper's evaluate: delegation, the base experimenter is evaluated at the documented
    point, the measurement it produced is left untouched, parameters restored, frame, BaseContract re-established."""
    def post(p):
        run = p.run
        if p.kind != 'return':
            return []
        st = run.setup
        calls = [c for c in base_calls(run) if not c['raised']]
        ok = len(calls) == 1 and same_batch(calls[0], st)
        if not ok:
            raise Unsupported('evaluate does not hand the batch to the wrapped experimenter exactly once (shape outside this contract)')
        out = [(R + 'delegates_once', z3.BoolVal(ok))]
        c = calls[0]
        B, F, xs, H0 = c['post'], G(run), st.xs, st.H0
        out += [(R + 'evaluates_base_at_mapped_point', QJ(xs, lambda j, r: mapped(run, H0['params'][r], c['pre']['params'][r]))),
                (R + 'measurement_untouched', QJ(xs, lambda j, r: others_same(F, B, r))),
                (R + 'parameters_restored', QJ(xs, lambda j, r: F['params'][r] == H0['params'][r]))]
        if extra is not None:
            out += extra(p, c)
        return out + post_common(R, p, skip=('parameters_unchanged',))
    return post


def exc_note_post(R):
    """what happens to the parameters when the wrapped experimenter raises (reported, not an obligation)."""
    def post(p):
        return []
    return post


# ---- Shifting
def sh_construct(it, st):
    cls = cls_of(SH, 'ShiftingExperimenter')
    run = it.run
    run.shift = X.FeatV(z3.Const('shift', X.Feat))
    w = M.construct(it, cls, [st.base, run.shift], {'should_restrict': z3.Bool('should_restrict')})
    run.conv = find_attr(w, lambda v: isinstance(v, X.ConverterV), 'the converter')
    return w


def sh_map(conv, shift, p0):
    """documented: the base experimenter is evaluated at to_parameters(to_features(x) - shift)."""
    return X.topar0(conv.term, X.np_sub(X.featmat1(conv.term, p0), shift.term))


def sh_inv_offset(it, fr, ctx):
    run = it.run
    xs = loop_batch(ctx)
    w = self_of(fr)
    conv = find_attr(w, lambda v: isinstance(v, X.ConverterV), 'the converter')
    shift = fr.env[fr.func.node.args.args[2].arg]
    if not isinstance(shift, X.FeatV):
        raise Unsupported('_offset called with shift %r' % (shift,))
    cur, ent = G(run), entry_heap(ctx)
    return batch_loop_frame(run, ctx, xs, cur, ent, lambda r: z3.And(cur['params'][r] == sh_map(conv, shift, ent['params'][r]), others_same(cur, ent, r)))


E.LOOPS[(SH, 'ShiftingExperimenter._offset', 1)] = E.LoopSpec(sh_inv_offset, ghost=X.ALL)
E.LOOPS[(SH, 'ShiftingExperimenter.evaluate', 1)] = E.LoopSpec(restore_invariant, ghost=X.ALL)


# ---- Permuting
def replace_table(w, table):
    hits = [k for k, v in w.attrs.items() if isinstance(v, (M.PyDict, X.SMap))]
    if len(hits) != 1:
        raise Unsupported('cannot identify the lookup table among the attributes of %r: %s' % (w, hits))
    w.attrs[hits[0]] = table


def pe_construct(it, st):
    cls = cls_of(PE, 'PermutingExperimenter')
    w = M.construct(it, cls, [st.base, X.Abs('parameters_to_permute')], {'seed': None})
    # the permutation dict (Dict[str, Dict[value, value]]) is abstracted by (perm_has, perm_dom, perm_apply): fully general
    names = None
    if st.bounded is not None and st.xs.desc and st.xs.desc[0]['params']:
        names = [st.xs.desc[0]['params'][0][0]]             # concrete spine: exactly the first parameter is permuted
        for k in it.run.strings:
            it.run.assume(X.perm_has(z3.IntVal(1), k) == z3.BoolVal(any(k.eq(n) for n in names)))
    replace_table(w, X.PermTable(1, names))
    return w


def pe_T(s, v):
    t = z3.IntVal(1)
    return z3.If(X.perm_has(t, s), X.perm_apply(t, s, v), v)


def pe_inv_outer(it, fr, ctx):
    run = it.run
    xs = loop_batch(ctx)
    cur, ent = G(run), entry_heap(ctx)
    return batch_loop_frame(run, ctx, xs, cur, ent,
                            lambda r: z3.And(image_of(X.PDI, ent['params'][r], cur['params'][r], pe_T), others_same(cur, ent, r)))


E.LOOPS[(PE, 'PermutingExperimenter._permute', 1)] = E.LoopSpec(pe_inv_outer, ghost=X.ALL)
E.LOOPS[(PE, 'PermutingExperimenter._permute', 2)] = E.LoopSpec(lambda it, fr, ctx: dict_build_invariant(it, fr, ctx, X.PDI, pe_T), ghost=X.ALL)
E.LOOPS[(PE, 'PermutingExperimenter.evaluate', 1)] = E.LoopSpec(restore_invariant, ghost=X.ALL)


# ---- Discretizing
def di_construct(it, st):
    cls = cls_of(DI, 'DiscretizingExperimenter')
    it.run.allow_oov = z3.Bool('allow_oov')
    return M.construct(it, cls, [st.base, X.DiscTable(2)], {'allow_oov': it.run.allow_oov})


def di_T(s, v):
    return z3.If(X.disc_has(z3.IntVal(2), s), X.pv_as_float(v), v)


E.LOOPS[(DI, 'DiscretizingExperimenter.evaluate', 1)] = E.LoopSpec(
    save_transform_invariant(lambda it, fr: (lambda p0, p1: image_of(X.PDI, p0, p1, di_T))), ghost=X.ALL)
E.LOOPS[(DI, 'DiscretizingExperimenter.evaluate', 2)] = E.LoopSpec(lambda it, fr, ctx: dict_build_invariant(it, fr, ctx, X.PDI, di_T), ghost=X.ALL)
E.LOOPS[(DI, 'DiscretizingExperimenter.evaluate', 3)] = E.LoopSpec(restore_invariant, ghost=X.ALL)


# ---- Sparse
def sp_construct(it, st):
    cls = cls_of(SP, 'SparseExperimenter')
    it.run.prefix = z3.Const('sparse_prefix', Str)
    return M.construct(it, cls, [st.base, X.Abs('sparse_search_space')], {'prefix': it.run.prefix})


def sp_prefix(w):
    ts = {v.get_id(): v for v in w.attrs.values() if z3.is_expr(v) and v.sort() == Str}
    if len(ts) != 1:
        raise Unsupported('cannot identify the sparse prefix among the attributes')
    return list(ts.values())[0]


def sp_transform(it, fr):
    pre = sp_prefix(self_of(fr))
    return lambda p0, p1: image_of(X.PDI, p0, p1, lambda s, v: v, guard=lambda s: z3.Not(X.str_startswith(s, pre)))


E.LOOPS[(SP, 'SparseExperimenter.evaluate', 1)] = E.LoopSpec(save_transform_invariant(sp_transform), ghost=X.ALL)
E.LOOPS[(SP, 'SparseExperimenter.evaluate', 2)] = E.LoopSpec(restore_invariant, ghost=X.ALL)


# ---- scenarios / native predicates of the transformer family
def close(a, b):
    return isinstance(a, (int, float)) and isinstance(b, (int, float)) and abs(float(a) - float(b)) < 1e-9


def tf_scenario(kind):
    def scenario(p, model):
        run = p.run
        sc = scenario_from_model(run, model, [])
        names = [q['name'] for q in sc['base']['params']]
        vals = sorted({v for t in sc['batch'] for v in t['params'].values()})
        if kind == 'Shifting':
            sc['wrappers'] = [{'module': 'shifting_experimenter', 'class': 'ShiftingExperimenter',
                               'kwargs': {'shift': [0.05] * len(names), 'should_restrict': z3.is_true(model.eval(z3.Bool('should_restrict'), model_completion=True))}}]
        elif kind == 'Permuting':
            feas = sorted(set(vals) | {0.9, 0.95})
            sc['base']['params'] = [{'name': n, 'type': 'DISCRETE', 'feasible': feas} for n in names]
            sc['wrappers'] = [{'module': 'permuting_experimenter', 'class': 'PermutingExperimenter',
                               'kwargs': {'parameters_to_permute': names[:1], 'seed': 3}}]
        elif kind == 'Discretizing':
            feas = [repr(v) for v in sorted(set(vals) | {0.9})]          # categorical feasible values (strings convertible to float)
            for t in sc['batch']:
                if names:
                    t['params'][names[0]] = repr(t['params'][names[0]])
            sc['wrappers'] = [{'module': 'discretizing_experimenter', 'class': 'DiscretizingExperimenter',
                               'kwargs': {'discretization': {names[0]: feas} if names else {},
                                          'allow_oov': z3.is_true(model.eval(z3.Bool('allow_oov'), model_completion=True))}}]
        elif kind == 'Sparse':
            st = run.setup
            pn = [k for k, _ in (st.xs.desc[0]['params'] if st.xs.desc else [])]
            sparse = [z3.is_true(model.eval(X.str_startswith(k, run.prefix), model_completion=True)) for k in pn]
            ren = {old: ('_SP_q%d' % i if sp else 'p%d' % i) for i, (old, sp) in enumerate(zip(names, sparse))}
            sc['base']['params'] = [{'name': ren[n]} for n, sp in zip(names, sparse) if not sp] or [{'name': 'p_only'}]
            extra = {} if any(not sp for sp in sparse) else {'p_only': 0.5}
            for t in sc['batch']:
                t['params'] = dict({ren[k]: v for k, v in t['params'].items()}, **extra)
            sc['wrappers'] = [{'module': 'sparse_experimenter', 'class': 'SparseExperimenter',
                               'kwargs': {'prefix': '_SP', 'sparse_params': [{'name': ren[n][4:]} for n, sp in zip(names, sparse) if sp]}}]
        return sc
    return scenario


def n_mapped(kind):
    def fn(sc, obs):
        if obs.get('exception') is not None or not obs.get('base_calls'):
            return False
        kw = sc['wrappers'][0]['kwargs']
        for seen, b in zip(obs['base_calls'][0], obs['before']):
            want = dict(b['params'])
            if kind == 'Shifting':
                want = {n: v - s for (n, v), s in zip(want.items(), kw['shift'])}
            elif kind == 'Permuting':
                tabs = list(obs.get('tables', {}).values())
                if len(tabs) != 1:
                    return False
                for pn, row in tabs[0].items():
                    m = {a: c for a, c in row}
                    if pn in want:
                        if want[pn] not in m:
                            return False
                        want[pn] = m[want[pn]]
            elif kind == 'Discretizing':
                want = {n: (float(v) if n in kw['discretization'] else v) for n, v in want.items()}
            elif kind == 'Sparse':
                want = {n: v for n, v in want.items() if not n.startswith(kw['prefix'])}
            if set(seen) != set(want) or not all(close(seen[n], want[n]) or seen[n] == want[n] for n in want):
                return False
        return True
    return fn


def n_measurement_untouched(sc, obs):
    if obs.get('exception') is not None:
        return False
    for e, t in zip(_scripted(sc), obs['after']):
        if t['has_fm'] != e['has_fm'] or t['infeasible'] != e['infeasible']:
            return False
        if e['has_fm']:
            if set(t['metrics']) != set(e['metrics']):
                return False
            for n, m in e['metrics'].items():
                if not (same_float(t['metrics'][n]['value'], m['value']) and same_float(t['metrics'][n]['std'], m.get('std'))):
                    return False
    return True


def tf_native(short):
    R = 'C20.%s.evaluate.' % short
    return {R + 'parameters_restored': n_params_unchanged, R + 'evaluates_base_at_mapped_point': n_mapped(short),
            R + 'measurement_untouched': n_measurement_untouched, R + 'completes': n_completes(),
            R + 'delegates_once': lambda sc, obs: len(obs.get('base_calls') or []) == 1}


def tf_witness(kind):
    """designed native witness: every feasible value of the transformed parameter occurs in the batch"""
    def scenario():
        base = {'params': [{'name': 'a'}, {'name': 'b'}], 'metrics': [{'name': 'obj', 'goal': 'MINIMIZE'}]}
        vals = [0.125, 0.25, 0.5, 0.75]
        batch = [{'params': {'a': v, 'b': 0.5}} for v in vals]
        if kind == 'Shifting':
            layer = {'module': 'shifting_experimenter', 'class': 'ShiftingExperimenter', 'kwargs': {'shift': [0.0625, 0.0625], 'should_restrict': True}}
        elif kind == 'Permuting':
            base['params'][0] = {'name': 'a', 'type': 'DISCRETE', 'feasible': vals}
            layer = {'module': 'permuting_experimenter', 'class': 'PermutingExperimenter', 'kwargs': {'parameters_to_permute': ['a'], 'seed': 0}}
        elif kind == 'Discretizing':
            batch = [{'params': {'a': repr(v), 'b': 0.5}} for v in vals]
            layer = {'module': 'discretizing_experimenter', 'class': 'DiscretizingExperimenter', 'kwargs': {'discretization': {'a': [repr(v) for v in vals]}}}
        else:
            batch = [{'params': {'a': v, 'b': 0.5, '_SP_q': 0.25}} for v in vals]
            layer = {'module': 'sparse_experimenter', 'class': 'SparseExperimenter', 'kwargs': {'prefix': '_SP', 'sparse_params': [{'name': 'q'}]}}
        return {'kind': 'evaluate', 'base': base, 'wrappers': [layer], 'batch': batch, 'script': []}
    return scenario


def n_params_and_types_unchanged(sc, obs):
    return obs.get('exception') is None and all(a['params'] == b['params'] and a['param_types'] == b['param_types']
                                                for a, b in zip(obs['after'], obs['before']))


def units_transformers():
    sh_mapped = lambda run, p0, p1: p1 == sh_map(run.conv, run.shift, p0)
    pe_mapped = lambda run, p0, p1: image_q(run, X.PDI, p0, p1, pe_T)
    di_mapped = lambda run, p0, p1: image_q(run, X.PDI, p0, p1, di_T)
    sp_mapped = lambda run, p0, p1: image_q(run, X.PDI, p0, p1, lambda s, v: v, guard=lambda s: z3.Not(X.str_startswith(s, run.prefix)))
    out = []
    for label, short, mod, cname, construct, mapped, fns in (
            ('ShiftingExperimenter.evaluate', 'Shifting', SH, 'ShiftingExperimenter', sh_construct, sh_mapped, ['__init__', 'evaluate', '_offset']),
            ('PermutingExperimenter.evaluate', 'Permuting', PE, 'PermutingExperimenter', pe_construct, pe_mapped, ['__init__', 'evaluate', '_permute']),
            ('DiscretizingExperimenter.evaluate', 'Discretizing', DI, 'DiscretizingExperimenter', di_construct, di_mapped, ['__init__', 'evaluate']),
            ('SparseExperimenter.evaluate', 'Sparse', SP, 'SparseExperimenter', sp_construct, sp_mapped, ['__init__', 'evaluate'])):
        R = 'C20.%s.evaluate.' % short
        out.append(Unit(label, short, [(mod, cname + '.' + f) for f in fns], wr_entry(construct), wr_post(R, mapped),
                        bentry=wr_entry(construct, BOUNDED), scenario=tf_scenario(short), native=tf_native(short),
                        confirm={R + 'parameters_restored': (tf_witness(short), n_params_and_types_unchanged),
                                 R + 'evaluates_base_at_mapped_point': (tf_witness(short), n_mapped(short))}))
    return out


# =========================================================================================== constructors of the other experimenters
impl_fn = z3.Function('numpy_impl', X.Feat, xreal.XReal)
noise_uf = z3.Function('noise_fn', xreal.XReal, xreal.XReal)


def _impl(it, args, kw):
    a = args[0]
    return impl_fn(a.term if isinstance(a, X.FeatV) else it.run.fresh('absfeat', X.Feat))


def _noise(it, args, kw):
    v = args[0]
    return noise_uf(xreal.lift(v)) if not isinstance(v, X.Abs) else it.run.fresh('noise', xreal.XReal)


def no_construct(it, st):
    return M.construct(it, cls_of(NO, 'NoisyExperimenter'), [st.base, X.FnV(_noise)], {})


def nz_construct(it, st):
    return M.construct(it, cls_of(NZ, 'NormalizingExperimenter'), [st.base], {})


def hc_construct(it, st):
    return M.construct(it, cls_of(NZ, 'HyperCubeExperimenter'), [st.base], {})


def np_construct(it, st):
    run = it.run
    run.caller_ps = X.base_problem_statement(it, st.base)       # the caller's own problem statement (same metrics as `base`)
    return M.construct(it, cls_of(NP, 'NumpyExperimenter'), [X.FnV(_impl), run.caller_ps], {})


def hi_construct(it, st):
    return M.construct(it, cls_of(IN, 'HashingInfeasibleExperimenter'), [st.base],
                       {'infeasible_prob': z3.Const('infeasible_prob', xreal.XReal), 'seed': z3.Int('hash_seed')})


def pr_construct(it, st):
    return M.construct(it, cls_of(IN, 'ParamRegionInfeasibleExperimenter'), [st.base, z3.Const('region_param', Str)],
                       {'infeasible_interval': (z3.Const('region_lo', xreal.XReal), z3.Const('region_hi', xreal.XReal))})


def sw_construct(it, st):
    return M.construct(it, cls_of(SW, 'SwitchExperimenter'), [list(st.bases)], {})


def mo_construct(it, st):
    d = M.PyDict()
    for k, b in enumerate(st.bases):
        d.set(it, z3.Const('objective_name_%d' % k, Str), b)
    it.run.mo_names = [k for k, _ in d.items()]
    return M.construct(it, cls_of(MO, 'MultiObjectiveExperimenter'), [d], {})


# =========================================================================================== NumpyExperimenter.evaluate
def np_parts(w):
    conv = find_attr(w, lambda v: isinstance(v, X.ConverterV), 'the converter')
    # the configured metric name: the attribute that holds a name read from the problem statement's MetricInformation
    mname = find_attr(w, lambda v: z3.is_expr(v) and v.sort() == Str and z3.is_select(v), 'the configured metric name')
    return conv, mname


def np_val(conv, p0):
    return impl_fn(X.featrow(conv.term, p0))


def np_done(conv, mname, cur, ent, r):
    v = np_val(conv, ent['params'][r])
    one = X.concrete_dict(X.MDI, [(mname, X.MetricS.mk(v, z3.BoolVal(False), xreal.lit(0.0)))])
    return z3.And(cur['params'][r] == ent['params'][r], cur['fmset'][r], cur['rest'][r] == X.MRest0,
                  z3.If(xreal.is_fin(v), z3.And(cur['metrics'][r] == one, cur['infeas'][r] == ent['infeas'][r]),
                        z3.And(cur['metrics'][r] == X.MDI.empty(), cur['infeas'][r])))


def np_inv(it, fr, ctx):
    run = it.run
    xs = loop_batch(ctx)
    conv, mname = np_parts(self_of(fr))
    cur, ent = G(run), entry_heap(ctx)
    return batch_loop_frame(run, ctx, xs, cur, ent, lambda r: np_done(conv, mname, cur, ent, r))


E.LOOPS[(NP, 'NumpyExperimenter.evaluate', 1)] = E.LoopSpec(np_inv, ghost=X.ALL)


def np_entry(bounded=None):
    def entry(it):
        st = Setup(it, bounded=bounded)
        run = it.run
        run.w = np_construct(it, st)
        run.constructed = True
        st.H0 = H0_of(run)
        return call_method(it, run.w, 'evaluate', [st.xs])
    return entry


def np_post(p):
    R = 'C20.Numpy.evaluate.'
    run = p.run
    if p.kind != 'return':
        return []
    st = run.setup
    conv, mname = np_parts(run.w)
    F, H0, xs = G(run), st.H0, st.xs
    dom, val = X.MDI.dom, X.MDI.val
    v = lambda r: np_val(conv, H0['params'][r])
    out = [
        (R + 'configured_metric_is_an_objective_of_the_problem', X.named(st.base, mname)),
        (R + 'completes_with_configured_metric', QJ(xs, lambda j, r: z3.Or(F['infeas'][r], z3.And(F['fmset'][r], dom(F['metrics'][r])[mname])))),
        (R + 'value_is_impl_at_features', QJ(xs, lambda j, r: z3.Implies(xreal.is_fin(v(r)), z3.And(
            dom(F['metrics'][r])[mname], X.MetricS.value(val(F['metrics'][r])[mname]) == v(r))))),
        (R + 'infeasible_iff_not_finite', QJ(xs, lambda j, r: z3.If(xreal.is_fin(v(r)), F['infeas'][r] == H0['infeas'][r], F['infeas'][r]))),
        (R + 'only_configured_metric', QJ(xs, lambda j, r: QS(run, lambda s: z3.Implies(dom(F['metrics'][r])[s], s == mname)))),
        (R + 'never_calls_wrapped', z3.BoolVal(len(base_calls(run)) == 0)),
    ]
    return out + post_common(R, p, wrapper_names=lambda s: s == mname)


def np_scenario(p, model):
    run = p.run
    sc = scenario_from_model(run, model, [])
    conv, mname = np_parts(run.w)
    st = run.setup
    vals = [enc_float(xreal.model_value(model, np_val(conv, st.H0['params'][t.term]))) for t in st.xs.conc]
    sc['base']['metrics'] = sc['base']['metrics'][:1]
    sc['numpy'] = {'impl_values': vals}
    return sc


def n_np(which):
    def fn(sc, obs):
        if obs.get('exception') is not None:
            return False
        name = sc['base']['metrics'][0]['name']
        import math
        for v, t in zip(sc['numpy']['impl_values'], obs['after']):
            v = dec_float(v)
            fin = math.isfinite(v)
            if which == 'metric' and not (t['infeasible'] or (t['has_fm'] and name in t['metrics'])):
                return False
            if which == 'value' and fin and not (t['has_fm'] and name in t['metrics'] and same_float(t['metrics'][name]['value'], v)):
                return False
            if which == 'infeasible' and (t['infeasible'] != (not fin)):
                return False
            if which == 'only' and t['has_fm'] and any(k != name for k in t['metrics']):
                return False
        return True
    return fn


def units_numpy():
    R = 'C20.Numpy.evaluate.'
    native = {R + 'completes_with_configured_metric': n_np('metric'), R + 'value_is_impl_at_features': n_np('value'),
              R + 'infeasible_iff_not_finite': n_np('infeasible'), R + 'only_configured_metric': n_np('only'),
              R + 'completes': n_np('metric'), R + 'parameters_unchanged': n_params_unchanged}
    return [Unit('NumpyExperimenter.evaluate', 'Numpy', [(NP, 'NumpyExperimenter.__init__'), (NP, 'NumpyExperimenter.evaluate')],
                 np_entry(), np_post, bentry=np_entry(BOUNDED), scenario=np_scenario, native=native)]


# =========================================================================================== infeasibility wrappers / HyperCube
def completed_q(run, heap, b, r, names=None):
    nm = names if names is not None else (lambda s: X.named(b, s))
    return z3.Or(heap['infeas'][r], z3.And(heap['fmset'][r], QS(run, lambda s: z3.Implies(nm(s), X.MDI.dom(heap['metrics'][r])[s]))))


def inf_inv(it, fr, ctx):
    """every processed trial is marked infeasible by the wrapper, or was handed (alone, parameters untouched) to the wrapped experimenter"""
    run = it.run
    try:
        xs = loop_batch(ctx)
    except Unsupported:
        # a loop over per-trial features (enumerate(converter.convert(batch))): as many rows as trials, in batch order
        _, xs = find_local(fr, is_batch, 'the batch')
        n_it = ctx.iter.n
        if not (z3.is_expr(n_it) and z3.is_expr(xs.n) and n_it.eq(xs.n)):
            raise Unsupported('loop over something that is not aligned with the batch')
    base = run.setup.base
    cur, ent = G(run), entry_heap(ctx)
    return batch_loop_frame(run, ctx, xs, cur, ent, lambda r: z3.And(cur['params'][r] == ent['params'][r], X.completed_formula(cur, base, r)))


E.LOOPS[(IN, 'HashingInfeasibleExperimenter.evaluate', 1)] = E.LoopSpec(inf_inv, ghost=X.ALL)
E.LOOPS[(IN, 'ParamRegionInfeasibleExperimenter.evaluate', 1)] = E.LoopSpec(inf_inv, ghost=X.ALL)


def inf_entry(construct, R, bounded=None):
    def entry(it):
        st = Setup(it, bounded=bounded)
        run = it.run
        run.w = construct(it, st)
        run.constructed = True
        st.H0 = H0_of(run)

        def hook(it_, call):
            # every delegation hands over trials of the batch with their suggested parameters
            xs2 = call['xs']
            conc = getattr(xs2, 'conc', None)
            ok = conc is not None
            f = z3.And(*[z3.And(X.member_of(st.xs, t.term), call['pre']['params'][t.term] == st.H0['params'][t.term]) for t in (conc or [])]) \
                if ok and conc else z3.BoolVal(ok)
            it_.run.oblige(R + 'base_sees_suggested_parameters', f)
        run.on_base_evaluate = hook
        return call_method(it, run.w, 'evaluate', [st.xs])
    return entry


def inf_post(R):
    def post(p):
        if p.kind != 'return':
            return []
        return post_common(R, p)
    return post


def hc_convs(w):
    cs = [v for v in w.attrs.values() if isinstance(v, X.ConverterV)]
    ev = [c for c in cs if c.kw.get('scale') is False]
    sc = [c for c in cs if c.kw.get('scale') is True]
    if len(ev) != 1 or len(sc) != 1:
        raise Unsupported('cannot identify the two converters of HyperCubeExperimenter')
    return sc[0], ev[0]


def hc_inv_assign(it, fr, ctx):
    run = it.run
    z = ctx.iter
    copies = [p for p in z.parts if is_batch(p)]
    pds = [p for p in z.parts if isinstance(p, X.VList) and p.kind is X.K_PD]
    if len(copies) != 1 or len(pds) != 1:
        raise Unsupported('HyperCube assignment loop shape')
    cs, pd = copies[0], pds[0]
    cur, ent = G(run), entry_heap(ctx)
    return batch_loop_frame(run, ctx, cs, cur, ent, lambda r: z3.And(cur['params'][r] == pd.arr[cs.pos[r]], others_same(cur, ent, r)))


def hc_inv_copyback(it, fr, ctx):
    run = it.run
    z = ctx.iter
    bs = [p for p in z.parts if is_batch(p)]
    if len(bs) != 2:
        raise Unsupported('HyperCube copy-back loop shape')
    xs, cs = bs
    cur, ent = G(run), entry_heap(ctx)

    def done(r):
        c = cs.arr[xs.pos[r]]
        return z3.And(cur['params'][r] == ent['params'][r], hc_copied(cur, ent, ent, r, c))
    return batch_loop_frame(run, ctx, xs, cur, ent, done)


def hc_copied(F, H0, B, r, c):
    """state of suggestion r (in F; H0 = before) given the evaluated copy c (in B): infeasible in the wrapped experimenter => marked
    infeasible and completed with the copy's measurement (an empty one if it has none); otherwise the copy's measurement, mark untouched"""
    same_m = z3.And(F['metrics'][r] == B['metrics'][c], F['rest'][r] == B['rest'][c])
    return z3.If(B['infeas'][c],
                 z3.And(F['infeas'][r], F['fmset'][r], z3.If(B['fmset'][c], same_m, z3.And(F['metrics'][r] == X.MDI.empty(), F['rest'][r] == X.MRest0))),
                 z3.And(F['infeas'][r] == H0['infeas'][r], F['fmset'][r] == B['fmset'][c], z3.Implies(B['fmset'][c], same_m)))


E.LOOPS[(NZ, 'HyperCubeExperimenter.evaluate', 1)] = E.LoopSpec(hc_inv_assign, ghost=X.ALL)
E.LOOPS[(NZ, 'HyperCubeExperimenter.evaluate', 2)] = E.LoopSpec(hc_inv_copyback, ghost=X.ALL)


def hc_entry(bounded=None, never_infeasible=False):
    def entry(it):
        st = Setup(it, bounded=bounded)
        run = it.run
        run.w = hc_construct(it, st)
        run.constructed = True
        run.base_never_infeasible = never_infeasible
        st.H0 = H0_of(run)
        return call_method(it, run.w, 'evaluate', [st.xs])
    return entry


def hc_post(p):
    R = 'C20.HyperCube.evaluate.'
    run = p.run
    if p.kind != 'return':
        return []
    st = run.setup
    calls = [c for c in base_calls(run) if not c['raised']]
    ok = len(calls) == 1
    if not ok:
        raise Unsupported('evaluate does not hand the batch to the wrapped experimenter exactly once (shape outside this contract)')
    out = [(R + 'delegates_once', z3.BoolVal(ok))]
    c = calls[0]
    cs, B, F, xs, H0 = c['xs'], c['post'], G(run), st.xs, st.H0
    conv, evconv = hc_convs(run.w)
    same_n = (cs.n == xs.n) if z3.is_expr(cs.n) or z3.is_expr(xs.n) else z3.BoolVal(cs.n == xs.n)
    cj = lambda j: cs.arr[j] if getattr(cs, 'conc', None) is None else cs.conc[j.as_long()].term
    out += [
        (R + 'evaluates_base_at_mapped_point', z3.And(same_n, QJ(xs, lambda j, r: c['pre']['params'][cj(j)] == X.toparrow(
            conv.term, X.featrow(evconv.term, H0['params'][r]))))),
        (R + 'evaluates_copies', QJ(xs, lambda j, r: z3.Not(H0['talloc'][cj(j)]))),
        (R + 'measurement_copied', QJ(xs, lambda j, r: hc_copied(F, H0, B, r, cj(j)))),
        (R + 'infeasibility_propagated', QJ(xs, lambda j, r: F['infeas'][r] == z3.Or(H0['infeas'][r], B['infeas'][cj(j)]))),
    ]
    return out + post_common(R, p)


def hc_scenario(p, model):
    sc = scenario_from_model(p.run, model, [{'module': 'normalizing_experimenter', 'class': 'HyperCubeExperimenter', 'kwargs': {}}])
    for i, t in enumerate(sc['batch']):
        t['params'] = {'h%d' % k: v for k, v in enumerate(t['params'].values())}
    return sc


def n_hc_copied(sc, obs):
    if obs.get('exception') is not None:
        return False
    for e, t in zip(_scripted(sc), obs['after']):
        want_fm = True if e['infeasible'] else e['has_fm']
        if t['has_fm'] != want_fm or t['infeasible'] != e['infeasible']:
            return False
        want = e['metrics'] if e['has_fm'] else {}
        if want_fm and (set(t['metrics']) != set(want) or not all(same_float(t['metrics'][n]['value'], m['value']) and
                                                                  same_float(t['metrics'][n]['std'], m.get('std')) for n, m in want.items())):
            return False
    return True


def n_infeasibility(sc, obs):
    return obs.get('exception') is None and all(t['infeasible'] == e['infeasible'] for e, t in zip(_scripted(sc), obs['after']))


def units_infeasible_hypercube():
    out = []
    for short, cname, construct in (('HashingInfeasible', 'HashingInfeasibleExperimenter', hi_construct),
                                    ('ParamRegionInfeasible', 'ParamRegionInfeasibleExperimenter', pr_construct)):
        R = 'C20.%s.evaluate.' % short
        out.append(Unit(cname + '.evaluate', short, [(IN, cname + '.evaluate'), (IN, cname + '.__attrs_post_init__')],
                        inf_entry(construct, R), inf_post(R), bentry=None,
                        native={R + 'parameters_unchanged': n_params_unchanged, R + 'completes': n_completes()}))
    R = 'C20.HyperCube.evaluate.'
    rknown = {}
    for k in ('infeasibility_propagated', 'completes'):
        f = CHK.finding_for(R + k) if CHK is not None else None
        if f is not None:
            rknown[R + k] = f['what']
    out.append(Unit('HyperCubeExperimenter.evaluate', 'HyperCube', [(NZ, 'HyperCubeExperimenter.__init__'), (NZ, 'HyperCubeExperimenter.evaluate')],
                    hc_entry(), hc_post, bentry=hc_entry(BOUNDED), scenario=hc_scenario,
                    native={R + 'infeasibility_propagated': n_infeasibility, R + 'completes': n_completes(),
                            R + 'parameters_unchanged': n_params_unchanged, R + 'measurement_copied': n_hc_copied},
                    rentry=hc_entry(never_infeasible=True), rknown=rknown))
    return out


# =========================================================================================== NormalizingExperimenter
def nz_table_roles():
    """{attribute name: 'mean' | 'std'} and the list of RHS expressions stored into the std table, read from the class body:
    an attribute X is the std (mean) table iff some statement `self.X[...] = rhs` has a call to numpy's std (mean) in rhs."""
    cls = cls_of(NZ, 'NormalizingExperimenter')
    roles, std_rhs = {}, []
    for mname, fn in cls.methods.items():
        me = fn.args.args[0].arg if fn.args.args else 'self'
        for n in ast.walk(fn):
            if isinstance(n, (ast.Assign, ast.AnnAssign, ast.AugAssign)):
                tgts = n.targets if isinstance(n, ast.Assign) else [n.target]
                for t in tgts:
                    if isinstance(t, ast.Subscript) and isinstance(t.value, ast.Attribute) and isinstance(t.value.value, ast.Name) and t.value.value.id == me \
                            and n.value is not None:
                        calls = {ast.unparse(c.func).split('.')[-1] for c in ast.walk(n.value) if isinstance(c, ast.Call)}
                        role = 'std' if 'std' in calls else ('mean' if 'mean' in calls else None)
                        if role is None or roles.get(t.value.attr, role) != role or isinstance(n, ast.AugAssign):
                            raise Unsupported('store into self.%s[...] in %s is not a plain np.std / np.mean expression' % (t.value.attr, mname))
                        roles[t.value.attr] = role
                        if role == 'std':
                            std_rhs.append((mname, n.value))
    if sorted(roles.values()) != ['mean', 'std']:
        raise Unsupported('cannot identify the mean / std tables of NormalizingExperimenter: %s' % roles)
    return roles, std_rhs


NZ_MEAN, NZ_STD = 11, 12


def nz_construct_tables(it, st):
    w = nz_construct(it, st)
    roles, _ = nz_table_roles()
    for a, role in roles.items():
        if a not in w.attrs:
            raise Unsupported('NormalizingExperimenter.__init__ did not set self.%s' % a)
        # Dict[str, float] abstracted by (norm_has, norm_value): fully general; the class invariant below restricts the std table
        w.attrs[a] = X.NormTable(NZ_STD if role == 'std' else NZ_MEAN, role)
    return w


def nz_mean(s):
    return X.norm_val(z3.IntVal(NZ_MEAN), s)


def nz_std(s):
    return X.norm_val(z3.IntVal(NZ_STD), s)


def nz_class_invariant(s):
    """established by C20.Normalizing.__init__.std_positive for every store into the std table; np.mean of finite values is finite"""
    return z3.And(xreal.is_fin(nz_std(s)), xreal.r(nz_std(s)) > 0, xreal.is_fin(nz_mean(s)))


def nz_T(s, v):
    return X.MetricS.mk(X.xdiv(xreal.sub(X.MetricS.value(v), nz_mean(s)), nz_std(s)), z3.BoolVal(False), xreal.lit(0.0))


def nz_inv_outer(it, fr, ctx):
    run = it.run
    xs = loop_batch(ctx)
    cur, ent = G(run), entry_heap(ctx)

    def done(r):
        return z3.And(cur['params'][r] == ent['params'][r], cur['fmset'][r] == ent['fmset'][r], cur['rest'][r] == ent['rest'][r],
                      cur['infeas'][r] == ent['infeas'][r],
                      z3.If(ent['fmset'][r], image_of(X.MDI, ent['metrics'][r], cur['metrics'][r], nz_T), cur['metrics'][r] == ent['metrics'][r]))
    return batch_loop_frame(run, ctx, xs, cur, ent, done)


E.LOOPS[(NZ, 'NormalizingExperimenter.evaluate', 1)] = E.LoopSpec(nz_inv_outer, ghost=X.ALL)
E.LOOPS[(NZ, 'NormalizingExperimenter.evaluate', 2)] = E.LoopSpec(lambda it, fr, ctx: dict_build_invariant(it, fr, ctx, X.MDI, nz_T), ghost=X.ALL)


def nz_entry(bounded=None):
    def entry(it):
        st = Setup(it, bounded=bounded)
        run = it.run
        run.w = nz_construct_tables(it, st)
        run.constructed = True
        # the constructor evaluates sample trials: the batch under test is created afterwards
        st.xs = X.make_batch(run, 'ys') if bounded is None else X.bounded_batch(run, bounded.get('batch', 2), bounded.get('params', 2), name='y')
        st.H0 = H0_of(run)
        if bounded is None:
            s = z3.Const('s!nzci', Str)
            run.axiom(z3.ForAll([s], nz_class_invariant(s)))
        else:
            for s in run.strings:
                run.assume(nz_class_invariant(s))
        run.base_calls = []
        return call_method(it, run.w, 'evaluate', [st.xs])
    return entry


def nz_post(p):
    R = 'C20.Normalizing.evaluate.'
    run = p.run
    if p.kind != 'return':
        return []
    st = run.setup
    calls = [c for c in base_calls(run) if not c['raised']]
    ok = len(calls) == 1 and same_batch(calls[0], st)
    if not ok:
        raise Unsupported('evaluate does not hand the batch to the wrapped experimenter exactly once (shape outside this contract)')
    out = [(R + 'delegates_once', z3.BoolVal(ok))]
    B, F, xs = calls[0]['post'], G(run), st.xs
    dom, val, value = X.MDI.dom, X.MDI.val, X.MetricS.value
    had = lambda r, s: z3.And(B['fmset'][r], dom(B['metrics'][r])[s])
    bv = lambda r, s: value(val(B['metrics'][r])[s])
    fv = lambda r, s: value(val(F['metrics'][r])[s])
    fin2 = lambda r1, r2, s: z3.And(had(r1, s), had(r2, s), xreal.is_fin(bv(r1, s)), xreal.is_fin(bv(r2, s)))
    out += [
        (R + 'formula', QJ(xs, lambda j, r: QS(run, lambda s: z3.Implies(had(r, s), z3.And(dom(F['metrics'][r])[s], fv(r, s) == X.xdiv(
            xreal.sub(bv(r, s), nz_mean(s)), nz_std(s))))))),
        order_clause(run, xs, fin2, bv, fv, R),
        (R + 'no_metric_added_or_lost', QJ(xs, lambda j, r: QS(run, lambda s: z3.Implies(B['fmset'][r], dom(F['metrics'][r])[s] == dom(B['metrics'][r])[s])))),
        (R + 'status_untouched', QJ(xs, lambda j, r: z3.And(F['fmset'][r] == B['fmset'][r], F['infeas'][r] == B['infeas'][r], F['rest'][r] == B['rest'][r]))),
        (R + 'base_sees_suggested_parameters', QJ(xs, lambda j, r: calls[0]['pre']['params'][r] == st.H0['params'][r])),
    ]
    return out + post_common(R, p)


def nz_monotone(a, b, m, sd):
    """x -> (x - m) / sd is strictly increasing on finite values when sd is a finite positive number (mathematical arithmetic)"""
    N = lambda x: X.xdiv(xreal.sub(x, m), sd)
    return z3.Implies(z3.And(xreal.is_fin(a), xreal.is_fin(b), xreal.is_fin(m), xreal.is_fin(sd), xreal.r(sd) > 0),
                      z3.And(z3.Implies(xreal.lt(a, b), xreal.lt(N(a), N(b))), z3.Implies(a == b, N(a) == N(b))))


def order_clause(run, xs, fin2, bv, fv, R):
    body = lambda r1, r2, s: z3.Implies(fin2(r1, r2, s), z3.And(z3.Implies(xreal.lt(bv(r1, s), bv(r2, s)), xreal.lt(fv(r1, s), fv(r2, s))),
                                                               z3.Implies(bv(r1, s) == bv(r2, s), fv(r1, s) == fv(r2, s))))
    if getattr(xs, 'conc', None) is not None:
        return (R + 'order_preserved', QJ(xs, lambda j1, r1: QJ(xs, lambda j2, r2: QS(run, lambda s: body(r1, r2, s)))))
    # proof script (DESIGN 2.3): `pointwise j1 j2 s` (fresh constants = forall-introduction) and
    # `use lemma C20.Normalizing.lemma.monotone at (base value 1, base value 2, mean(s), std(s))`; the lemma is its own obligation
    j1, j2, s = z3.Int('j1!op'), z3.Int('j2!op'), z3.Const('s!op', Str)
    r1, r2 = xs.arr[j1], xs.arr[j2]
    inst = nz_monotone(bv(r1, s), bv(r2, s), nz_mean(s), nz_std(s))
    return (R + 'order_preserved', z3.Implies(z3.And(j1 >= 0, j1 < xs.n, j2 >= 0, j2 < xs.n, inst), body(r1, r2, s)))


def nz_lemma_entry(it):
    X.init_heap(it.run)
    return None


def nz_lemma_post(p):
    a, b, m, sd = [z3.Const(n, xreal.XReal) for n in ('a!lm', 'b!lm', 'm!lm', 'sd!lm')]
    return [('C20.Normalizing.lemma.monotone', z3.ForAll([a, b, m, sd], nz_monotone(a, b, m, sd)))]


def nz_std_entry(k):
    def entry(it):
        run = it.run
        X.init_heap(run)
        roles, std_rhs = nz_table_roles()
        mname, rhs = std_rhs[k]
        cls = cls_of(NZ, 'NormalizingExperimenter')
        env = {}
        for n in ast.walk(rhs):
            if isinstance(n, ast.Name) and n.id not in cls.mod.imports and n.id not in cls.mod.funcs and n.id not in cls.mod.classes \
                    and n.id not in cls.mod.assigns and n.id not in M.BUILTINS:
                env[n.id] = X.Abs(n.id)
        run.value = it.eval(E.Frame(cls.mod, env), rhs)
        return run.value
    return entry


def nz_std_post(p):
    R = 'C20.Normalizing.__init__.'
    run = p.run
    if p.kind != 'return':
        return [(R + 'std_positive', z3.BoolVal(False))]
    v = run.value
    stds = getattr(run, 'np_std_results', [])
    if not (xreal.is_x(v) and len(stds) == 1):
        return [(R + 'std_positive', z3.BoolVal(False))]
    # numpy contract (assumed): np.std of finite values is a finite number >= 0 (machine arithmetic treated as mathematical)
    return [(R + 'std_positive', z3.Implies(xreal.is_fin(stds[0]), z3.And(xreal.is_fin(v), xreal.r(v) > 0)))]


def nz_scenario(p, model):
    """tiny-spread witness: the wrapped experimenter answers the constructor's samples with one constant (empirical std 0);
    the evaluated batch gets two different finite values above that constant"""
    sc = scenario_from_model(p.run, model, [{'module': 'normalizing_experimenter', 'class': 'NormalizingExperimenter',
                                            'kwargs': {'num_normalization_samples': 4}}])
    sc['base']['default_value'] = 1.5
    names = [m['name'] for m in sc['base']['metrics']]
    sc['batch'] = (sc['batch'] + sc['batch'])[:2] if sc['batch'] else []
    sc['script'] = [[{'metrics': {n: {'value': 2.0 + i} for n in names}, 'infeasible': False, 'has_fm': True} for i in range(len(sc['batch']))]]
    return sc


def nz_witness_scenario():
    """constant answers during construction (empirical std 0), two different values above the constant afterwards"""
    return {'kind': 'evaluate', 'base': {'params': [{'name': 'x'}], 'metrics': [{'name': 'obj', 'goal': 'MINIMIZE'}], 'default_value': 1.5},
            'wrappers': [{'module': 'normalizing_experimenter', 'class': 'NormalizingExperimenter', 'kwargs': {'num_normalization_samples': 4}}],
            'batch': [{'params': {'x': 0.2}}, {'params': {'x': 0.7}}],
            'script': [[{'metrics': {'obj': {'value': 2.0 + i}}, 'infeasible': False, 'has_fm': True} for i in range(2)]]}


def n_order_preserved(sc, obs):
    import math
    if obs.get('exception') is not None:
        return False
    es, ts = _scripted(sc), obs['after']
    for a in range(len(ts)):
        for b in range(len(ts)):
            for n in es[a]['metrics']:
                if not (es[a]['has_fm'] and es[b]['has_fm'] and n in es[b]['metrics']):
                    continue
                x, y = dec_float(es[a]['metrics'][n]['value']), dec_float(es[b]['metrics'][n]['value'])
                if not (math.isfinite(x) and math.isfinite(y)):
                    continue
                fx, fy = dec_float(ts[a]['metrics'][n]['value']), dec_float(ts[b]['metrics'][n]['value'])
                if x < y and not fx < fy:
                    return False
                if x == y and not fx == fy:
                    return False
    return True


def units_normalizing():
    fns = [(NZ, 'NormalizingExperimenter.__init__'), (NZ, 'NormalizingExperimenter.evaluate')]
    R = 'C20.Normalizing.evaluate.'
    native = {R + 'order_preserved': n_order_preserved, R + 'formula': n_order_preserved, R + 'parameters_unchanged': n_params_unchanged,
              R + 'completes': n_completes(), R + 'status_untouched': n_status, R + 'no_metric_added_or_lost': n_status}
    out = [Unit('NormalizingExperimenter.evaluate', 'Normalizing', fns, nz_entry(), nz_post, bentry=nz_entry(BOUNDED), scenario=nz_scenario, native=native,
                confirm={R + 'order_preserved': (nz_witness_scenario, n_order_preserved)})]
    out.append(Unit('NormalizingExperimenter.evaluate(lemma)', 'Normalizing', [], nz_lemma_entry, nz_lemma_post))
    _, std_rhs = nz_table_roles()
    for k in range(len(std_rhs)):
        out.append(Unit('NormalizingExperimenter.__init__(std table store #%d)' % (k + 1), 'Normalizing', fns[:1], nz_std_entry(k), nz_std_post,
                        confirm={'C20.Normalizing.__init__.std_positive': (nz_witness_scenario, n_order_preserved)}))
    return out


# =========================================================================================== NoisyExperimenter: seeded reproducibility
NOISE_ENTRIES = [
    dict(name='Noisy.from_type', kind='function', mod=NO, qual='NoisyExperimenter.from_type', seeds=('seed',), randomized=True),
    dict(name='Noisy._create_noise_fn', kind='function', mod=NO, qual='_create_noise_fn', seeds=('seed',), randomized=True),
    dict(name='Noisy._uniform_noise', kind='function', mod=NO, qual='_uniform_noise', seeds=('rng',), randomized=True),
    dict(name='Noisy._cauchy_noise', kind='function', mod=NO, qual='_cauchy_noise', seeds=('rng',), randomized=True),
    dict(name='Noisy._additive_normal_noise', kind='function', mod=NO, qual='_additive_normal_noise', seeds=('rng',), randomized=True),
]


def noisy_frame_obligations(chk):
    """C14's read-frame analysis (pyvc.readframe through contracts/c14.py) on the noise machinery: with a seed given no ambient
    nondeterminism is reachable and the seed reaches every RNG.  Frame obligations are decided on the real AST."""
    from contracts import c14
    old = c14.EXPAND
    c14.EXPAND = list(old) + ['vizier._src.benchmarks.experimenters']
    try:
        for entry in NOISE_ENTRIES:
            t0 = time.time()
            chk.function(entry['mod'], entry['qual'])
            try:
                s, found, converged, methods, missing = c14.analyse(entry)
                amb, seedv, assum = c14.decide(entry, s, found)
            except Exception as e:
                chk.error('C20.%s.readframe' % entry['name'], 'read-frame engine failed (checker error): %r' % (e,))
                continue
            for a in s['assumptions'] + assum:
                chk.assume('read frame: ' + a)
            dt = time.time() - t0
            if not converged or not found:
                chk.error('C20.%s.readframe' % entry['name'], 'fixpoint not reached / no seed parameter found: %s' % (found,))
                continue
            for clause, bad in (('no_ambient_nondeterminism', amb), ('seed_reaches_rng', seedv)):
                name = 'C20.%s.%s' % (entry['name'], clause)
                detail = {'closure': s['closure'][:40], 'rng_constructions': [c['call'] for c in s['rng_ctors']], 'rng_uses': len(s['rng_uses'])}
                if not bad:
                    chk.obligation(name, entry['qual'], 'frame', report.PROVED, dt / 2, detail=detail)
                else:
                    ntype = {'Noisy._uniform_noise': 'SEVERE_UNIFORM', 'Noisy._cauchy_noise': 'SEVERE_SELDOM_CAUCHY',
                             'Noisy._additive_normal_noise': 'SEVERE_ADDITIVE_GAUSSIAN'}.get(entry['name'], 'SEVERE_GAUSSIAN')
                    sc = {'kind': 'noisy_reproducible', 'noise_type': ntype, 'seed': 7,
                          'base': {'params': [{'name': 'x'}], 'metrics': [{'name': 'obj', 'goal': 'MINIMIZE'}], 'default_value': 2.0},
                          'batch': [{'params': {'x': 0.5}}]}
                    obs = run_replay(sc)
                    rep = (not obs['reproducible']) if 'reproducible' in obs else None
                    chk.obligation(name, entry['qual'], 'frame', report.VIOLATED, dt / 2, detail=dict(detail, violations=[str(b) for b in bad[:6]]),
                                   model='\n'.join(str(b) for b in bad), replay={'scenario': sc, 'observed': obs}, reproduced=True if rep else None)
    finally:
        c14.EXPAND = old


# =========================================================================================== NoisyExperimenter.evaluate
str_strip = z3.Function('str_strip_suffix', Str, Str, Str)      # inverse of concatenation with a fixed suffix (definitional extension)


def no_sfx():
    return pm.str_lit('_before_noise')


def noised(v):
    return X.MetricS.mk(noise_uf(X.MetricS.value(v)), z3.BoolVal(False), xreal.lit(0.0))


def no_relation(m0, m1, quant):
    """m1 = { s: Metric(noise(m0[s].value)), s + '_before_noise': m0[s]  for s in m0 } (documented behaviour)"""
    sfx = no_sfx()
    dom, val = X.MDI.dom, X.MDI.val
    orig = lambda s: dom(m0)[s]
    kept = lambda s: z3.And(s == X.str_concat(str_strip(s, sfx), sfx), dom(m0)[str_strip(s, sfx)])
    return quant(lambda s: z3.And(dom(m1)[s] == z3.Or(orig(s), kept(s)),
                                  z3.Implies(orig(s), val(m1)[s] == noised(val(m0)[s])),
                                  z3.Implies(kept(s), val(m1)[s] == val(m0)[str_strip(s, sfx)])))


def forall_s(body):
    s = z3.Const('s!no', Str)
    return z3.ForAll([s], body(s))


def no_inv_outer(it, fr, ctx):
    run = it.run
    xs = loop_batch(ctx)
    cur, ent = G(run), entry_heap(ctx)

    def done(r):
        return z3.And(cur['params'][r] == ent['params'][r], cur['fmset'][r] == ent['fmset'][r], cur['rest'][r] == ent['rest'][r],
                      cur['infeas'][r] == ent['infeas'][r],
                      z3.If(ent['fmset'][r], no_relation(ent['metrics'][r], cur['metrics'][r], forall_s), cur['metrics'][r] == ent['metrics'][r]))
    return batch_loop_frame(run, ctx, xs, cur, ent, done)


def no_inv_inner(it, fr, ctx):
    run = it.run
    items = ctx.iter
    if not isinstance(items, X.ItemsList):
        raise Unsupported('noise loop over %r' % (items,))
    m0 = items.dv
    _, d = find_local(fr, lambda v: isinstance(v, (M.PyDict, X.SMap)), 'the dict under construction')
    if ctx.phase == 'head':
        X.set_clock(run, ctx.i)
        if isinstance(d, X.SMap):
            d.ensure(it, X.MDI)
    dom, val, src = X.view(it, d, X.MDI)
    keys, mval = X.MDI.keys(m0.term), X.MDI.val(m0.term)
    s, j = z3.Const('s!ni', Str), z3.Int('j!ni')
    i, sfx = ctx.i, no_sfx()
    k = keys[src[s]]
    return [('heap_untouched', fields_equal(G(run), entry_heap(ctx))),
            ('image', z3.ForAll([s], z3.Implies(dom[s], z3.And(src[s] >= 0, src[s] < i, z3.Or(
                z3.And(s == k, val[s] == noised(mval[s])), z3.And(s == X.str_concat(k, sfx), val[s] == mval[k])))))),
            ('covered', z3.ForAll([j], z3.Implies(z3.And(j >= 0, j < i), z3.And(dom[keys[j]], dom[X.str_concat(keys[j], sfx)]))))]


E.LOOPS[(NO, 'NoisyExperimenter.evaluate', 1)] = E.LoopSpec(no_inv_outer, ghost=X.ALL)
E.LOOPS[(NO, 'NoisyExperimenter.evaluate', 2)] = E.LoopSpec(no_inv_inner, ghost=X.ALL)


def no_entry(bounded=None):
    def entry(it):
        st = Setup(it, bounded=bounded)
        run = it.run
        sfx = no_sfx()
        a, b = z3.Const('a!cc', Str), z3.Const('b!cc', Str)
        if bounded is None:
            # strings: x + suffix determines x (str_strip is its inverse); stated precondition on the wrapped experimenter's metric names
            run.axiom(z3.ForAll([a], str_strip(X.str_concat(a, sfx), sfx) == a))
            run.metric_suffix_free = sfx
        else:
            base_strs = list(run.strings)
            cc = [X.str_concat(k, sfx) for k in base_strs]
            run.assume(z3.Distinct(*(base_strs + cc)))
            for k in base_strs:
                run.assume(str_strip(X.str_concat(k, sfx), sfx) == k)
                run.assume(X.str_concat(str_strip(k, sfx), sfx) != k)
            run.strings = base_strs + cc
        run.w = no_construct(it, st)
        run.constructed = True
        st.H0 = H0_of(run)
        return call_method(it, run.w, 'evaluate', [st.xs])
    return entry


def no_post(p):
    R = 'C20.Noisy.evaluate.'
    run = p.run
    if p.kind != 'return':
        return []
    st = run.setup
    calls = [c for c in base_calls(run) if not c['raised']]
    ok = len(calls) == 1 and same_batch(calls[0], st)
    if not ok:
        raise Unsupported('evaluate does not hand the batch to the wrapped experimenter exactly once (shape outside this contract)')
    out = [(R + 'delegates_once', z3.BoolVal(ok))]
    B, F, xs = calls[0]['post'], G(run), st.xs
    dom, val, value = X.MDI.dom, X.MDI.val, X.MetricS.value
    sfx = no_sfx()
    had = lambda r, s: z3.And(B['fmset'][r], dom(B['metrics'][r])[s])
    out += [
        (R + 'noise_applied', QJ(xs, lambda j, r: QS(run, lambda s: z3.Implies(had(r, s), z3.And(
            dom(F['metrics'][r])[s], value(val(F['metrics'][r])[s]) == noise_uf(value(val(B['metrics'][r])[s]))))))),
        (R + 'unnoised_kept', QJ(xs, lambda j, r: QS(run, lambda s: z3.Implies(had(r, s), z3.And(
            dom(F['metrics'][r])[X.str_concat(s, sfx)], metric_eq(val(F['metrics'][r])[X.str_concat(s, sfx)], val(B['metrics'][r])[s])))))),
        (R + 'only_documented_metrics', QJ(xs, lambda j, r: QS(run, lambda s: z3.Implies(z3.And(B['fmset'][r], dom(F['metrics'][r])[s]), z3.Or(
            dom(B['metrics'][r])[s], z3.And(s == X.str_concat(str_strip(s, sfx), sfx), dom(B['metrics'][r])[str_strip(s, sfx)])))))),
        (R + 'status_untouched', QJ(xs, lambda j, r: z3.And(F['fmset'][r] == B['fmset'][r], F['infeas'][r] == B['infeas'][r], F['rest'][r] == B['rest'][r]))),
        (R + 'base_sees_suggested_parameters', QJ(xs, lambda j, r: calls[0]['pre']['params'][r] == st.H0['params'][r])),
    ]
    return out + post_common(R, p)


def no_scenario(p, model):
    return scenario_from_model(p.run, model, [{'module': 'noisy_experimenter', 'class': 'NoisyExperimenter', 'kwargs': {'noise': 'PLUS1'}}])


def n_noisy(which):
    def fn(sc, obs):
        if obs.get('exception') is not None:
            return False
        for e, t in zip(_scripted(sc), obs['after']):
            if not e['has_fm']:
                continue
            for n, m in e['metrics'].items():
                if n.endswith('_before_noise'):
                    continue
                got = t['metrics'] or {}
                if which == 'noise' and not (n in got and same_float(got[n]['value'], dec_float(m['value']) + 1.0)):
                    return False
                if which == 'kept' and not (n + '_before_noise' in got and same_float(got[n + '_before_noise']['value'], m['value'])
                                            and same_float(got[n + '_before_noise']['std'], m.get('std'))):
                    return False
            if which == 'only' and any(not (k in e['metrics'] or (k.endswith('_before_noise') and k[:-13] in e['metrics'])) for k in (t['metrics'] or {})):
                return False
        return True
    return fn


def units_noisy():
    R = 'C20.Noisy.evaluate.'
    native = {R + 'noise_applied': n_noisy('noise'), R + 'unnoised_kept': n_noisy('kept'), R + 'only_documented_metrics': n_noisy('only'),
              R + 'parameters_unchanged': n_params_unchanged, R + 'completes': n_completes(), R + 'status_untouched': n_infeasibility}
    return [Unit('NoisyExperimenter.evaluate', 'Noisy', [(NO, 'NoisyExperimenter.evaluate')], no_entry(), no_post, bentry=no_entry(BOUNDED),
                 scenario=no_scenario, native=native)]


# =========================================================================================== seeded noise: the generator is a function of the seed
EF = PKG + 'experimenter_factory'


def term_consts(t):
    out, todo, seen = set(), [t], set()
    while todo:
        x = todo.pop()
        if x.get_id() in seen:
            continue
        seen.add(x.get_id())
        if z3.is_const(x) and x.decl().kind() == z3.Z3_OP_UNINTERPRETED:
            out.add(x.decl().name())
        todo.extend(x.children())
    return out


def seed_case(run, seed):
    """'seed=0' if the path condition forces the (not-None) seed to be falsy, 'seed!=0' if it forces it to be truthy, else 'any seed'."""
    if discharge(run, seed == 0, timeout_ms=3000)[0] == 'unsat':
        return 'seed=0'
    if discharge(run, seed != 0, timeout_ms=3000)[0] == 'unsat':
        return 'seed!=0'
    return 'any seed'


def seed_value(run, seed):
    sol = z3.Solver()
    for c in run.pc:
        sol.add(c)
    if sol.check() == z3.sat:
        return sol.model().eval(seed, model_completion=True).as_long()
    return 0


def rng_arg_ok(arg, allowed):
    """the argument of default_rng(...) on this path is a value determined by the seed: a python constant other than None, or a term
    whose only free symbols are the seed.  None (or no argument) means OS entropy."""
    if arg is None:
        return False, 'default_rng(None): the generator is seeded from OS entropy'
    if isinstance(arg, (int, bool)):
        return True, 'constant %r' % (arg,)
    if z3.is_expr(arg) and arg.sort() == z3.IntSort() and term_consts(arg) <= allowed:
        return True, 'term %s' % arg
    return False, 'default_rng(%r): not a function of the seed' % (arg,)


def noise_entry(via):
    def entry(it):
        run = it.run
        st = Setup(it)
        run.rng_constructions, run.partials, run.ambient_random = [], [], []
        run.seed = z3.Int('seed')              # EVERY seed that is not None: any int, 0 and other falsy values included
        mod = ModuleInfo.get(NO)
        noise = z3.Const('noise_type', Str)
        if via == 'create_noise_fn':
            return it.call(E.FuncVal(mod, mod.funcs['_create_noise_fn']), [noise], {'dimension': X.Abs('dimension'), 'seed': run.seed})
        cls = mod.classes['NoisyExperimenter']
        return it.call(it.getattr(cls, 'from_type'), [st.base, noise], {'seed': run.seed})
    return entry


def factory_seed_entry(it):
    """the `seed` argument of the NoisyExperimenter.from_type(...) call inside SingleObjectiveExperimenterFactory.__call__, evaluated from
    its real AST with symbolic (not-None) factory fields"""
    run = it.run
    X.init_heap(run)
    cls = cls_of(EF, 'SingleObjectiveExperimenterFactory')
    fn = cls.methods['__call__']
    calls = [c for c in ast.walk(fn) if isinstance(c, ast.Call) and isinstance(c.func, ast.Attribute) and c.func.attr == 'from_type'
             and 'NoisyExperimenter' in ast.unparse(c.func)]
    if len(calls) != 1:
        raise Unsupported('expected exactly one NoisyExperimenter.from_type call in the factory, found %d' % len(calls))
    call = calls[0]
    kws = {k.arg: k.value for k in call.keywords}
    expr = kws.get('seed', call.args[2] if len(call.args) > 2 else None)
    if expr is None:
        run.factory_arg, run.factory_fields = 'omitted', {}
        return None
    me = fn.args.args[0].arg
    fields = sorted({n.attr for n in ast.walk(expr) if isinstance(n, ast.Attribute) and isinstance(n.value, ast.Name) and n.value.id == me})
    spec = A.class_spec(cls)
    for f in fields:
        fs = spec.field(f) if spec is not None else None
        if fs is None or getattr(fs, 'converter', None) is not None:
            raise Unsupported('factory attribute %s is not a plain attrs field' % f)
    run.factory_fields = {f: z3.Int('factory_' + f) for f in fields}
    run.seed = run.factory_fields[fields[0]] if len(fields) == 1 else None
    run.factory_arg = it.eval(E.Frame(cls.mod, {me: Obj(cls, dict(run.factory_fields))}), expr)
    # ... and what NoisyExperimenter.from_type does with that argument (same run: the plumbing is judged end to end)
    st = Setup(it)
    run.rng_constructions, run.partials, run.ambient_random = [], [], []
    ncls = ModuleInfo.get(NO).classes['NoisyExperimenter']
    return it.call(it.getattr(ncls, 'from_type'), [st.base, z3.Const('noise_type', Str)], {'seed': run.factory_arg})


def noisy_seed_obligations(chk):
    """C20 'noise wrappers with a seed are reproducible', as data flow on the real ASTs: on every path of _create_noise_fn /
    NoisyExperimenter.from_type, for every seed that is not None (Python truthiness of `x or y` exact: 0 is falsy), every generator is
    default_rng(arg) with arg a function of the seed only and never None; the noise draws from nothing else."""
    for label, via, fq in (('Noisy._create_noise_fn', 'create_noise_fn', '_create_noise_fn'), ('Noisy.from_type', 'from_type', 'NoisyExperimenter.from_type')):
        t0 = time.time()
        chk.function(NO, fq)
        paths = E.explore(noise_entry(via), max_paths=400, deadline_s=40)
        bad_paths = sorted({p.value for p in paths if p.kind == 'unsupported'})
        if bad_paths:
            chk.obligation('C20.%s.seeded_rng.supported' % label, fq, 'checker', report.ERROR, 0.0, detail='; '.join(bad_paths)[:800])
            continue
        res = {}          # obligation name -> [(ok, text, seed value)]
        nlive = 0
        for p in paths:
            if p.kind not in ('return', 'raise'):
                continue
            run = p.run
            nlive += 1
            case = seed_case(run, run.seed)
            rngs = run.rng_constructions
            checks = [rng_arg_ok(r.seed_arg, {'seed'}) for r in rngs]
            ok = all(c[0] for c in checks) and (len(rngs) >= 1 or p.kind == 'raise')
            txt = '%s: %s' % (p.describe(), '; '.join(c[1] for c in checks) or 'no generator constructed')
            res.setdefault('C20.%s.seeded_rng[%s]' % (label, case), []).append((ok, txt, seed_value(run, run.seed)))
            stray = [q for q in run.partials if 'rng' in q.kw and not any(q.kw['rng'] is r for r in rngs)]
            ok2 = not stray and not run.ambient_random and len(rngs) <= 1
            res.setdefault('C20.%s.draws_only_from_seeded_rng' % label, []).append(
                (ok2, '%s: %d generator(s), ambient=%s, stray partial rng=%d' % (p.describe(), len(rngs), run.ambient_random, len(stray)), seed_value(run, run.seed)))
        if nlive < 4:
            chk.obligation('C20.%s.seeded_rng.vacuity' % label, fq, 'checker', report.ERROR, 0.0, detail='only %d paths' % nlive)
        dt = (time.time() - t0) / max(len(res), 1)
        for name, items in sorted(res.items()):
            bad = [i for i in items if not i[0]]
            detail = {'paths': len(items), 'rule': 'data flow on every path of the real AST; `x or y` with Python truthiness (0 and False are falsy)'}
            if not bad:
                chk.obligation(name, fq, 'paths', report.PROVED, dt, detail=detail)
                continue
            sv = bad[0][2]
            sc = {'kind': 'noisy_reproducible', 'via': via, 'noise_type': 'SEVERE_GAUSSIAN', 'seed': sv,
                  'base': {'params': [{'name': 'x'}], 'metrics': [{'name': 'obj', 'goal': 'MINIMIZE'}], 'default_value': 2.0}, 'batch': [{'params': {'x': 0.5}}]}
            obs = run_replay(sc)
            rep = (not obs['reproducible']) if 'reproducible' in obs else None
            res_kind = report.VIOLATED if rep else report.UNDECIDED
            chk.obligation(name, fq, 'paths', res_kind, dt, detail=dict(detail, failing=[b[1] for b in bad[:4]], seed=sv,
                                                                       reason='decided on the path; native replay %s' % ('reproduced' if rep else 'did not reproduce')),
                           model='\n'.join(b[1] for b in bad[:6]) + '\nseed = %d' % sv,
                           replay={'scenario': sc, 'observed': obs, 'replay_cmd': '/venv/bin/python %s <scenario.json>' % REPLAY}, reproduced=True if rep else None)
    # factory plumbing: noise_seed -> from_type(seed=...) -> default_rng(...), end to end
    t0 = time.time()
    fq = 'SingleObjectiveExperimenterFactory.__call__'
    chk.function(EF, fq)
    paths = E.explore(factory_seed_entry, max_paths=400, deadline_s=40)
    bad_paths = sorted({p.value for p in paths if p.kind == 'unsupported'})
    if bad_paths:
        chk.obligation('C20.Factory.seeded_rng.supported', fq, 'checker', report.ERROR, 0.0, detail='; '.join(bad_paths)[:800])
        return
    res = {}
    for p in paths:
        if p.kind not in ('return', 'raise'):
            continue
        run = p.run
        if run.seed is None:
            raise Unsupported('the factory seed argument reads %d fields' % len(run.factory_fields))
        case = seed_case(run, run.seed)
        rngs = run.rng_constructions
        checks = [rng_arg_ok(r.seed_arg, {run.seed.decl().name()}) for r in rngs]
        ok = all(c[0] for c in checks) and (len(rngs) >= 1 or p.kind == 'raise')
        res.setdefault('C20.Factory.seeded_rng[%s]' % case, []).append(
            (ok, '%s: from_type(seed=%r) -> %s' % (p.describe(), run.factory_arg, '; '.join(c[1] for c in checks) or 'no generator'), seed_value(run, run.seed)))
    if not res:
        chk.obligation('C20.Factory.seeded_rng.vacuity', fq, 'checker', report.ERROR, 0.0, detail='no path')
    for name, items in sorted(res.items()):
        bad = [i for i in items if not i[0]]
        detail = {'paths': len(items), 'rule': 'noise_seed field -> seed argument of from_type -> default_rng argument, for every not-None field value'}
        if not bad:
            chk.obligation(name, fq, 'paths', report.PROVED, (time.time() - t0) / len(res), detail=detail)
            continue
        sc = {'kind': 'noisy_reproducible', 'via': 'factory', 'noise_type': 'SEVERE_GAUSSIAN', 'seed': bad[0][2],
              'base': {'params': [{'name': 'x'}], 'metrics': [{'name': 'obj', 'goal': 'MINIMIZE'}], 'default_value': 2.0}, 'batch': [{'params': {'x': 0.5}}]}
        obs = run_replay(sc)
        rep = (not obs['reproducible']) if 'reproducible' in obs else None
        chk.obligation(name, fq, 'paths', report.VIOLATED if rep else report.UNDECIDED, (time.time() - t0) / len(res),
                       detail=dict(detail, failing=[b[1] for b in bad[:4]], seed=bad[0][2]), model='\n'.join(b[1] for b in bad[:6]),
                       replay={'scenario': sc, 'observed': obs, 'replay_cmd': '/venv/bin/python %s <scenario.json>' % REPLAY}, reproduced=True if rep else None)


# =========================================================================================== problem_statement() by value, all classes
def ps_entry(construct, nbases=1, bounded=None):
    def entry(it):
        st = Setup(it, nbases=nbases, bounded=bounded)
        run = it.run
        run.w = construct(it, st)
        run.constructed = True
        st.H0 = H0_of(run)
        run.roots = [run.w] + st.bases + ([run.caller_ps] if getattr(run, 'caller_ps', None) is not None else [])
        run.fp0 = X.state_fingerprint(run.roots)
        run.reach0 = set(X.reachable(run.roots))
        run.result = call_method(it, run.w, 'problem_statement', [])
        return run.result
    return entry


def ps_post(short, same_metrics=True):
    R = 'C20.%s.problem_statement.' % short

    def post(p):
        run = p.run
        if p.kind != 'return':
            # a constructor that rejects its arguments is not a path of problem_statement()
            return [(R + 'returns', z3.BoolVal(False))] if getattr(run, 'constructed', False) else []
        out = by_value_obligations(R, p)
        st = run.setup
        lst, l0 = result_metric_list(run.result), st.base.lst0
        if same_metrics and lst is not None:
            F, H0 = G(run), st.H0
            same_len = (lst.n == l0.n) if z3.is_expr(lst.n) or z3.is_expr(l0.n) else z3.BoolVal(lst.n == l0.n)
            out.append((R + 'metrics_of_wrapped_experimenter', z3.And(same_len, QJ(lst, lambda j, m: z3.And(
                F['goal'][m] == H0['goal'][l0.arr[j]], F['miname'][m] == H0['miname'][l0.arr[j]])))))
        return out
    return post


def ps_scenario(layer_of):
    def scenario(p, model):
        sc = scenario_from_model(p.run, model, [])
        sc['kind'] = 'problem_statement'
        names = [q['name'] for q in sc['base']['params']]
        sc['wrappers'] = layer_of(sc, names)
        return sc
    return scenario


def ps_witness(layer_fn):
    def scenario():
        sc = {'kind': 'problem_statement', 'base': {'params': [{'name': 'a'}, {'name': 'b'}], 'metrics': [{'name': 'obj', 'goal': 'MINIMIZE'}]},
              'batch': [], 'script': []}
        sc['wrappers'] = layer_fn(sc, ['a', 'b'])
        return sc
    return scenario


PS_WITNESS_LAYERS = {
    'Permuting': lambda sc, names: [{'module': 'permuting_experimenter', 'class': 'PermutingExperimenter', 'kwargs': {'parameters_to_permute': [], 'seed': 1}}],
    'Sparse': lambda sc, names: [{'module': 'sparse_experimenter', 'class': 'SparseExperimenter', 'kwargs': {'prefix': '_SP', 'sparse_params': [{'name': 'q'}]}}],
    'Numpy': lambda sc, names: [{'module': 'numpy_experimenter', 'class': 'NumpyExperimenter', 'kwargs': {}}],
    'Switch': lambda sc, names: [{'module': 'switch_experimenter', 'class': 'SwitchExperimenter', 'kwargs': {'extra': 1}}],
    'MultiObjective': lambda sc, names: [{'module': 'multiobjective_experimenter', 'class': 'MultiObjectiveExperimenter', 'kwargs': {'names': ['m1', 'm2']}}],
}


PS_CLASSES = [
    # short, module, class, construct, nbases, same metrics as the wrapped experimenter, replay layer
    ('Shifting', SH, 'ShiftingExperimenter', sh_construct, 1, True,
     lambda sc, names: [{'module': 'shifting_experimenter', 'class': 'ShiftingExperimenter', 'kwargs': {'shift': [0.05] * len(names)}}]),
    ('Permuting', PE, 'PermutingExperimenter', pe_construct, 1, True, None),
    ('Discretizing', DI, 'DiscretizingExperimenter', di_construct, 1, True,
     lambda sc, names: [{'module': 'discretizing_experimenter', 'class': 'DiscretizingExperimenter', 'kwargs': {'discretization': {names[0]: [0.1, 0.5]}}}]),
    ('Sparse', SP, 'SparseExperimenter', sp_construct, 1, True, None),
    ('Noisy', NO, 'NoisyExperimenter', no_construct, 1, True,
     lambda sc, names: [{'module': 'noisy_experimenter', 'class': 'NoisyExperimenter', 'kwargs': {'noise': 'PLUS1'}}]),
    ('Normalizing', NZ, 'NormalizingExperimenter', nz_construct, 1, True,
     lambda sc, names: [{'module': 'normalizing_experimenter', 'class': 'NormalizingExperimenter', 'kwargs': {'num_normalization_samples': 3}}]),
    ('HyperCube', NZ, 'HyperCubeExperimenter', hc_construct, 1, True,
     lambda sc, names: [{'module': 'normalizing_experimenter', 'class': 'HyperCubeExperimenter', 'kwargs': {}}]),
    ('Numpy', NP, 'NumpyExperimenter', np_construct, 1, True, None),
    ('HashingInfeasible', IN, 'HashingInfeasibleExperimenter', hi_construct, 1, True,
     lambda sc, names: [{'module': 'infeasible_experimenter', 'class': 'HashingInfeasibleExperimenter', 'kwargs': {}}]),
    ('ParamRegionInfeasible', IN, 'ParamRegionInfeasibleExperimenter', pr_construct, 1, True,
     lambda sc, names: [{'module': 'infeasible_experimenter', 'class': 'ParamRegionInfeasibleExperimenter', 'kwargs': {'parameter_name': names[0]}}]),
    ('Switch', SW, 'SwitchExperimenter', sw_construct, 2, False, None),
    ('MultiObjective', MO, 'MultiObjectiveExperimenter', mo_construct, 2, False, None),
]


def returns_stored_object(p):
    """witness class of the by-reference findings: the result IS an object stored in an attribute of the experimenter."""
    run = p.run
    return z3.BoolVal(any(run.result is v for v in run.w.attrs.values()))


def units_problem_statement():
    out = []
    for short, mod, cname, construct, nb, same, layer in PS_CLASSES:
        R = 'C20.%s.problem_statement.' % short
        native = {R + k: n_by_value for k in ('by_value.fresh_objects', 'by_value.fresh_metric_configs', 'by_value.state_unchanged')}
        known = {}
        for k in ('by_value.fresh_objects', 'by_value.fresh_metric_configs'):
            f = CHK.finding_for(R + k) if CHK is not None else None
            if f is not None:
                known[R + k] = (f['what'], returns_stored_object)
        wl = layer or PS_WITNESS_LAYERS.get(short)
        confirm = {R + k: (ps_witness(wl), n_by_value) for k in ('by_value.fresh_objects', 'by_value.fresh_metric_configs', 'by_value.state_unchanged')} if wl else {}
        out.append(Unit('%s.problem_statement' % cname, short, [(mod, cname + '.problem_statement')], ps_entry(construct, nb), ps_post(short, same),
                        bentry=ps_entry(construct, nb, BOUNDED) if layer else None, scenario=ps_scenario(layer) if layer else None,
                        native=native, known=known, confirm=confirm))
    return out


# =========================================================================================== PermutingExperimenter.__init__: bijection
def pb_entry(it):
    """the real __init__ with two generic permuted parameter names (each iteration of the loop over names writes only its own key;
    two names cover the interaction of two iterations, equal or different names)"""
    run = it.run
    st = Setup(it)
    names = [z3.Const('permuted_name_%d' % k, Str) for k in range(2)]
    cfgs = {}

    def space_model(it_, name):
        # SearchSpace.get(name) returns the config of that name (assumed); one config object per distinct name
        for k, (nm, cfg) in enumerate(cfgs.values()):
            if it_.truth(nm == name):
                return cfg
        k = len(cfgs)
        cfg = X.make_param_config(it_.run, pm._lift(name, Str), k)
        cfgs[k] = (pm._lift(name, Str), cfg)
        return cfg
    run.space_model = space_model
    run.cfgs = cfgs
    run.w = M.construct(it, cls_of(PE, 'PermutingExperimenter'), [st.base, list(names)], {'seed': z3.Int('seed')})
    run.names = names
    return None


def pb_post(p):
    R = 'C20.Permuting.__init__.'
    run = p.run
    if p.kind != 'return':
        return []
    tabs = [v for v in run.w.attrs.values() if isinstance(v, M.PyDict)]
    if len(tabs) != 1:
        raise Unsupported('cannot identify the permutation table built by PermutingExperimenter.__init__')
    out = []
    rows = tabs[0].items()
    clauses, types = [], []
    for key, rm in rows:
        cfg = [c for nm, c in run.cfgs.values() if c.name.eq(key)]
        if not isinstance(rm, X.RawMap) or len(cfg) != 1:
            raise Unsupported('the permutation of a parameter is not built as a dict over its feasible values (%r)' % (rm,))
        F = cfg[0].fv
        j, k, v = z3.Int('j!pb'), z3.Int('k!pb'), z3.Const('v!pb', X.PVal)
        perm = [q for q in getattr(run, 'permutations', []) if q.source is F]
        inr = lambda x: z3.And(x >= 0, x < F.n)
        clauses += [
            z3.ForAll([v], rm.dom[v] == z3.And(inr(F.fidx[v]), F.arr[F.fidx[v]] == v)),                      # defined exactly on the feasible values
            z3.ForAll([j], z3.Implies(inr(j), z3.And(inr(F.fidx[rm.val[F.arr[j]]]), F.arr[F.fidx[rm.val[F.arr[j]]]] == rm.val[F.arr[j]]))),   # maps into them
            z3.ForAll([j, k], z3.Implies(z3.And(inr(j), inr(k), rm.val[F.arr[j]] == rm.val[F.arr[k]]), j == k)),   # injective
        ]
        if len(perm) >= 1:
            tau = perm[-1].tau
            clauses.append(z3.ForAll([j], z3.Implies(inr(j), z3.And(rm.dom[F.arr[tau[j]]], rm.val[F.arr[tau[j]]] == F.arr[j]))))   # surjective
        else:
            raise Unsupported('the permutation dict is not built from rng.permuted(feasible_values)')
        # numpy scalar types: np.float64 is a float, np.str_ is a str, np.int64 is NOT an int (ParameterValue accepts str|int|float|bool)
        src_list = rm.xs
        while not isinstance(src_list, X.ZipList) and hasattr(src_list, 'xs'):
            src_list = src_list.xs              # a list / generator of pairs built from the zip
        vals_from = [q for q in (src_list.parts if isinstance(src_list, X.ZipList) else []) if getattr(q, 'source', None) is F]
        if vals_from and getattr(vals_from[-1], 'python_scalars', False):
            types.append(z3.BoolVal(True))          # ndarray.tolist(): python scalars of the feasible values' own types
        else:
            types.append(z3.Or(cfg[0].tag == 0, cfg[0].tag == 1))
    all_names = z3.And(*[z3.Or(*[key == n for key, _ in rows]) for n in run.names]) if rows else z3.BoolVal(False)
    tag_dom = z3.And(*[z3.And(c.tag >= 0, c.tag <= 2) for _, c in run.cfgs.values()])
    out.append((R + 'bijection', z3.And(all_names, *clauses)))
    out.append((R + 'permuted_values_usable_as_parameter_values', z3.Implies(tag_dom, z3.And(*types))))
    return out


def pb_int_class(p):
    """witness class of the recorded finding: a permuted parameter whose feasible values are python ints (INTEGER parameter)"""
    return z3.Or(*[c.tag == 2 for _, c in p.run.cfgs.values()]) if p.run.cfgs else z3.BoolVal(False)


def pb_witness_scenario():
    return {'kind': 'evaluate', 'base': {'params': [{'name': 'd', 'type': 'DISCRETE', 'feasible': [1.0, 2.0, 3.0, 4.0]},
                                                    {'name': 'c', 'type': 'CATEGORICAL', 'feasible': ['a', 'b', 'c']}],
                                         'metrics': [{'name': 'obj', 'goal': 'MINIMIZE'}]},
            'wrappers': [{'module': 'permuting_experimenter', 'class': 'PermutingExperimenter', 'kwargs': {'parameters_to_permute': ['d', 'c'], 'seed': 11}}],
            'batch': [{'params': {'d': 2.0, 'c': 'a'}}], 'script': []}


def pb_int_witness_scenario():
    """an INTEGER parameter is permuted: its permuted values must still be usable as parameter values"""
    return {'kind': 'evaluate', 'base': {'params': [{'name': 'i', 'type': 'INTEGER', 'bounds': [0, 3]}], 'metrics': [{'name': 'obj', 'goal': 'MINIMIZE'}]},
            'wrappers': [{'module': 'permuting_experimenter', 'class': 'PermutingExperimenter', 'kwargs': {'parameters_to_permute': ['i'], 'seed': 1}}],
            'batch': [{'params': {'i': 1}}], 'script': []}


def n_tables_bijective(sc, obs):
    tabs = list((obs.get('tables') or {}).values())
    if len(tabs) != 1:
        return False
    feas = {p['name']: p['feasible'] for p in sc['base']['params']}
    for pn, row in tabs[0].items():
        keys, vals = [a for a, b in row], [b for a, b in row]
        if sorted(keys, key=repr) != sorted(feas[pn], key=repr) or sorted(vals, key=repr) != sorted(feas[pn], key=repr):
            return False
    return set(tabs[0]) == set(sc['wrappers'][0]['kwargs']['parameters_to_permute'])


def units_permuting_bijection():
    known = {}
    n = 'C20.Permuting.__init__.permuted_values_usable_as_parameter_values'
    f = CHK.finding_for(n) if CHK is not None else None
    if f is not None:
        known[n] = (f['what'], pb_int_class)
    return [Unit('PermutingExperimenter.__init__(bijection)', 'Permuting', [(PE, 'PermutingExperimenter.__init__')], pb_entry, pb_post, known=known,
                 confirm={'C20.Permuting.__init__.bijection': (pb_witness_scenario, n_tables_bijective),
                          n: (pb_int_witness_scenario, lambda sc, obs: obs.get('exception') is None and all(t['has_fm'] for t in obs['after']))})]


# =========================================================================================== SwitchExperimenter.evaluate
def sw_metric_name(w):
    hits = [v for k, v in w.attrs.items() if isinstance(v, str) and 'metric' in k] + [v for k, v in w.attrs.items() if z3.is_expr(v) and v.sort() == Str]
    if len(hits) != 1:
        raise Unsupported('cannot identify the switch metric name')
    return pm._lift(hits[0], Str)


def sw_inv(it, fr, ctx):
    run = it.run
    xs = loop_batch(ctx)
    mname = sw_metric_name(self_of(fr))
    cur, ent = G(run), entry_heap(ctx)
    s = z3.Const('s!sw', Str)

    def done(r):
        completed = z3.And(cur['fmset'][r], z3.ForAll([s], X.MDI.dom(cur['metrics'][r])[s] == (s == mname)))
        marked = z3.And(cur['infeas'][r], cur['fmset'][r], cur['metrics'][r] == X.MDI.empty())
        return z3.And(cur['params'][r] == ent['params'][r], z3.Or(marked, z3.And(cur['infeas'][r] == ent['infeas'][r], completed)))
    return batch_loop_frame(run, ctx, xs, cur, ent, done)


E.LOOPS[(SW, 'SwitchExperimenter.evaluate', 1)] = E.LoopSpec(sw_inv, ghost=X.ALL)


def sw_entry(never_infeasible=False):
    def entry(it):
        st = Setup(it, nbases=2)
        run = it.run
        run.w = sw_construct(it, st)
        run.constructed = True
        run.base_never_infeasible = never_infeasible
        st.H0 = H0_of(run)
        if never_infeasible:
            # residual class: the given trials are not yet completed / infeasible and the wrapped experimenters mark none infeasible
            j = z3.Int('j!swp')
            run.axiom(z3.ForAll([j], z3.Implies(z3.And(j >= 0, j < st.xs.n), z3.Not(st.H0['infeas'][st.xs.arr[j]]))))

        def hook(it_, call):
            conc = getattr(call['xs'], 'conc', None) or []
            ok = len(conc) == 1
            f = z3.And(z3.Not(st.H0['talloc'][conc[0].term]), z3.BoolVal(True)) if ok else z3.BoolVal(False)
            it_.run.oblige('C20.Switch.evaluate.delegates_a_copy', f)
        run.on_base_evaluate = hook
        return call_method(it, run.w, 'evaluate', [st.xs])
    return entry


def sw_post(p):
    R = 'C20.Switch.evaluate.'
    run = p.run
    if p.kind != 'return':
        return []
    mname = sw_metric_name(run.w)
    return post_common(R, p, wrapper_names=lambda s: s == mname)


def sw_witness_scenario():
    """the selected experimenter marks the trial infeasible (with an empty measurement)"""
    return {'kind': 'evaluate', 'base': {'params': [{'name': 'x'}], 'metrics': [{'name': 'obj', 'goal': 'MINIMIZE'}]},
            'wrappers': [{'module': 'switch_experimenter', 'class': 'SwitchExperimenter', 'kwargs': {'extra': 1}}],
            'batch': [{'params': {'switch': 0, 'x': 0.5}}, {'params': {'switch': 1, 'x': 0.25}}],
            'script': [[{'metrics': {}, 'infeasible': True, 'has_fm': True}], [{'metrics': {'obj': {'value': 1.0}}, 'infeasible': False, 'has_fm': True}]]}


def units_switch():
    R = 'C20.Switch.evaluate.'
    rknown = {}
    f = CHK.finding_for(R + 'completes') if CHK is not None else None
    if f is not None:
        rknown[R + 'completes'] = f['what']
    return [Unit('SwitchExperimenter.evaluate', 'Switch', [(SW, 'SwitchExperimenter.evaluate'), (SW, 'SwitchExperimenter.__attrs_post_init__')],
                 sw_entry(), sw_post, rentry=sw_entry(never_infeasible=True), rknown=rknown,
                 confirm={R + 'completes': (sw_witness_scenario, n_completes(lambda sc: ['switch_metric']))})]


# =========================================================================================== loop contracts by shape (refactoring robustness)
def loop_fallback(it, fr, node, iterable, key):
    """a loop without a contract under its (function, ordinal) key (moved into a helper, reordered): try the contracts registered for
    the same class and keep the one whose shape requirements are met by this loop (they raise Unsupported otherwise)."""
    cls = key[1].split('.')[0]
    cands = []
    for (m, q, o), spec in sorted(E.LOOPS.items(), key=lambda kv: (kv[0][0], kv[0][1], kv[0][2])):
        if m != key[0] or q.split('.')[0] != cls or spec in [c for c in cands]:
            continue
        ctx = E.LoopCtx()
        ctx.iter, ctx.phase, ctx.i = iterable, 'init', z3.IntVal(0)
        ctx.entry_env, ctx.entry_vals, ctx.entry_ghost = dict(fr.env), {}, dict(it.run.ghost)
        try:
            spec.invariant(it, fr, ctx)
        except Unsupported:
            continue
        except Exception:
            continue
        cands.append(spec)
    return cands[0] if len(cands) == 1 else None


X.LOOP_FALLBACK[0] = loop_fallback


# =========================================================================================== reported, not obligations
def native_notes(chk):
    """what the real code does on paths the property does not constrain (reported in the evidence, never a verdict):
       * the wrapped experimenter raises inside a save/transform/delegate/restore wrapper: are the parameters restored?
       * the recorded findings' witness programs still fail?"""
    base = {'params': [{'name': 'a'}, {'name': 'b'}], 'metrics': [{'name': 'obj', 'goal': 'MINIMIZE'}], 'raises_on_call': 0}
    layers = {
        'Shifting': {'module': 'shifting_experimenter', 'class': 'ShiftingExperimenter', 'kwargs': {'shift': [0.05, 0.05]}},
        'Discretizing': {'module': 'discretizing_experimenter', 'class': 'DiscretizingExperimenter', 'kwargs': {'discretization': {'a': ['0.25', '0.5']}}},
        'Sparse': {'module': 'sparse_experimenter', 'class': 'SparseExperimenter', 'kwargs': {'prefix': '_SP', 'sparse_params': [{'name': 'q'}]}},
        'Permuting': {'module': 'permuting_experimenter', 'class': 'PermutingExperimenter', 'kwargs': {'parameters_to_permute': ['a'], 'seed': 5}},
    }
    scs = []
    for k, layer in layers.items():
        b = json.loads(json.dumps(base))
        params = {'a': 0.25, 'b': 0.5}
        if k == 'Discretizing':
            params = {'a': '0.25', 'b': 0.5}
        if k == 'Sparse':
            params = {'a': 0.25, 'b': 0.5, '_SP_q': 0.1}
        if k == 'Permuting':
            b['params'] = [{'name': 'a', 'type': 'DISCRETE', 'feasible': [0.25, 0.5, 0.75]}, {'name': 'b'}]
        scs.append({'kind': 'evaluate', 'base': b, 'wrappers': [layer], 'batch': [{'params': params}], 'script': []})
    obs = run_replay({'kind': 'multi', 'scenarios': scs})
    res = obs.get('results') or []
    lines = []
    for (k, _), o in zip(layers.items(), res):
        if 'after' not in o:
            lines.append('%s: no observation (%s)' % (k, str(o)[:120]))
            continue
        restored = all(a['params'] == b['params'] and a['param_types'] == b['param_types'] for a, b in zip(o['after'], o['before']))
        lines.append('%s: %s' % (k, 'parameters restored' if restored else 'parameters NOT restored (trial keeps the transformed parameters %s)' % o['after'][0]['params']))
    chk.note('EXCEPTION PATHS (reported, not an obligation -- the property describes completed evaluations): when the wrapped experimenter '
             'raises inside evaluate(), the exception propagates and the wrappers do not restore the saved parameters (no try/finally) -- native '
             'observation: ' + '; '.join(lines) + '.')
    chk.extra['exception_paths'] = lines
    fo = run_replay({'kind': 'finding'})
    still = {r['obligation']: r['reproduced'] for r in fo.get('results', [])}
    chk.extra['known_finding_witnesses'] = still
    chk.note('known-finding witness programs re-run on this tree: %s.' % ', '.join('%s=%s' % (k.replace('C20.', ''), 'fails (finding present)' if v else 'passes') for k, v in sorted(still.items())))
    chk.note('NOT COVERED: numeric faithfulness of BBOB / Branin / Hartmann / SimpleKD and of the converters (floating-point algebra: not claimed); '
             'MultiObjectiveExperimenter.evaluate and MultiObjectiveNumpyExperimenter (a list of fresh Measurement objects of symbolic length is outside the heap '
             'model; natively: a wrapped experimenter that marks a trial infeasible makes MultiObjectiveExperimenter.evaluate raise KeyError or lose the mark); '
             'the search-space construction in the wrappers\' __init__ (Shifting bounds restriction, Discretizing feasible values, HyperCube space, Sparse '
             'placeholders, SwitchExperimenter conditional space), DiscretizingExperimenter.create_with_grid, SparseExperimenter.create, experimenter_factory, '
             'benchmark_runner, surrogate / HPOB / NASBench / combo / L1-categorical experimenters; NoisyExperimenter noise models (only determinism given a seed).')
    chk.note('COMPOSITION: every wrapper W is proved to re-establish BaseContract for W(e) from BaseContract for e (evaluate.completes + '
             'evaluate.parameters_unchanged|parameters_restored + evaluate.frame + problem_statement.by_value.* + problem_statement.metrics_of_wrapped_experimenter), '
             'so the clauses hold for every finite stacking of SignFlip, Shifting, Permuting, Discretizing, Sparse, Noisy, Normalizing, HyperCube, '
             'HashingInfeasible, ParamRegionInfeasible over any experimenter satisfying BaseContract (for every recorded finding that is still open, only outside its '
             'witness class); SwitchExperimenter re-establishes completes / parameters / frame for its own metric.')


# =========================================================================================== main
def all_units():
    return units_signflip() + units_transformers() + units_numpy() + units_infeasible_hypercube() + units_normalizing() + units_noisy() + units_permuting_bijection() + units_switch() + units_problem_statement()


def main(tier):
    global TIER
    TIER = tier
    chk = report.Check('C20', tier, level='proof',
                       technique='modular contract-based deductive verification: wrapper experimenters executed symbolically from their '
                                 'real ASTs against an assumed BaseContract of the wrapped experimenter; heap of trials, loop contracts '
                                 'over batches / parameter dicts / metric dicts of arbitrary size; bounded model query + native replay '
                                 'for refutation')
    global CHK
    CHK = chk
    for a in ASSUMPTIONS:
        chk.assume(a)
    for t in X.TRUST:
        chk.trust(t)
    chk.trust('pyvc VC generator (engine.py, models.py, exptr_model.py), z3 5.1.0')
    try:
        noisy_frame_obligations(chk)
    except Exception as e:
        import traceback
        chk.error('C20.Noisy.readframe', 'checker crashed: %r\n%s' % (e, traceback.format_exc()[-1200:]))
    try:
        noisy_seed_obligations(chk)
    except Exception as e:
        import traceback
        chk.error('C20.Noisy.seeded_rng', 'checker crashed: %r\n%s' % (e, traceback.format_exc()[-1500:]))
    try:
        native_notes(chk)
    except Exception as e:
        chk.note('native notes could not be produced: %r' % (e,))
    for u in all_units():
        try:
            run_unit(chk, u)
        except Exception as e:      # a crash of the checker is a checker error, never a verdict
            import traceback
            chk.error('C20.%s.checker' % u.label, 'checker crashed: %r\n%s' % (e, traceback.format_exc()[-1200:]))
            native_standins(chk, u)
    return chk.finish(min_obligations=250)
